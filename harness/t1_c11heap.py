"""T1 plug-in for C11 (first half): the EFFECT SUMMARY of the library - every place where its code mutates an object,
classified by the ROOT of the mutated object.  Output: coq/Gen/EffectParams.v (pinned fallback coq/Gen/EffectParams.pinned).

Scanned: src/stingray/schema_instance.py, workbook.py, implementations.py and cobol_parser.py.  In cobol_parser.py the PRODUCER
pipeline (reference_format, dde_sentences, expand_repeat, pass_non_empty, normalize_picture, clause_dict, class DDE, structure,
JSONSchemaMaker.jsonschema / json_type / build_json_schema, JSONSchemaMakerExtendedVocabulary.json_type and the functions nested in
them) works on text, on the parse tree and on the document UNDER CONSTRUCTION (the subject of C07b's heap model); for those
functions only the CLASSLEVEL sites are kept.  Everything else in cobol_parser.py (the makers' constructors, schema_iter, any new
function) is the use-side and is classified in full, like the other three modules.

MUTATION SITE: an assignment, augmented assignment or del whose target is a subscript or an attribute; an augmented assignment
to a bare name that may hold a container; a call of update, setdefault, pop, popitem, clear, append, extend, insert, remove, sort,
reverse, add, discard, __setitem__, __delitem__ on anything (also the unbound form dict.update(x, ...)).
The MUTATED OBJECT of  X.a = v / X[k] = v / X.m(...)  is the value of X.  Its ROOT CLASS:

  FRESH       X is self inside __init__ (the object under construction); or a local every binding of which is a literal, a
              comprehension, a constructor call of a class of the scanned modules, a builtin constructor / copy, the result of an
              operator, or a call of a library function all of whose return statements return such a local ("returns fresh");
              or the loop variable over such a local list all of whose elements are fresh.  FRESH sites are checked and DROPPED
              from the listing: a write to an object allocated in the same activation cannot reach an object that existed before
              (and a loop and the comprehension it is rewritten into then give the same file).
  OWN         X is self (outside __init__) in a class that is not a Schema class: the library object's own slot; or self.a where
              every assignment to self.a in the class family (the class, its ancestors and descendants in the scanned modules) and
              every assignment  other.a = ..  anywhere has a FRESH right-hand side (LocationMaker.anchors, SchemaMaker.name_cache /
              fixup_list, WBFileRegistry.suffix_map); or a local bound to such a self.a.
  CLASSLEVEL  X is a class (DDE.filler_count = 0), cls, a module-level variable, or Y.a where a is assigned in a class body and
              never through an instance (SchemaMaker.ATOMIC): process-wide state.
  REFSLOT     fixup.ref_to = ..  where fixup is the loop variable over self.fixup_list, an OWN list to which only freshly constructed
              Schema nodes are appended: the one write to a loaded Schema node the property text allows (from_json's fix-up pass).
  SCHEMANODE  X is self, outside __init__, in a class derived from Schema: state hung on a loaded schema node.
  ALIAS       everything else: X is a parameter, an attribute bound to a parameter (Schema._attributes), the result of an unknown
              call, an element of a container that may hold the caller's objects, or reached through a DEEPER CHAIN
              (x[k][j] = v, x.a.append(..), schema.attributes[k] = v): possibly the caller's document or a loaded Schema.

Descriptors name the mutated slot / object without local names, line numbers or the kind of statement beyond  =  (an attribute
of the object is rebound or deleted) and  []  (its content is changed: subscript assignment / del, mutating method, += on a
container); sites are de-duplicated and sorted per function; functions are sorted.  Hence renaming locals, reordering statements,
loop <-> comprehension, x[k] = v <-> x.update(..) and if/else <-> conditional expression give the same text.  Listed: every function with at least one non-FRESH site, and the entry points named in ENTRY_POINTS (with an empty
list when they mutate nothing).

TRUSTED (repeated in coq/Props/C11c.v): this classification; CPython semantics of the constructs it recognises (a literal,
comprehension or constructor call yields a new object; typing.cast is the identity; attribute assignment never changes a dict or
list; comprehension variables are local to the comprehension); that functions OUTSIDE the scanned modules (standard library,
estruct, the spreadsheet packages, jsonschema) do not mutate the arguments the library hands them.
Fail closed: global / nonlocal, setattr / delattr / getattr / exec / eval / vars / globals / operator / __setattr__, a mutating method taken
as a value (x.append without a call), x.__init__(..) other than through super(), rebinding of self, duplicate class names, a mutation at module or class-body level, a missing
entry point, anything else not understood -> translate.Unrecognised (the pinned text is used; the run relies on the correspondence
run with fingerprints).
"""
import ast
import os

from translate import Unrecognised

MODULES = ["schema_instance", "workbook", "implementations", "cobol_parser"]
MUT = {"update", "setdefault", "pop", "popitem", "clear", "append", "extend", "insert", "remove", "sort", "reverse", "add",
       "discard", "__setitem__", "__delitem__"}
FORBIDDEN_NAMES = {"setattr", "delattr", "getattr", "exec", "eval", "vars", "globals", "__import__", "operator"}
FORBIDDEN_ATTRS = {"__setattr__", "__delattr__", "shuffle", "heappush", "heappop", "heapify", "insort",
                   "insort_left", "insort_right"}
FRESH_BUILTINS = {"dict", "list", "set", "frozenset", "tuple", "sorted", "enumerate", "zip", "map", "filter", "reversed", "range",
                  "str", "int", "float", "bool", "bytes", "bytearray", "len", "repr", "Decimal", "Path", "partial", "ref", "iter",
                  "sum", "isinstance", "hasattr", "print", "format", "ord", "chr", "abs", "divmod", "round", "id"}
SCALAR_ANN = {"int", "str", "float", "bool", "bytes", "Decimal"}
SCALAR_CALLS = {"int", "len", "str", "float", "bool", "sum", "abs", "round", "ord", "chr", "repr"}
PRODUCER_FUNCS = {"reference_format", "dde_sentences", "expand_repeat", "pass_non_empty", "normalize_picture", "clause_dict",
                  "structure", "JSONSchemaMaker.jsonschema", "JSONSchemaMaker.json_type", "JSONSchemaMaker.build_json_schema",
                  "JSONSchemaMakerExtendedVocabulary.json_type"}
PRODUCER_CLASSES = {"DDE"}
# the entry points of the property: always listed (missing -> Unrecognised)
ENTRY_POINTS = [
    "schema_instance.SchemaMaker.from_json", "schema_instance.SchemaMaker.walk_schema", "schema_instance.SchemaMaker.resolve",
    "schema_instance.Schema.json", "schema_instance.Schema.print", "schema_instance.Schema.dump_iter",
    "schema_instance.EBCDIC.nav", "schema_instance.EBCDIC.calcsize", "schema_instance.EBCDIC.value",
    "schema_instance.Struct.nav", "schema_instance.Struct.calcsize", "schema_instance.Struct.value",
    "schema_instance.TextUnpacker.nav", "schema_instance.TextUnpacker.calcsize", "schema_instance.TextUnpacker.value",
    "schema_instance.Delimited.nav", "schema_instance.Delimited.calcsize", "schema_instance.Delimited.value",
    "schema_instance.WBUnpacker.nav", "schema_instance.WBUnpacker.calcsize", "schema_instance.WBUnpacker.value",
    "schema_instance.LocationMaker.from_instance", "schema_instance.LocationMaker.from_schema", "schema_instance.LocationMaker.walk",
    "schema_instance.NDNav.name", "schema_instance.NDNav.index", "schema_instance.NDNav.value", "schema_instance.NDNav.raw",
    "schema_instance.NDNav.dump",
    "schema_instance.DNav.name", "schema_instance.DNav.index", "schema_instance.DNav.value", "schema_instance.DNav.dump",
    "schema_instance.WBNav.name", "schema_instance.WBNav.index", "schema_instance.WBNav.value", "schema_instance.WBNav.dump",
    "workbook.Row.name", "workbook.Row.values", "workbook.Sheet.set_schema", "workbook.Sheet.row_iter",
    "workbook.COBOL_EBCDIC_Sheet.set_schema", "workbook.COBOL_EBCDIC_Sheet.row_iter",
    "workbook.SchemaLoader.header", "workbook.SchemaLoader.body", "workbook.HeadingRowSchemaLoader.header",
    "workbook.ExternalSchemaLoader.load", "workbook.COBOLSchemaLoader.load",
    "cobol_parser.schema_iter",
]

FRESH, OWN, ALIAS, CLASSLEVEL, SCHEMANODE, REFSLOT = "FRESH", "OWN", "ALIAS", "CLASSLEVEL", "SCHEMANODE", "REFSLOT"
LISTED = [OWN, CLASSLEVEL, REFSLOT, SCHEMANODE, ALIAS]


# ------------------------------------------------------------------ the program as a whole


class ClassInfo:
    def __init__(self, module, node):
        self.module, self.node, self.name = module, node, node.name
        self.bases = []
        for b in node.bases:
            if isinstance(b, ast.Subscript):
                b = b.value
            if isinstance(b, ast.Name):
                self.bases.append(b.id)
            elif isinstance(b, ast.Attribute):
                self.bases.append(b.attr)
            else:
                raise Unrecognised(f"class {node.name}: base of an unknown shape")
        if node.keywords:
            raise Unrecognised(f"class {node.name}: class keywords (metaclass)")
        self.level_attrs = set()      # names assigned in the class body
        self.methods = {}
        self.method_nodes = []        # every def of the body, also two of the same name (property getter and setter)
        for st in node.body:
            if isinstance(st, ast.Assign):
                for t in st.targets:
                    if not isinstance(t, ast.Name):
                        raise Unrecognised(f"class {node.name}: class-body assignment to a non-name")
                    self.level_attrs.add(t.id)
            elif isinstance(st, ast.AnnAssign):
                if not isinstance(st.target, ast.Name):
                    raise Unrecognised(f"class {node.name}: class-body assignment to a non-name")
                if st.value is not None:
                    self.level_attrs.add(st.target.id)
            elif isinstance(st, (ast.FunctionDef, ast.AsyncFunctionDef)):
                self.methods[st.name] = st
                self.method_nodes.append(st)
            elif isinstance(st, (ast.Expr, ast.Pass)):
                if isinstance(st, ast.Expr) and not isinstance(st.value, ast.Constant):
                    raise Unrecognised(f"class {node.name}: expression statement in the class body")
            else:
                raise Unrecognised(f"class {node.name}: {type(st).__name__} in the class body")
        if "__new__" in self.methods or "__init_subclass__" in self.methods or "__setattr__" in self.methods:
            raise Unrecognised(f"class {node.name}: defines __new__ / __init_subclass__ / __setattr__")


class Program:
    def __init__(self, src):
        self.trees, self.classes, self.globals, self.imported, self.funcs = {}, {}, {}, {}, []
        self.module_funcs = {}
        self.typing_cast = set()        # modules in which the name cast is typing.cast
        self.module_func_nodes = {m: [] for m in MODULES}
        self.all_classes = []
        for m in MODULES:
            path = os.path.join(src, "stingray", m + ".py")
            tree = ast.parse(open(path, encoding="utf-8").read())
            self.trees[m] = tree
            self.globals[m], self.imported[m], self.module_funcs[m] = set(), set(), {}
            self._module_body(m, tree.body)
        # every function, with the chain of enclosing functions (closures see the enclosing scopes)
        for m in MODULES:
            for fn in self.module_func_nodes[m]:
                self._add_func(m, fn.name, fn, None, [])
        for c in self.all_classes:
            for fn in c.method_nodes:
                self._add_func(c.module, f"{c.name}.{fn.name}", fn, c, [])
        self.by_name = {}
        for f in self.funcs:
            self.by_name.setdefault(f.node.name, []).append(f)
        self.level_names = set()
        for c in self.classes.values():
            self.level_names |= c.level_attrs
        self._families = {}
        self._fresh_ret = {}
        self._param_cache = {}
        # attribute stores through something that is not self: (attr, value expression, function)
        self.foreign_stores = {}
        self.self_stores = {}      # (class name, attr) -> [(value expression or None, function)]
        for f in self.funcs:
            f.collect_attr_stores()

    def _module_body(self, m, body):
        for st in body:
            if isinstance(st, ast.ClassDef):
                info = ClassInfo(m, st)
                if st.name in self.classes:
                    # the same name twice is accepted only for bodiless marker classes (DesignError in two modules)
                    other = self.classes[st.name]
                    if info.methods or info.level_attrs or other.methods or other.level_attrs:
                        raise Unrecognised(f"two classes named {st.name}")
                if st.decorator_list:
                    for d in st.decorator_list:
                        self._check_expr_free_of_sites(d, f"decorator of class {st.name}")
                self.classes[st.name] = info
                self.all_classes.append(info)
                self.globals[m].add(st.name)
            elif isinstance(st, (ast.FunctionDef, ast.AsyncFunctionDef)):
                self.module_funcs[m][st.name] = st
                self.module_func_nodes[m].append(st)
                self.globals[m].add(st.name)
            elif isinstance(st, (ast.Import, ast.ImportFrom)):
                for a in st.names:
                    self.imported[m].add((a.asname or a.name).split(".")[0])
                    if isinstance(st, ast.ImportFrom) and st.module == "typing" and a.name == "cast" and a.asname is None:
                        self.typing_cast.add(m)
            elif isinstance(st, ast.Assign):
                for t in st.targets:
                    for n in ast.walk(t):
                        if isinstance(n, ast.Name):
                            self.globals[m].add(n.id)
                        elif isinstance(n, (ast.Attribute, ast.Subscript)):
                            raise Unrecognised(f"{m}: mutation at module level")
                self._check_expr_free_of_sites(st.value, f"{m} module level")
            elif isinstance(st, ast.AnnAssign):
                if not isinstance(st.target, ast.Name):
                    raise Unrecognised(f"{m}: mutation at module level")
                self.globals[m].add(st.target.id)
                if st.value is not None:
                    self._check_expr_free_of_sites(st.value, f"{m} module level")
            elif isinstance(st, ast.Try):
                self._module_body(m, st.body)
                for h in st.handlers:
                    self._module_body(m, h.body)
                self._module_body(m, st.orelse)
                self._module_body(m, st.finalbody)
            elif isinstance(st, ast.If):
                self._check_expr_free_of_sites(st.test, f"{m} module level")
                self._module_body(m, st.body)
                self._module_body(m, st.orelse)
            elif isinstance(st, ast.Expr):
                self._check_expr_free_of_sites(st.value, f"{m} module level")
            elif isinstance(st, ast.Pass):
                pass
            elif hasattr(ast, "TypeAlias") and isinstance(st, ast.TypeAlias):
                self.globals[m].add(st.name.id)
            else:
                raise Unrecognised(f"{m}: {type(st).__name__} at module level")

    def _check_expr_free_of_sites(self, e, where):
        for n in ast.walk(e):
            if isinstance(n, ast.Call) and isinstance(n.func, ast.Attribute) and n.func.attr in MUT:
                raise Unrecognised(f"{where}: mutating call outside a function")
            if isinstance(n, ast.Name) and n.id in FORBIDDEN_NAMES:
                raise Unrecognised(f"{where}: {n.id}")
            if isinstance(n, ast.NamedExpr):
                raise Unrecognised(f"{where}: walrus outside a function")

    def _add_func(self, m, qual, node, cls, outer):
        f = Func(self, m, qual, node, cls, outer)
        self.funcs.append(f)
        for st in f.nested_defs:
            self._add_func(m, f"{qual}.{st.name}", st, cls, outer + [f])

    # -- class families
    def ancestors(self, cname, seen=None):
        seen = set() if seen is None else seen
        if cname in seen or cname not in self.classes:
            return seen
        seen.add(cname)
        for b in self.classes[cname].bases:
            self.ancestors(b, seen)
        return seen

    def family(self, cname):
        if cname not in self._families:
            anc = self.ancestors(cname)
            fam = set(anc)
            for c in self.classes:
                if self.ancestors(c) & {cname}:
                    fam.add(c)
                    fam |= self.ancestors(c)
            self._families[cname] = fam
        return self._families[cname]

    def is_schema_class(self, cname):
        return "Schema" in self.ancestors(cname)

    # -- does every function of this name return a fresh object
    def returns_fresh(self, name):
        if name not in self._fresh_ret:
            self._fresh_ret[name] = False          # least fixed point: a recursive dependency counts as not fresh
            fs = self.by_name.get(name, [])
            self._fresh_ret[name] = bool(fs) and all(f.returns_fresh() for f in fs)
        return self._fresh_ret[name]

    # -- the object held in attribute a of an instance of class cname
    def attr_class(self, cname, a):
        fam = self.family(cname) if cname else set()
        stores = []
        for c in fam:
            stores += self.self_stores.get((c, a), [])
        stores += self.foreign_stores.get(a, [])
        level = any(a in self.classes[c].level_attrs for c in fam)
        if level:
            return CLASSLEVEL
        if not stores:
            return ALIAS
        for value, fn in stores:
            if value is None or fn.expr_class(value) != FRESH:
                return ALIAS
        return OWN

    # -- a parameter of a PRIVATE function (leading underscore, only ever called directly from the scanned modules): the join of
    #    the classes of the actual arguments at all its call sites.  Public functions can be called by anybody: ALIAS.
    def param_class(self, f, pname):
        name = f.node.name
        if not name.startswith("_") or name.startswith("__") or f.outer or len(self.by_name.get(name, [])) != 1:
            return ALIAS
        key = (f.fname, pname)
        if key in self._param_cache:
            return self._param_cache[key] or ALIAS
        self._param_cache[key] = None
        a = f.node.args
        if a.vararg and a.vararg.arg == pname or a.kwarg and a.kwarg.arg == pname:
            self._param_cache[key] = ALIAS
            return ALIAS
        positional = [x.arg for x in a.posonlyargs + a.args]
        res, seen_call = None, False
        for g in self.funcs:
            nodes = g._own_nodes()
            called = {id(n.func): n for n in nodes if isinstance(n, ast.Call)}
            for n in nodes:
                is_ref = (isinstance(n, ast.Name) and n.id == name and g.scope_of(name) is None) or (isinstance(n, ast.Attribute) and n.attr == name)
                if not is_ref:
                    continue
                call = called.get(id(n))
                if call is None or any(isinstance(x, ast.Starred) for x in call.args) or any(k.arg is None for k in call.keywords):
                    res = ALIAS           # the function is used as a value, or called with * / **
                    continue
                seen_call = True
                shift = 0
                if f.cls is not None and (f.self_name or f.cls_name) and isinstance(n, ast.Attribute) and not (isinstance(n.value, ast.Name) and n.value.id in self.classes and f.self_name):
                    shift = 1             # bound call: the first parameter is the receiver
                if f.cls is not None and isinstance(n, ast.Name):
                    res = ALIAS
                    continue
                arg = None
                if pname in positional:
                    i = positional.index(pname) - shift
                    if i == -1:
                        arg = n.value     # the receiver itself
                    elif 0 <= i < len(call.args):
                        arg = call.args[i]
                for k in call.keywords:
                    if k.arg == pname:
                        arg = k.value
                if arg is None:
                    d = None              # the default value is used: a shared object when it is mutable
                    c = ALIAS
                else:
                    c = g.object_class(arg, g._shadowed().get(id(call), frozenset()))
                if c == FRESH and res in (None, FRESH):
                    res = FRESH
                elif c in (FRESH, OWN) and res in (None, FRESH, OWN):
                    res = OWN
                else:
                    res = ALIAS
        if not seen_call:
            res = ALIAS
        self._param_cache[key] = res or ALIAS
        return self._param_cache[key]

    def attr_never_instance_stored(self, a):
        return not self.foreign_stores.get(a) and not any(k[1] == a for k in self.self_stores)


# ------------------------------------------------------------------ one function


def _targets(t):
    """the atomic targets of an assignment target"""
    if isinstance(t, (ast.Tuple, ast.List)):
        for e in t.elts:
            yield from _targets(e)
    elif isinstance(t, ast.Starred):
        yield from _targets(t.value)
    else:
        yield t


class Func:
    def __init__(self, prog, module, qual, node, cls, outer):
        self.prog, self.module, self.qual, self.node, self.cls, self.outer = prog, module, qual, node, cls, outer
        self.fname = f"{module}.{qual}"
        deco = [d.id for d in node.decorator_list if isinstance(d, ast.Name)]
        a = node.args
        self.params = [x.arg for x in a.posonlyargs + a.args + a.kwonlyargs] + ([a.vararg.arg] if a.vararg else []) + ([a.kwarg.arg] if a.kwarg else [])
        self.param_ann = {x.arg: x.annotation for x in a.posonlyargs + a.args + a.kwonlyargs}
        self.self_name = self.cls_name = None
        if cls is not None and not outer and "staticmethod" not in deco and (a.posonlyargs + a.args):
            first = (a.posonlyargs + a.args)[0].arg
            if "classmethod" in deco:
                self.cls_name = first
            else:
                self.self_name = first
        self.is_init = cls is not None and not outer and node.name == "__init__"
        self.bindings = {}          # local name -> [("expr", e) | ("elem", e) | ("param",) | ("opaque",) | ("aug", e)]
        self.nested_defs = []
        self.is_generator = False
        self._cache = {}
        for p in self.params:
            self.bindings.setdefault(p, []).append(("param",))
        self._collect(node.body)

    # ---- bindings
    def _bind(self, target, kind, e):
        for t in _targets(target):
            if isinstance(t, ast.Name):
                if t.id == self.self_name or t.id == self.cls_name:
                    raise Unrecognised(f"{self.fname}: rebinding of {t.id}")
                k = kind
                if kind == "expr" and t is not target:
                    k = "elem"        # unpacking: bound to a part of the value
                self.bindings.setdefault(t.id, []).append((k, e))

    def _collect(self, body):
        for st in body:
            self._collect_stmt(st)

    def _collect_stmt(self, st):
        if isinstance(st, (ast.FunctionDef, ast.AsyncFunctionDef)):
            self.nested_defs.append(st)
            self.bindings.setdefault(st.name, []).append(("opaque",))
            for d in st.decorator_list + st.args.defaults + [x for x in st.args.kw_defaults if x is not None]:
                self._collect_expr(d)
            return
        if isinstance(st, ast.ClassDef):
            raise Unrecognised(f"{self.fname}: class defined inside a function")
        if isinstance(st, (ast.Global, ast.Nonlocal)):
            raise Unrecognised(f"{self.fname}: global / nonlocal")
        if isinstance(st, ast.Assign):
            for t in st.targets:
                self._bind(t, "expr", st.value)
        elif isinstance(st, ast.AnnAssign):
            if st.value is not None:
                self._bind(st.target, "expr", st.value)
        elif isinstance(st, ast.AugAssign):
            if isinstance(st.target, ast.Name):
                self.bindings.setdefault(st.target.id, []).append(("aug", st.value))
        elif isinstance(st, (ast.For, ast.AsyncFor)):
            self._bind(st.target, "elem", st.iter)
        elif isinstance(st, (ast.With, ast.AsyncWith)):
            for it in st.items:
                if it.optional_vars is not None:
                    self._bind(it.optional_vars, "opaque", None)
        elif isinstance(st, ast.Try) or (hasattr(ast, "TryStar") and isinstance(st, ast.TryStar)):
            for h in st.handlers:
                if h.name:
                    self.bindings.setdefault(h.name, []).append(("opaque",))
        elif isinstance(st, (ast.Import, ast.ImportFrom)):
            for a in st.names:
                self.bindings.setdefault((a.asname or a.name).split(".")[0], []).append(("opaque",))
        elif isinstance(st, ast.Match):
            for case in st.cases:
                for n in ast.walk(case.pattern):
                    for nm in ([n.name] if isinstance(n, (ast.MatchAs, ast.MatchStar)) else [n.rest] if isinstance(n, ast.MatchMapping) else []):
                        if nm:
                            self.bindings.setdefault(nm, []).append(("elem", st.subject))
        # expressions directly in this statement (walrus, comprehensions, lambdas, yields), then nested statements
        for field, value in ast.iter_fields(st):
            for v in (value if isinstance(value, list) else [value]):
                if isinstance(v, ast.expr):
                    self._collect_expr(v)
                elif isinstance(v, ast.stmt):
                    self._collect_stmt(v)
                elif isinstance(v, (ast.excepthandler, ast.match_case)):
                    for sub in v.body:
                        self._collect_stmt(sub)
                    if isinstance(v, ast.match_case) and v.guard is not None:
                        self._collect_expr(v.guard)
                    if isinstance(v, ast.excepthandler) and v.type is not None:
                        self._collect_expr(v.type)
                elif isinstance(v, ast.withitem):
                    self._collect_expr(v.context_expr)

    def _collect_expr(self, e):
        for n in ast.walk(e):
            if isinstance(n, ast.NamedExpr):
                self._bind(n.target, "expr", n.value)
            elif isinstance(n, (ast.Yield, ast.YieldFrom)):
                self.is_generator = True
            elif isinstance(n, ast.Await):
                raise Unrecognised(f"{self.fname}: await")

    # ---- where a name lives
    def scope_of(self, name):
        """the function (this one or an enclosing one) in which name is local, or None"""
        if name in self.bindings:
            return self
        for f in reversed(self.outer):
            if name in f.bindings:
                return f
        return None

    def _self_func(self):
        """(function whose first parameter is the instance, its name) for this function or an enclosing one"""
        for f in [self] + list(reversed(self.outer)):
            if f.self_name:
                return f
        return None

    def is_self(self, e):
        if not isinstance(e, ast.Name):
            return False
        f = self.scope_of(e.id)
        return f is not None and f.self_name == e.id

    def is_cls(self, e):
        """e evaluates to a class object: a class of the scanned modules, cls of a classmethod, type(x), x.__class__"""
        if isinstance(e, ast.Name):
            f = self.scope_of(e.id)
            if f is not None:
                return f.cls_name == e.id
            return e.id in self.prog.classes
        if isinstance(e, ast.Call) and isinstance(e.func, ast.Name) and e.func.id == "type" and len(e.args) == 1:
            return True
        if isinstance(e, ast.Attribute) and e.attr == "__class__":
            return True
        return False

    # ---- classification of the object an expression evaluates to
    def name_class(self, name, shadow=frozenset()):
        if name in shadow:
            return ALIAS
        f = self.scope_of(name)
        if f is None:
            if name in self.prog.classes:
                return CLASSLEVEL
            if name in self.prog.globals[self.module]:
                if name in self.prog.module_funcs[self.module]:
                    return ALIAS
                return CLASSLEVEL          # a module-level variable: process-wide
            return ALIAS                   # builtins, imported names
        if f is not self:
            return f.name_class(name)
        key = ("name", name)
        if key in self._cache:
            return self._cache[key] or ALIAS     # in progress: a cyclic definition is not fresh
        self._cache[key] = None
        if name == self.self_name:
            res = FRESH if self.is_init else (SCHEMANODE if self.prog.is_schema_class(self.cls.name) else OWN)
        elif name == self.cls_name:
            res = CLASSLEVEL
        else:
            res = None
            for b in self.bindings[name]:
                if b[0] == "param":
                    c = self.prog.param_class(self, name)
                elif b[0] == "opaque":
                    c = ALIAS
                elif b[0] == "expr":
                    c = self.expr_class(b[1])
                elif b[0] == "aug":
                    continue                # x += e: the same object, or a new one made by an operator
                elif b[0] == "elem":
                    c = FRESH if self.elements_fresh(b[1]) else ALIAS
                res = c if res is None else (res if res == c else ALIAS)
            res = res or ALIAS
        self._cache[key] = res
        return res

    def elements_fresh(self, it):
        """every element of the iterable is an object constructed in this activation"""
        if isinstance(it, (ast.List, ast.Tuple, ast.Set)):
            return all(self.expr_class(x) == FRESH and not isinstance(x, ast.Name) for x in it.elts)
        if isinstance(it, (ast.ListComp, ast.SetComp, ast.GeneratorExp)):
            return self._constructed(it.elt)
        if isinstance(it, ast.Name) and self.scope_of(it.id) is self and it.id not in self.params:
            bs = self.bindings[it.id]
            if not bs or any(b[0] != "expr" for b in bs):
                return False
            if not all(isinstance(b[1], (ast.List, ast.Set, ast.ListComp, ast.SetComp)) and self.elements_fresh(b[1]) for b in bs):
                return False
            # everything put into it later is constructed here too
            for kind, target, extra, node, store in self.raw_sites():
                if isinstance(target, ast.Name) and target.id == it.id:
                    if not (kind == "call" and extra[0] in ("append", "add") and len(extra[1]) == 1 and self._constructed(extra[1][0])):
                        return False
            return True
        return False

    def _constructed(self, e):
        """e evaluates to an object made in this activation (not merely a fresh container of old objects is needed here: the
        OBJECT itself is new): a constructor call, a call of a function that returns fresh, a literal container"""
        if isinstance(e, ast.Call):
            return self.expr_class(e) == FRESH
        if isinstance(e, (ast.Dict, ast.List, ast.Set, ast.ListComp, ast.DictComp, ast.SetComp)):
            return True
        if isinstance(e, ast.Name) and self.scope_of(e.id) is self and e.id not in self.params:
            return self.name_class(e.id) == FRESH
        return False

    def expr_class(self, e, shadow=frozenset()):
        if not (isinstance(e, ast.Name) and e.id in shadow) and not isinstance(e, ast.Constant) and self.is_cls(e):
            return CLASSLEVEL           # a class object: type(x), x.__class__, cls, a class name
        if isinstance(e, (ast.Constant, ast.JoinedStr, ast.Dict, ast.List, ast.Set, ast.Tuple, ast.ListComp, ast.DictComp,
                          ast.SetComp, ast.GeneratorExp, ast.BinOp, ast.UnaryOp, ast.Compare, ast.Lambda)):
            return FRESH
        if isinstance(e, ast.BoolOp):
            cs = {self.expr_class(v, shadow) for v in e.values}
            return cs.pop() if len(cs) == 1 else ALIAS
        if isinstance(e, ast.IfExp):
            cs = {self.expr_class(e.body, shadow), self.expr_class(e.orelse, shadow)}
            return cs.pop() if len(cs) == 1 else ALIAS
        if isinstance(e, ast.NamedExpr):
            return self.expr_class(e.value, shadow)
        if isinstance(e, ast.Name):
            return self.name_class(e.id, shadow)
        if isinstance(e, ast.Call):
            fn = e.func
            if isinstance(fn, ast.Name):
                if self.is_cast(e):
                    return self.expr_class(e.args[1], shadow)
                if self.scope_of(fn.id) is None:
                    if fn.id in self.prog.classes:
                        return FRESH
                    if fn.id in FRESH_BUILTINS and fn.id not in self.prog.globals[self.module]:
                        return FRESH
                    if fn.id in self.prog.by_name and fn.id not in self.prog.classes and self.prog.returns_fresh(fn.id):
                        return FRESH
                return ALIAS
            if isinstance(fn, ast.Attribute):
                if fn.attr in ("copy", "deepcopy", "loads"):
                    return FRESH
                if fn.attr in self.prog.by_name and self.prog.returns_fresh(fn.attr):
                    return FRESH
                if fn.attr == "ref" and isinstance(fn.value, ast.Name) and fn.value.id == "weakref":
                    return FRESH
                if isinstance(fn.value, ast.Name) and fn.value.id in self.prog.classes and fn.attr not in self.prog.by_name:
                    return ALIAS
            return ALIAS
        if isinstance(e, ast.Attribute):
            if self.is_self(e.value):
                return self.prog.attr_class(self._self_func().cls.name, e.attr)
            if self.is_cls(e.value):
                return CLASSLEVEL
            if e.attr in self.prog.level_names and self.prog.attr_never_instance_stored(e.attr):
                return CLASSLEVEL
            return ALIAS
        return ALIAS            # subscripts, starred, await, ...: an element of something

    def object_class(self, e, shadow=frozenset()):
        e = self._strip(e)
        if isinstance(e, ast.Name) and e.id not in shadow and self.is_self(e):
            sf = self._self_func()
            return FRESH if (sf.is_init and sf is self) else (SCHEMANODE if self.prog.is_schema_class(sf.cls.name) else OWN)
        return self.expr_class(e, shadow)

    def returns_fresh(self):
        if self.is_generator:
            return False
        rets = [n for n in self._own_nodes() if isinstance(n, ast.Return)]
        if not rets or any(r.value is None for r in rets):
            return False
        return all(self._constructed(r.value) or isinstance(r.value, (ast.Constant, ast.JoinedStr, ast.BinOp, ast.Compare, ast.Tuple))
                   and self.expr_class(r.value) == FRESH for r in rets)

    # ---- walking the body without entering nested function definitions; comprehension and lambda variables are tracked
    def _own_nodes(self):
        out = []

        def go(n):
            for ch in ast.iter_child_nodes(n):
                if isinstance(ch, (ast.FunctionDef, ast.AsyncFunctionDef)):
                    for d in ch.decorator_list + ch.args.defaults + [x for x in ch.args.kw_defaults if x is not None]:
                        out.append(d)
                        go(d)
                    continue
                out.append(ch)
                go(ch)
        go(self.node)
        return out

    def _shadowed(self):
        """node id -> names bound by enclosing comprehensions / lambdas at that node"""
        sh = {}

        def go(n, cur):
            sh[id(n)] = cur
            if isinstance(n, (ast.FunctionDef, ast.AsyncFunctionDef)) and n is not self.node:
                for d in n.decorator_list + n.args.defaults + [x for x in n.args.kw_defaults if x is not None]:
                    go(d, cur)
                return
            if isinstance(n, (ast.ListComp, ast.SetComp, ast.DictComp, ast.GeneratorExp)):
                names = set()
                for g in n.generators:
                    for t in ast.walk(g.target):
                        if isinstance(t, ast.Name):
                            names.add(t.id)
                inner = cur | names
                for i, g in enumerate(n.generators):
                    go(g.iter, cur if i == 0 else inner)
                    go(g.target, inner)
                    for c in g.ifs:
                        go(c, inner)
                for part in ([n.key, n.value] if isinstance(n, ast.DictComp) else [n.elt]):
                    go(part, inner)
                return
            if isinstance(n, ast.Lambda):
                a = n.args
                names = {x.arg for x in a.posonlyargs + a.args + a.kwonlyargs} | ({a.vararg.arg} if a.vararg else set()) | ({a.kwarg.arg} if a.kwarg else set())
                for d in a.defaults + [x for x in a.kw_defaults if x is not None]:
                    go(d, cur)
                go(n.body, cur | names)
                return
            for ch in ast.iter_child_nodes(n):
                go(ch, cur)
        go(self.node, frozenset())
        return sh

    def raw_sites(self):
        """(kind, mutated-object expression, extra) for every mutation site of this function (nested defs excluded)
        kind: attr (extra = attribute name) | sub | call (extra = (method, args)) | aug"""
        if "raw" in self._cache:
            return self._cache["raw"]
        out = []
        for n in self._own_nodes():
            if isinstance(n, ast.Name) and n.id in FORBIDDEN_NAMES and self.scope_of(n.id) is None:
                raise Unrecognised(f"{self.fname}: {n.id}")
            if isinstance(n, ast.Attribute):
                if n.attr in FORBIDDEN_ATTRS:
                    raise Unrecognised(f"{self.fname}: .{n.attr}")
            stores = []
            if isinstance(n, ast.Assign):
                for t in n.targets:
                    stores += list(_targets(t))
            elif isinstance(n, ast.AnnAssign):
                if n.value is not None:
                    stores.append(n.target)
            elif isinstance(n, ast.AugAssign):
                if isinstance(n.target, ast.Name):
                    # no builtin container implements / // % ** << >> @ in place, and  + - | & ^  with a number raise on them
                    numeric = isinstance(n.value, ast.Constant) and type(n.value.value) in (int, float, complex)
                    inert = isinstance(n.op, (ast.Div, ast.FloorDiv, ast.Mod, ast.Pow, ast.LShift, ast.RShift, ast.MatMult)) or (
                        numeric and isinstance(n.op, (ast.Add, ast.Sub, ast.BitOr, ast.BitAnd, ast.BitXor)))
                    if not inert and not self.is_scalar(n.target.id):
                        out.append(("aug", n.target, None, n, n.target))
                else:
                    stores.append(n.target)
                    numeric = isinstance(n.value, ast.Constant) and type(n.value.value) in (int, float, complex)
                    inert = isinstance(n.op, (ast.Div, ast.FloorDiv, ast.Mod, ast.Pow, ast.LShift, ast.RShift, ast.MatMult)) or (
                        numeric and isinstance(n.op, (ast.Add, ast.Sub, ast.BitOr, ast.BitAnd, ast.BitXor)))
                    if not inert:
                        out.append(("aug", n.target, None, n, n.target))     # list += / dict |= work in place on the object held there
            elif isinstance(n, ast.Delete):
                stores += [t for x in n.targets for t in _targets(x)]
            elif isinstance(n, (ast.For, ast.AsyncFor)):
                stores += list(_targets(n.target))
            elif isinstance(n, (ast.With, ast.AsyncWith)):
                for it in n.items:
                    if it.optional_vars is not None:
                        stores += list(_targets(it.optional_vars))
            elif isinstance(n, ast.comprehension):
                stores += list(_targets(n.target))
            elif isinstance(n, ast.NamedExpr):
                stores.append(n.target)
            elif isinstance(n, ast.Call):
                fn = n.func
                if isinstance(fn, ast.Attribute) and fn.attr == "__init__" and not (
                        isinstance(fn.value, ast.Call) and isinstance(fn.value.func, ast.Name) and fn.value.func.id == "super"):
                    raise Unrecognised(f"{self.fname}: __init__ called on an existing object")
                if isinstance(fn, ast.Attribute) and fn.attr in MUT:
                    if isinstance(fn.value, ast.Name) and fn.value.id in ("dict", "list", "set", "bytearray") and self.scope_of(fn.value.id) is None:
                        if not n.args:
                            raise Unrecognised(f"{self.fname}: unbound mutating call without an argument")
                        out.append(("call", n.args[0], (fn.attr, n.args[1:]), n, n))
                    else:
                        out.append(("call", fn.value, (fn.attr, n.args), n, n))
            for t in stores:
                if isinstance(t, ast.Attribute):
                    out.append(("attr", t.value, t.attr, n, t))
                elif isinstance(t, ast.Subscript):
                    out.append(("sub", t.value, None, n, t))
                elif not isinstance(t, ast.Name):
                    raise Unrecognised(f"{self.fname}: assignment target {type(t).__name__}")
        # a mutating method used as a value (x.append passed around) cannot be followed
        called = {id(n.func) for n in self._own_nodes() if isinstance(n, ast.Call)}
        for n in self._own_nodes():
            if isinstance(n, ast.Attribute) and n.attr in MUT and id(n) not in called and isinstance(n.ctx, ast.Load):
                raise Unrecognised(f"{self.fname}: mutating method .{n.attr} used as a value")
        self._cache["raw"] = out
        return out

    def is_scalar(self, name):
        """the name only ever holds numbers / strings: x += e rebinds it"""
        f = self.scope_of(name)
        if f is not self:
            return False
        key = ("scalar", name)
        if key in self._cache:
            return self._cache[key] is not False
        self._cache[key] = None
        ok = True
        for b in self.bindings[name]:
            if b[0] == "param":
                ann = self.param_ann.get(name)
                ok = ok and isinstance(ann, ast.Name) and ann.id in SCALAR_ANN
            elif b[0] == "aug":
                continue        # x += e mutates in place only the object x already holds (int += list raises TypeError)
            elif b[0] == "expr":
                # a number / string, or an object made here (the result of an operator, a literal): x += e then touches
                # nothing that existed before
                ok = ok and (self._scalar_expr(b[1]) or (not isinstance(b[1], ast.Name) and self.expr_class(b[1]) == FRESH))
            else:
                ok = False
        self._cache[key] = ok
        return ok

    def _scalar_expr(self, e):
        if isinstance(e, ast.Constant):
            return True
        if isinstance(e, ast.JoinedStr):
            return True
        if isinstance(e, (ast.BinOp,)):
            return self._scalar_expr(e.left) and self._scalar_expr(e.right)
        if isinstance(e, ast.UnaryOp):
            return self._scalar_expr(e.operand)
        if isinstance(e, ast.Compare):
            return True
        if isinstance(e, ast.Name):
            return self.scope_of(e.id) is self and self.is_scalar(e.id)
        if isinstance(e, ast.Call) and isinstance(e.func, ast.Name) and e.func.id in SCALAR_CALLS and self.scope_of(e.func.id) is None:
            return True
        if isinstance(e, ast.Attribute) and e.attr in ("size", "start", "end", "item_size", "item_count"):
            return True
        if isinstance(e, ast.IfExp):
            return self._scalar_expr(e.body) and self._scalar_expr(e.orelse)
        return False

    def collect_attr_stores(self):
        """every  X.a = value  of this function: through self -> self_stores of the class, otherwise foreign_stores"""
        for kind, target, extra, node, store in self.raw_sites():
            if kind != "attr" or isinstance(node, ast.Delete):
                continue
            value = None        # unknown right-hand side (unpacking, augmented assignment, loop target)
            if isinstance(node, ast.Assign) and any(t is store for t in node.targets):
                value = node.value
            elif isinstance(node, ast.AnnAssign) and node.target is store:
                value = node.value
            sf = self._self_func()
            if self.is_self(target) and sf is not None:
                self.prog.self_stores.setdefault((sf.cls.name, extra), []).append((value, self))
            else:
                self.prog.foreign_stores.setdefault(extra, []).append((value, self))

    # ---- descriptor of the mutated slot / object, free of local names
    def describe(self, e, shadow, fuel=16):
        if fuel <= 0:
            return "<expr>"
        if isinstance(e, ast.Name):
            if self.is_self(e):
                return "self"
            f = self.scope_of(e.id)
            if f is None:
                if e.id in self.prog.classes:
                    return e.id
                if e.id in self.prog.globals[self.module]:
                    return f"{self.module}.{e.id}"
                return e.id
            if e.id in f.params and e.id not in shadow:
                return f"<{e.id}>"
            # a local: describe what it is bound to when that is unique
            bs = f.bindings.get(e.id, [])
            if len(bs) == 1 and bs[0][0] == "expr" and e.id not in shadow:
                return self.describe(bs[0][1], shadow, fuel - 1)
            if len(bs) == 1 and bs[0][0] == "elem" and e.id not in shadow:
                return self.describe(bs[0][1], shadow, fuel - 1) + "[*]"
            return "<local>"
        if isinstance(e, ast.Attribute):
            return self.describe(e.value, shadow, fuel - 1) + "." + e.attr
        if isinstance(e, ast.Subscript):
            k = e.slice
            ks = repr(k.value) if isinstance(k, ast.Constant) and isinstance(k.value, (str, int)) else "*"
            return self.describe(e.value, shadow, fuel - 1) + "[" + ks + "]"
        if isinstance(e, ast.Call):
            if self.is_cast(e):
                return self.describe(e.args[1], shadow, fuel - 1)
            if isinstance(e.func, ast.Name):
                return e.func.id + "()"
            if isinstance(e.func, ast.Attribute):
                return self.describe(e.func.value, shadow, fuel - 1) + "." + e.func.attr + "()"
            return "<call>"
        return "<expr>"

    def is_cast(self, e):
        """typing.cast(T, x): the identity on x"""
        return (isinstance(e, ast.Call) and isinstance(e.func, ast.Name) and e.func.id == "cast" and len(e.args) == 2 and not e.keywords
                and self.scope_of("cast") is None and self.module in self.prog.typing_cast
                and "cast" not in self.prog.globals[self.module])

    def _strip(self, e):
        while self.is_cast(e):
            e = e.args[1]
        return e

    def _depth(self, e):
        d = 0
        while True:
            e = self._strip(e)
            if isinstance(e, (ast.Attribute, ast.Subscript)):
                d += 1
                e = e.value
            elif isinstance(e, ast.Call) and isinstance(e.func, ast.Attribute):
                d += 1
                e = e.func.value
            else:
                return d

    def sites(self):
        """[(class, depth, descriptor)] including FRESH ones"""
        shadow_at = self._shadowed()
        out = []
        for kind, target, extra, node, store in self.raw_sites():
            shadow = shadow_at.get(id(node), frozenset())
            target = self._strip(target)
            if isinstance(target, ast.Attribute) and target.attr == "__dict__":
                # X.__dict__[k] = v, X.__dict__.setdefault(k, v): the attribute table of X - an attribute store on X
                kind, extra, target = "attr", "__dict__", self._strip(target.value)
            suffix = {"attr": f".{extra}=", "sub": "[]", "call": "[]", "aug": "[]"}[kind]
            depth = self._depth(target)
            cls = None
            if not isinstance(target, ast.Name) and self.is_cls(target):
                cls, depth = CLASSLEVEL, 0          # type(x).a = v, x.__class__.a = v
            elif isinstance(target, ast.Name) and target.id not in shadow and (self.is_self(target) or self.is_cls(target)):
                if self.is_self(target):
                    sf = self._self_func()
                    cls = FRESH if (sf.is_init and sf is self) else (SCHEMANODE if self.prog.is_schema_class(sf.cls.name) else OWN)
                else:
                    cls = CLASSLEVEL
            elif isinstance(target, ast.Name):
                cls = self.name_class(target.id, shadow)
                if cls == ALIAS and kind == "attr" and extra == "ref_to" and target.id not in shadow and self._is_fixup_var(target.id):
                    cls = REFSLOT
                elif cls == ALIAS:
                    f = self.scope_of(target.id)
                    bs = f.bindings.get(target.id, []) if f is not None else []
                    if bs and all(b[0] == "elem" for b in bs):
                        depth = 1          # an element of a container
            elif isinstance(target, ast.Attribute) and self.is_self(target.value) and target.value.id not in shadow:
                cls = self.prog.attr_class(self._self_func().cls.name, target.attr)
                if cls in (OWN, CLASSLEVEL):
                    depth = 0              # the object held in the library's own slot
            elif isinstance(target, ast.Attribute) and self.is_cls(target.value) and not (isinstance(target.value, ast.Name) and target.value.id in shadow):
                cls, depth = CLASSLEVEL, 0
            elif isinstance(target, ast.Attribute) and target.attr in self.prog.level_names and self.prog.attr_never_instance_stored(target.attr):
                cls, depth = CLASSLEVEL, 0
                out.append((cls, depth, target.attr + suffix))
                continue
            else:
                cls = self.expr_class(target, shadow)
                if cls != FRESH:
                    cls = ALIAS
            if cls == REFSLOT:
                depth = 0
            out.append((cls, depth, self.describe(target, shadow) + suffix))
        return out

    def _is_fixup_var(self, name):
        """name is bound only as the loop variable over self.fixup_list, an OWN list that receives only freshly constructed Schema nodes"""
        bs = self.bindings.get(name, [])
        sf = self._self_func()
        if sf is None or len(bs) != 1 or bs[0][0] != "elem":
            return False
        it = bs[0][1]
        if not (isinstance(it, ast.Attribute) and self.is_self(it.value) and it.attr == "fixup_list"):
            return False
        if self.prog.attr_class(sf.cls.name, "fixup_list") != OWN:
            return False
        fam = self.prog.family(sf.cls.name)
        for f in self.prog.funcs:
            for kind, target, extra, node, store in f.raw_sites():
                t = f._strip(target)
                if isinstance(t, ast.Attribute) and t.attr == "fixup_list":
                    if not (f.cls is not None and f.cls.name in fam and f.is_self(t.value) and kind == "call" and extra[0] == "append"
                            and len(extra[1]) == 1 and f._fresh_schema_node(extra[1][0])):
                        return False
        return True

    def _fresh_schema_node(self, e):
        """e is a Schema node constructed in this activation"""
        if isinstance(e, ast.Call) and isinstance(e.func, ast.Name):
            return e.func.id in self.prog.classes and self.prog.is_schema_class(e.func.id) and self.scope_of(e.func.id) is None
        if isinstance(e, ast.Name) and self.scope_of(e.id) is self and e.id not in self.params:
            bs = self.bindings[e.id]
            return bool(bs) and all(b[0] == "expr" and self._fresh_schema_node(b[1]) for b in bs)
        return False

    def is_producer(self):
        if self.module != "cobol_parser":
            return False
        top = self.qual.split(".")
        if self.cls is not None and self.cls.name in PRODUCER_CLASSES:
            return True
        for i in range(1, len(top) + 1):
            if ".".join(top[:i]) in PRODUCER_FUNCS:
                return True
        return False


# ------------------------------------------------------------------ the generated file


def coq_string(s):
    s = "".join(c if 32 <= ord(c) < 127 else "?" for c in s)
    return '"' + s.replace('"', "'") + '"'


def summarise(src):
    prog = Program(src)
    table = {}
    for f in prog.funcs:
        sites = f.sites()
        keep = set()
        for cls, depth, desc in sites:
            if cls == FRESH:
                continue
            if f.is_producer() and cls != CLASSLEVEL:
                continue
            keep.add((cls, depth, desc))
        if keep or f.fname in ENTRY_POINTS:
            table.setdefault(f.fname, set()).update(keep)
    for ep in ENTRY_POINTS:
        if ep not in table:
            raise Unrecognised(f"entry point {ep} not found")
    return prog, table


def gen_EffectParams(src):
    prog, table = summarise(src)
    order = {c: i for i, c in enumerate(LISTED)}
    lines = [
        "(* GENERATED by harness/t1_c11heap.py from src/stingray/schema_instance.py, workbook.py, implementations.py and",
        "   cobol_parser.py -- do not edit.  The effect summary of the library: per function, its mutation sites other than writes to",
        "   objects allocated in the same activation, each with the class of the ROOT of the mutated object, the number of",
        "   dereferences between root and mutated object, and a descriptor of the slot.  See the header of the generator. *)",
        "From Coq Require Import String List.",
        "Import ListNotations.",
        "Require Import SR.Model.HeapRule.",
        "Open Scope string_scope.",
        "Definition effects : table := [",
    ]
    rows = []
    for fname in sorted(table):
        ss = sorted(table[fname], key=lambda s: (order[s[0]], s[2], s[1]))
        body = "; ".join(f"Site {c} {d} {coq_string(n)}" for c, d, n in ss)
        rows.append(f"  ({coq_string(fname)}, [{body}])")
    lines.append(";\n".join(rows))
    lines.append("].")
    lines.append("(* distinct listed sites per module: OWN, CLASSLEVEL, REFSLOT, SCHEMANODE, ALIAS *)")
    lines.append("Definition module_totals : list (string * totals) := [")
    rows = []
    for m in MODULES:
        cnt = {c: 0 for c in LISTED}
        for fname, ss in table.items():
            if fname.split(".")[0] == m:
                for c, d, n in ss:
                    cnt[c] += 1
        rows.append(f"  ({coq_string(m)}, Totals {cnt[OWN]} {cnt[CLASSLEVEL]} {cnt[REFSLOT]} {cnt[SCHEMANODE]} {cnt[ALIAS]})")
    lines.append(";\n".join(rows))
    lines.append("].")
    lines.append("")
    return "\n".join(lines)


GENERATORS = {"EffectParams": gen_EffectParams}


if __name__ == "__main__":
    import sys
    root = sys.argv[1] if len(sys.argv) > 1 else "/repo/src"
    if "--all" in sys.argv:
        prog, _ = summarise(root)
        for f in prog.funcs:
            for s in f.sites():
                print(f.fname, s, "(producer)" if f.is_producer() else "")
    else:
        sys.stdout.write(gen_EffectParams(root))
