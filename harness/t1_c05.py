"""T1 plug-in for C05: constants of the RECFM readers in src/stingray/estruct.py.

Gen/RecfmParams.v:
  buffer_size  - the read size of RECFM_N (the literal in __init__'s source.read(K); the refill must use the same K)
  refill_mode  - class of the refill expression in RECFM_N.record_iter
                   0: remaining = self.buffer[self._used:]; self.buffer = remaining + self.source.read(K - len(remaining))
                   1: self.buffer = self.buffer[self._used:] + self.source.read(K - self._used)
  hdr_fmt      - struct format of every RDW/BDW pack/unpack in RECFM_F/V/VB: 0 for '>H2x', 1 for '<H2x'
  vb_rdw_fits_strict - the comparison of the corruption check in the inner loop of RECFM_VB._data_iter,
                   while <offset> != len(<block>): assert <offset> + 4 <op> len(<block>), ...
                   true for '<' (the tree before eee0fb2: a record descriptor word that ends exactly at the end of the block
                   is refused), false for '<=' (the mirrored spellings len(block) > / >= offset + 4 are read the same way)
Any other shape raises Unrecognised (the pinned text is used and the run relies on the correspondence check).
"""
import ast
from translate import Unrecognised, _parse, _func


def _is_self_attr(n, attr):
    return (isinstance(n, ast.Attribute) and n.attr == attr and isinstance(n.value, ast.Name) and n.value.id == "self")


def _read_arg(call):
    """self.source.read(<arg>) -> arg"""
    if not (isinstance(call, ast.Call) and isinstance(call.func, ast.Attribute) and call.func.attr == "read"
            and _is_self_attr(call.func.value, "source") and len(call.args) == 1 and not call.keywords):
        raise Unrecognised("expected self.source.read(<one argument>)")
    return call.args[0]


def _int(n):
    if isinstance(n, ast.Constant) and type(n.value) is int and n.value > 0:
        return n.value
    raise Unrecognised("buffer size is not a positive integer literal")


def _is_used_slice(n, base_ok):
    """<base>[self._used:]"""
    return (isinstance(n, ast.Subscript) and base_ok(n.value) and isinstance(n.slice, ast.Slice)
            and n.slice.lower is not None and _is_self_attr(n.slice.lower, "_used")
            and n.slice.upper is None and n.slice.step is None)


def _is_len_of(n, name):
    return (isinstance(n, ast.Call) and isinstance(n.func, ast.Name) and n.func.id == "len" and len(n.args) == 1
            and isinstance(n.args[0], ast.Name) and n.args[0].id == name)


def _vb_assert_strict(tree):
    """RECFM_VB._data_iter: exactly one assert, inside a while <off> != len(<blk>) loop, of the shape
    <off> + 4 < len(<blk>)  /  <off> + 4 <= len(<blk>)  (or mirrored); anything else is not recognised"""
    fn = _func(tree, "_data_iter", "RECFM_VB")
    asserts = [n for n in ast.walk(fn) if isinstance(n, ast.Assert)]
    if len(asserts) != 1:
        raise Unrecognised(f"RECFM_VB._data_iter: expected one assert, found {len(asserts)}")
    loops = [n for n in ast.walk(fn) if isinstance(n, ast.While) and asserts[0] in n.body]
    if len(loops) != 1:
        raise Unrecognised("RECFM_VB._data_iter: the assert is not a statement of a while loop")
    lt = loops[0].test
    if not (isinstance(lt, ast.Compare) and len(lt.ops) == 1 and isinstance(lt.ops[0], ast.NotEq)
            and isinstance(lt.left, ast.Name) and isinstance(lt.comparators[0], ast.Call)
            and isinstance(lt.comparators[0].func, ast.Name) and lt.comparators[0].func.id == "len"
            and len(lt.comparators[0].args) == 1 and isinstance(lt.comparators[0].args[0], ast.Name)
            and not lt.comparators[0].keywords):
        raise Unrecognised("RECFM_VB._data_iter: inner loop test is not <offset> != len(<block>)")
    off, blk = lt.left.id, lt.comparators[0].args[0].id
    if loops[0].body[0] is not asserts[0]:
        raise Unrecognised("RECFM_VB._data_iter: the assert is not the first statement of the inner loop")
    t = asserts[0].test
    if not (isinstance(t, ast.Compare) and len(t.ops) == 1 and len(t.comparators) == 1):
        raise Unrecognised("RECFM_VB._data_iter: assert test is not a single comparison")

    def is_off4(n):
        if not (isinstance(n, ast.BinOp) and isinstance(n.op, ast.Add)):
            return False
        a, b = n.left, n.right
        four = lambda c: isinstance(c, ast.Constant) and type(c.value) is int and c.value == 4
        name = lambda c: isinstance(c, ast.Name) and c.id == off
        return (name(a) and four(b)) or (four(a) and name(b))

    left, op, right = t.left, t.ops[0], t.comparators[0]
    if is_off4(left) and _is_len_of(right, blk):
        if isinstance(op, ast.Lt):
            return True
        if isinstance(op, ast.LtE):
            return False
    if _is_len_of(left, blk) and is_off4(right):
        if isinstance(op, ast.Gt):
            return True
        if isinstance(op, ast.GtE):
            return False
    raise Unrecognised("RECFM_VB._data_iter: assert is not <offset> + 4 < / <= len(<block>)")


def gen_RecfmParams(src):
    tree = _parse(src, "stingray/estruct.py")
    # --- RECFM_N.__init__: exactly one assignment self.buffer = self.source.read(K)
    init = _func(tree, "__init__", "RECFM_N")
    assigns = [n for n in ast.walk(init) if isinstance(n, ast.Assign) and len(n.targets) == 1 and _is_self_attr(n.targets[0], "buffer")]
    if len(assigns) != 1:
        raise Unrecognised("RECFM_N.__init__: expected one assignment to self.buffer")
    k_init = _int(_read_arg(assigns[0].value))
    # --- RECFM_N.record_iter: while len(self.buffer) != 0: self._used = 0; yield self.buffer; if self._used == 0: raise; <refill>
    it = _func(tree, "record_iter", "RECFM_N")
    body = [s for s in it.body if not (isinstance(s, ast.Expr) and isinstance(s.value, ast.Constant))]
    if len(body) != 1 or not isinstance(body[0], ast.While) or body[0].orelse:
        raise Unrecognised("RECFM_N.record_iter: expected a single while loop")
    loop = body[0]
    t = loop.test
    if not (isinstance(t, ast.Compare) and len(t.ops) == 1 and isinstance(t.ops[0], ast.NotEq)
            and isinstance(t.left, ast.Call) and isinstance(t.left.func, ast.Name) and t.left.func.id == "len"
            and len(t.left.args) == 1 and _is_self_attr(t.left.args[0], "buffer")
            and isinstance(t.comparators[0], ast.Constant) and t.comparators[0].value == 0):
        raise Unrecognised("RECFM_N.record_iter: loop test is not len(self.buffer) != 0")
    st = loop.body
    if len(st) < 4:
        raise Unrecognised("RECFM_N.record_iter: loop body too short")
    s0, s1, s2 = st[0], st[1], st[2]
    if not (isinstance(s0, ast.Assign) and len(s0.targets) == 1 and _is_self_attr(s0.targets[0], "_used")
            and isinstance(s0.value, ast.Constant) and s0.value.value == 0):
        raise Unrecognised("RECFM_N.record_iter: first statement is not self._used = 0")
    if not (isinstance(s1, ast.Expr) and isinstance(s1.value, ast.Yield) and _is_self_attr(s1.value.value, "buffer")):
        raise Unrecognised("RECFM_N.record_iter: second statement is not yield self.buffer")
    if not (isinstance(s2, ast.If) and not s2.orelse and len(s2.body) == 1 and isinstance(s2.body[0], ast.Raise)
            and isinstance(s2.test, ast.Compare) and len(s2.test.ops) == 1 and isinstance(s2.test.ops[0], ast.Eq)
            and _is_self_attr(s2.test.left, "_used") and isinstance(s2.test.comparators[0], ast.Constant)
            and s2.test.comparators[0].value == 0):
        raise Unrecognised("RECFM_N.record_iter: third statement is not if self._used == 0: raise")
    exc = s2.body[0].exc
    exc_name = exc.func.id if isinstance(exc, ast.Call) and isinstance(exc.func, ast.Name) else None
    if exc_name != "RuntimeError":
        raise Unrecognised("RECFM_N.record_iter: raise is not RuntimeError(...)")
    refill = st[3:]
    self_buffer = lambda n: _is_self_attr(n, "buffer")
    mode = None
    if len(refill) == 2:
        a, b = refill
        if (isinstance(a, ast.Assign) and len(a.targets) == 1 and isinstance(a.targets[0], ast.Name)
                and _is_used_slice(a.value, self_buffer)
                and isinstance(b, ast.Assign) and len(b.targets) == 1 and _is_self_attr(b.targets[0], "buffer")
                and isinstance(b.value, ast.BinOp) and isinstance(b.value.op, ast.Add)
                and isinstance(b.value.left, ast.Name) and b.value.left.id == a.targets[0].id):
            arg = _read_arg(b.value.right)
            if (isinstance(arg, ast.BinOp) and isinstance(arg.op, ast.Sub) and _is_len_of(arg.right, a.targets[0].id)):
                k_refill = _int(arg.left)
                mode = 0
    elif len(refill) == 1:
        b = refill[0]
        if (isinstance(b, ast.Assign) and len(b.targets) == 1 and _is_self_attr(b.targets[0], "buffer")
                and isinstance(b.value, ast.BinOp) and isinstance(b.value.op, ast.Add)
                and _is_used_slice(b.value.left, self_buffer)):
            arg = _read_arg(b.value.right)
            if isinstance(arg, ast.BinOp) and isinstance(arg.op, ast.Sub) and _is_self_attr(arg.right, "_used"):
                k_refill = _int(arg.left)
                mode = 1
    if mode is None:
        raise Unrecognised("RECFM_N.record_iter: refill statements have an unknown shape")
    if k_refill != k_init:
        raise Unrecognised(f"RECFM_N: initial read {k_init} and refill capacity {k_refill} differ")
    # --- header formats used by RECFM_F / RECFM_V / RECFM_VB
    fmts = set()
    count = 0
    for cls in ("RECFM_F", "RECFM_V", "RECFM_VB"):
        node = [n for n in tree.body if isinstance(n, ast.ClassDef) and n.name == cls]
        if len(node) != 1:
            raise Unrecognised(f"class {cls} not found")
        for n in ast.walk(node[0]):
            if (isinstance(n, ast.Call) and isinstance(n.func, ast.Attribute) and isinstance(n.func.value, ast.Name)
                    and n.func.value.id == "struct"):
                if n.func.attr not in ("pack", "unpack") or not n.args or not isinstance(n.args[0], ast.Constant):
                    raise Unrecognised(f"{cls}: struct call of unknown shape")
                fmts.add(n.args[0].value)
                count += 1
    if count == 0:
        raise Unrecognised("no struct.pack/unpack call in the RECFM readers")
    if fmts == {">H2x"}:
        hdr = 0
    elif fmts == {"<H2x"}:
        hdr = 1
    else:
        raise Unrecognised(f"header formats {sorted(map(str, fmts))}")
    strict = _vb_assert_strict(tree)
    return (
        "(* GENERATED by harness/t1_c05.py from src/stingray/estruct.py RECFM_N / RECFM_F / RECFM_V / RECFM_VB -- do not edit *)\n"
        "From Coq Require Import NArith.\n"
        f"Definition buffer_size : N := {k_init}%N.\n"
        f"Definition refill_mode : N := {mode}%N.\n"
        f"Definition hdr_fmt : N := {hdr}%N.\n"
        f"Definition vb_rdw_fits_strict : bool := {'true' if strict else 'false'}.\n"
    )


GENERATORS = {"RecfmParams": gen_RecfmParams}
