"""C12b - the clause recogniser (cobol_parser.CLAUSES / clause_pattern / clause_dict): an additional engine for C12
(respelling a copybook changes nothing) that also serves C07 (every entry recognised).

Entries are drawn as abstract clause lists, a spelling is drawn for every choice the property calls
meaning-preserving (clause order, optional words, synonyms, separators, letter case of every reserved word) and the
entry is printed; the judge re-prints it with the specification's printer (coq/Spec/Clauses.v print_items) and rejects
the case when the two texts differ, so nothing here is trusted as an oracle.  The implementation's
clause_dict(text) and the naming lines of DDE.__init__ are observed and serialised; all comparisons happen in the judge.
"""
from lib import S, observe_call

GEN = ["ClausesParams", "PictureParams"]
RULE = ("printed entries: random clause subsets (data name | FILLER | none first; REDEFINES, OCCURS n, OCCURS [m TO] n DEPENDING ON, "
        "PICTURE, USAGE, VALUE, BLANK WHEN ZERO, JUSTIFIED, SYNCHRONIZED, SIGN, EXTERNAL, GLOBAL in random order) x random spelling "
        "(every optional word, every synonym, separators blank/tab/newline runs or comma/semicolon + blanks, per-letter case masks); "
        "one stream inside the theorem's domain (no exemption) and one stream per finding family (keyword-prefixed names, separator glued to "
        "a picture or VALUE word, KEY / INDEXED BY phrases, ZEROS/ZEROES, JUSTIFIED last, SIGN without SEPARATE, lower-case filler); "
        "token soups over the keyword vocabulary, names, numbers, pictures, literals, separators and junk, character soups over small "
        "alphabets, printed entries with one character edited, and a fixed witness list, judged on model = implementation only. "
        "Non-trivial = every printed entry, and every soup whose model dictionary is non-empty or whose model raises; distinct = distinct case lines.")
TRIVIAL_BRANCHES = [100]
ASSUMPTIONS = [
    "Python re semantics of clause_pattern (ordered alternation, greedy quantifiers with backtracking, finditer skipping unmatched characters), "
    "modelled by hand in coq/Model/Clauses.v alternative by alternative and tied by this run (groups of the merged dictionary, picture elements, DDE names)",
    "re.IGNORECASE equates with an ASCII letter exactly the characters listed in Gen/ClausesParams.fold_extra; the white space, word character and "
    "decimal digit tables are those of the interpreter that runs the implementation (regenerated on every run)",
    "the shape of CLAUSES is recognised by harness/t1_c12b.py (fifteen alternative templates); an unrecognised shape falls back to the pinned parameters",
    "the theorems speak about the text handed to clause_dict (the sentence between level number and period); how reference_format and dde_sentences "
    "produce that text is C12's first layer (coq/Model/RefFormat.v)",
    "VALUE literals do not contain a line feed; pictures are accepted by cobol_parser.normalize_picture (C13's subject) in the printed streams",
]
TRUSTED = ["re / unicodedata of the interpreter under /venv (same interpreter runs the implementation)"]

# ------------------------------------------------------------------ vocabulary (generator side only)
USAGE_TABLE = [["DISPLAY"], ["COMP", "COMPUTATIONAL", "BINARY", "COMP-4", "COMPUTATIONAL-4"],
               ["COMP-3", "COMPUTATIONAL-3", "PACKED-DECIMAL"], ["COMP-1", "COMPUTATIONAL-1"], ["COMP-2", "COMPUTATIONAL-2"]]
RESERVED = ("REDEFINES BLANK WHEN ZERO ZEROS ZEROES EXTERNAL GLOBAL JUSTIFIED JUST RIGHT LEFT OCCURS TO TIMES DEPENDING ON PIC PICTURE IS "
            "SIGN LEADING TRAILING SEPARATE CHARACTER SYNCHRONIZED SYNC USAGE VALUE FILLER ASCENDING DESCENDING KEY INDEXED BY BINARY "
            "COMPUTATIONAL COMP DISPLAY PACKED-DECIMAL COMP-1 COMP-2 COMP-3 COMP-4 COMPUTATIONAL-1 COMPUTATIONAL-2 COMPUTATIONAL-3 "
            "COMPUTATIONAL-4").split()
GLUED = ["EXTERNAL", "GLOBAL", "SYNC", "BINARY", "COMP", "DISPLAY", "PACKED-DECIMAL", "FILLER"]
STEMS = ["CUST", "ACCT", "ADDR", "NAME", "ZIP", "PHONE", "AMT", "BAL", "DATE", "YEAR", "MONTH", "DAY", "CODE", "TYPE", "FLAG", "ITEM", "QTY",
         "PRICE", "TOTAL", "REC", "TEXT", "LINE", "NUM", "STAT", "AREA", "WS", "TBL", "ENTRY", "ROW", "FLD", "A", "B1", "X9", "Q", "N-1",
         "KEY-FLD", "LAST", "1ST", "9", "ON-HAND", "IS-OK", "PICKLE", "SIGNAL", "VALUE-1", "OCCURS-X", "BLANKET", "JUSTICE", "TOTALS",
         "TIMESTAMP", "USAGE-CT", "REDEFINES-1", "INDEXED-1", "ZEROS-1", "LEADING-EDGE", "cust-no", "Mixed-Case", "x"]
KEYWORD_NAMES = ["COMPANY", "COMPUTATIONALLY", "BINARYX", "DISPLAYED", "SYNC-POINT", "SYNCHRONIZED-AT", "EXTERNAL-ID", "GLOBAL-X", "FILLERS",
                 "FILLER-X", "COMP3", "GLOBALS", "SYNCPT", "PACKED-DECIMAL-X", "company", "Display-Name", "COMP-3X", "BINARY-FLAG", "COMP-X"]
PICS = ["X", "X(10)", "XX", "9", "9(5)", "S9(5)V99", "S9(7)V99", "9(4)", "S9(9)", "A(5)", "Z(3)9", "ZZ9.99", "99V9", "S9(3)", "S999", "X(120)",
        "Z,ZZ9.99", "$$$,$$9.99-", "9(3).99", "x(3)", "s9(4)v99", "+9(3)", "99/99/99", "9(3)CR", "**9", "S9(0005)V9(0002)"]
VALUES = ["'A'", "'AB'", "ZERO", "SPACES", "12", "'X Y'", '"Q"', "'YES'", "-1.5", "+7", "'it''s'", "'PIC X(3)'", "';'", "''", "'BINARY'",
          "\"say 'hi'\"", "'a, b; c'", "HIGH-VALUES", "'COMP-3 VALUE'", "0"]
SEPS = [" ", " ", " ", "  ", "   ", "\n    ", " \n", "\t", ", ", "; ", ",  ", ";\n   ", ", \t", "\r\n  "]
BLANK_SEPS = [" ", " ", "  ", "\n    ", "\t", " \n  "]


def name_is_clean(n):
    u = n.upper()
    return u not in RESERVED and not any(u.startswith(g) for g in GLUED)


def fresh_name(rng):
    while True:
        m = rng.random()
        if m < 0.7:
            n = rng.choice(STEMS)
            if rng.random() < 0.4:
                n += "-" + rng.choice(STEMS)
            if rng.random() < 0.3:
                n += "-" + str(rng.randint(1, 99))
        else:
            k = rng.randint(1, 12)
            n = "".join(rng.choice("ABCDEFGHIJKLMNOPQRSTUVWXYZ0123456789-abcxyz") for _ in range(k))
        if name_is_clean(n):
            return n


def mask(rng, n=16):
    m = rng.randint(0, 5)
    if m < 3:
        return []
    if m == 3:
        return [1] * n
    return [rng.randint(0, 1) for _ in range(n)]


def cspell(rng):
    return [[rng.randint(0, 2) if i < 2 else rng.randint(0, 1) for i in range(5)],
            [mask(rng) for _ in range(10)],
            [S(rng.choice(SEPS)) for _ in range(15)]]


# clause encodings follow coq/Judge/JC12b.v d_clause
def draw_clauses(rng, counters=None):
    """an entry inside the domain of the theorem: (clauses, spelling)"""
    cs = []
    r = rng.random()
    if r < 0.75:
        cs.append([0, S(fresh_name(rng))])
    elif r < 0.9:
        cs.append([1])
    body = []
    if rng.random() < 0.25:
        body.append([2, S(fresh_name(rng))])
    r = rng.random()
    if r < 0.25:
        body.append([3, S(digits(rng)), []])
    elif r < 0.45:
        mn = [S(digits(rng))] if rng.random() < 0.5 else []
        body.append([4, mn, S(digits(rng)), S(fresh_name(rng)), []])
    if rng.random() < 0.7:
        body.append([5, S(rng.choice(PICS))])
    if rng.random() < 0.5:
        body.append([6, rng.randint(0, 4)])
    if rng.random() < 0.3:
        body.append([7, S(rng.choice(VALUES))])
    if rng.random() < 0.15:
        body.append([8])
    if rng.random() < 0.15:
        body.append([9, rng.randint(0, 1)])
    if rng.random() < 0.15:
        body.append([10, rng.randint(0, 2)])
    if rng.random() < 0.15:
        body.append([11, rng.randint(0, 1), 1])
    if rng.random() < 0.08:
        body.append([12])
    if rng.random() < 0.08:
        body.append([13])
    rng.shuffle(body)
    cs += body
    sps = []
    for i, c in enumerate(cs):
        sp = cspell(rng)
        last = i == len(cs) - 1
        if c[0] == 6:
            sp[0][1] = rng.randint(0, len(USAGE_TABLE[c[1]]) - 1)
        if c[0] == 8:
            sp[0][1] = 0
        if c[0] == 1:
            sp[1][0] = []
        if last:
            after = rng.choice(["", "", "", " ", "\n"])
            if c[0] == 9 and not c[1] and after == "":
                after = " "
        elif c[0] == 5 or (c[0] == 7 and chr(c[1][0]) not in "'\""):
            after = rng.choice(BLANK_SEPS)
        else:
            after = rng.choice(SEPS)
        sps.append([sp, S(after)])
    return cs, sps


def digits(rng):
    m = rng.random()
    if m < 0.7:
        return str(rng.randint(1, 99))
    if m < 0.85:
        return "0" * rng.randint(1, 2) + str(rng.randint(0, 9))
    return str(rng.randint(100, 99999))


# ------------------------------------------------------------------ the printer (mirrors coq/Spec/Clauses.v; the judge re-prints and compares)
def unS(codes):
    return "".join(chr(c) for c in codes)


def cased(m, w):
    return "".join(c.lower() if i < len(m) and m[i] else c for i, c in enumerate(w))


def print_clause(c, sp):
    ch, masks, seps = sp
    chN = lambda i: ch[i] if i < len(ch) else 0
    kw = lambda i, w: cased(masks[i] if i < len(masks) else [], w)
    sep = lambda i: unS(seps[i]) if i < len(seps) else " "
    pick = lambda i, ws: ws[i] if i < len(ws) else ws[0]

    def intro(w):
        if chN(0) == 0:
            return ""
        if chN(0) == 1:
            return kw(0, w) + sep(0)
        return kw(0, w) + sep(0) + kw(1, "IS") + sep(1)

    def ix(p):
        if not p:
            return ""
        key, idx = p
        out = ""
        if key:
            asc, k = key
            out += sep(7) + kw(5, "ASCENDING" if asc else "DESCENDING") + sep(8)
            out += (kw(6, "KEY") + sep(9) if chN(2) else "") + (kw(7, "IS") + sep(10) if chN(3) else "") + unS(k)
        out += sep(11) + kw(8, "INDEXED") + sep(12) + (kw(9, "BY") + sep(13) if chN(4) else "")
        return out + sep(14).join(unS(i) for i in idx)

    t = c[0]
    if t == 0:
        return unS(c[1])
    if t == 1:
        return kw(0, "FILLER")
    if t == 2:
        return kw(0, "REDEFINES") + sep(0) + unS(c[1])
    if t == 3:
        return kw(0, "OCCURS") + sep(0) + unS(c[1]) + (sep(1) + kw(1, "TIMES") if chN(0) else "") + ix(c[2])
    if t == 4:
        out = kw(0, "OCCURS") + sep(0)
        if c[1]:
            out += unS(c[1][0]) + sep(1) + kw(1, "TO") + sep(2)
        out += unS(c[2]) + (sep(3) + kw(2, "TIMES") if chN(0) else "")
        out += sep(4) + kw(3, "DEPENDING") + sep(5) + (kw(4, "ON") + sep(6) if chN(1) else "") + unS(c[3])
        return out + ix(c[4])
    if t == 5:
        return kw(0, pick(chN(0), ["PIC", "PICTURE"])) + sep(0) + (kw(1, "IS") + sep(1) if chN(1) else "") + unS(c[1])
    if t == 6:
        fam = USAGE_TABLE[c[1]] if c[1] < len(USAGE_TABLE) else ["DISPLAY"]
        return intro("USAGE") + kw(2, pick(chN(1), fam))
    if t == 7:
        return kw(0, "VALUE") + sep(0) + (kw(1, "IS") + sep(1) if chN(0) else "") + unS(c[1])
    if t == 8:
        return kw(0, "BLANK") + sep(0) + (kw(1, "WHEN") + sep(1) if chN(0) else "") + kw(2, pick(chN(1), ["ZERO", "ZEROS", "ZEROES"]))
    if t == 9:
        return kw(0, pick(chN(0), ["JUSTIFIED", "JUST"])) + (sep(0) + kw(1, "RIGHT") if c[1] else "")
    if t == 10:
        return kw(0, pick(chN(0), ["SYNCHRONIZED", "SYNC"])) + (sep(0) + kw(1, "LEFT" if c[1] == 1 else "RIGHT") if c[1] else "")
    if t == 11:
        out = intro("SIGN") + kw(2, "LEADING" if c[1] else "TRAILING")
        if c[2]:
            out += sep(2) + kw(3, "SEPARATE") + (sep(3) + kw(4, "CHARACTER") if chN(1) else "")
        return out
    return kw(0, "EXTERNAL" if t == 12 else "GLOBAL")


def print_items(cs, sps):
    return "".join(print_clause(c, sp) + unS(after) for c, (sp, after) in zip(cs, sps))


# ------------------------------------------------------------------ finding families: one defect injected into a clean entry
def with_clause(rng, want):
    """a clean entry that contains a clause with tag `want`; returns (cs, sps, position)"""
    for _ in range(10000):
        cs, sps = draw_clauses(rng)
        for i, c in enumerate(cs):
            if c[0] == want:
                return cs, sps, i
    raise RuntimeError("generator cannot produce clause %d" % want)


def f_kw_name(rng):
    cs, sps, i = with_clause(rng, 0)
    cs[i] = [0, S(rng.choice(KEYWORD_NAMES))]
    return cs, sps


def f_glued(rng):
    for _ in range(10000):
        cs, sps, i = with_clause(rng, rng.choice([5, 5, 7]))
        if cs[i][0] == 7 and chr(cs[i][1][0]) in "'\"":
            continue
        if i == len(cs) - 1:
            continue
        sps[i][1] = S(rng.choice([", ", "; ", ",  ", ";\n  "]))
        return cs, sps
    raise RuntimeError("glued")


def f_indexed(rng):
    cs, sps, i = with_clause(rng, rng.choice([3, 4]))
    key = [rng.randint(0, 1), S(fresh_name(rng))] if rng.random() < 0.5 else []
    idx = [S(fresh_name(rng)) for _ in range(rng.randint(1, 2))]
    cs[i][-1] = [key, idx]
    return cs, sps


def f_zeros(rng):
    cs, sps, i = with_clause(rng, 8)
    sps[i][0][0][1] = rng.randint(1, 2)
    return cs, sps


def f_just_last(rng):
    cs, sps, i = with_clause(rng, 9)
    c, sp = cs.pop(i), sps.pop(i)
    c[1] = 0
    if sps:
        if cs[-1][0] in (5, 7) and unS(sps[-1][1])[:1] in ("", ",", ";"):
            sps[-1][1] = S(" ")
        elif not sps[-1][1]:
            sps[-1][1] = S(" ")
    cs.append(c); sps.append([sp[0], []])
    return cs, sps


def f_sign_plain(rng):
    cs, sps, i = with_clause(rng, 11)
    cs[i][2] = 0
    return cs, sps


def f_filler_case(rng):
    cs, sps, i = with_clause(rng, 1)
    sps[i][0][1][0] = rng.choice([[1] * 6, [0, 0, 1], [1, 0, 0, 0, 0, 1]])
    return cs, sps


FAMILIES = [("kw_name", 21, f_kw_name), ("glued_sep", 22, f_glued), ("indexed", 23, f_indexed), ("zeros", 24, f_zeros),
            ("just_last", 25, f_just_last), ("sign_plain", 26, f_sign_plain), ("filler_case", 27, f_filler_case)]

# ------------------------------------------------------------------ soups
KW = RESERVED
S_NAMES = ["K1ASCENDING", "XDESCENDING", "INDEXEDBY", "BYE", "KEYS", "ISIS", "TIMESX", "TOX", "A", "B-1", "CUST-NO", "X", "K1", "IDX", "COMPANY",
           "FILLERS", "ON-HAND", "IS-X", "9", "5", "12", "007", "N_1", "é", "٣"]
S_PICS = ["X(3)", "S9(5)V99", "99", "X", "9(3).99", "$$9", "X(3);", "X,", "ZZ9-", "X(3", "Q"]
S_LITS = ["'A'", "'A B'", '"Q"', "'", '"', "'x", "ZERO", "'it''s'", "';'", "'A\nB'"]
S_SEPS = [" ", " ", " ", "  ", ", ", "; ", ",", ";", "|", "\n", " \n  ", "\t", ""]
JUNK = ["(", ")", ".", "-", "_", "'", '"', "$", "+", "ſ", "K", "İ", "ı", " ", " ", "\x1c"]
CHAR_ALPHABETS = ["PIC IS,;| X'\"\n", "OCURS 12TIMEDPNGAKYXBI-,; ", "VALUE IS'\";, \nab", "JUSTIFIEDRGH ;", "COMP-1234UTAIONL USGEIS;-",
                  "SIGNLEADTRPCH ,IS", "BLANKWHEZROS ,;", "SYNCHROIZEDLFTG ;,"]
WITNESSES = ["", " ", "A", "A PIC X", "COMPANY PIC X(5)", "FILLERS PIC X", "A PIC X(3); DISPLAY", "A PIC 9(3).99, OCCURS 3",
             "T OCCURS 3 TIMES INDEXED BY I-1", "KEY-X OCCURS 4 INDEXED BY IDX-1", "A OCCURS 5 ASCENDING KEY IS K INDEXED BY IDX-1 PIC X(3)",
             "A PIC X(3) OCCURS 5 ASCENDING KEY IS K INDEXED BY IDX-1", "A OCCURS 5  INDEXED BY X", "A OCCURS 5 ASCENDING KEY IS INDEXED BY X",
             "A PIC X BLANK WHEN ZEROS", "A PIC X BLANK ZEROES", "A PIC X JUSTIFIED", "A PIC X JUST", "A JUST RIGHT PIC X", "A PIC X SIGN LEADING",
             "A SIGN IS TRAILING PIC X", "A PIC X SIGN LEADING SEPARATE CHARACTER", "A PIC ;", "A PIC IS ;", "A VALUE ;", "A VALUE 'a' PIC X VALUE 'b'",
             "A SYNC LEFT", "A SYNCHRONIZED", "A OCCURS 3 TO 5 TIMES DEPENDING ON ON-X", "A EXTERNAL GLOBAL", "A PİC X", "A PIC X uſage comp",
             "A PIC", "A PIC ", "A PICTURE", "filler pic x", "FILLER", "A COMP-5", "A COMP-34", "A COMPUTATIONAL-35", "A USAGE IS-X", "A OCCURS 1 TO 5",
             "A OCCURS 5 TIMESX", "A REDEFINES", "A REDEFINES B", "REDEFINES-X", "A VALUE IS", "A VALUE IS 'x'", "A VALUE 'x\ny'", "A PIC X(", "A PIC ?",
             "05 N2 PIC A(4) VALUE 'BINARY'", "A DEPENDING ON B", "A OCCURS 07 TIMES DEPENDING B", "A OCCURS ٣", "A_B PIC X", "ÉTÉ PIC X"]


def casing(rng, w):
    m = rng.randint(0, 5)
    if m < 3:
        return w
    if m == 3:
        return w.lower()
    if m == 4:
        return "".join(rng.choice([c.lower(), c.upper()]) for c in w)
    return w.replace("S", rng.choice(["S", "ſ"])).replace("K", rng.choice(["K", "K"])).replace("I", rng.choice(["I", "ı", "İ"]))


def soup(rng):
    out = []
    for _ in range(rng.randint(1, 14)):
        m = rng.random()
        if m < 0.55:
            out.append(casing(rng, rng.choice(KW)))
        elif m < 0.75:
            out.append(rng.choice(S_NAMES))
        elif m < 0.85:
            out.append(rng.choice(S_PICS))
        elif m < 0.93:
            out.append(rng.choice(S_LITS))
        else:
            out.append(rng.choice(JUNK))
        out.append(rng.choice(S_SEPS))
    s = "".join(out)
    if rng.random() < 0.5:
        s = s.rstrip()
    if rng.random() < 0.2 and s:
        i = rng.randrange(len(s))
        s = s[:i] + rng.choice(JUNK + list("ABCDEKISTORY- ,;")) + s[i + (rng.random() < 0.5):]
    return s


def charsoup(rng):
    alpha = rng.choice(CHAR_ALPHABETS)
    return "".join(rng.choice(alpha) for _ in range(rng.randint(1, 25)))


def edited(rng):
    cs, sps = draw_clauses(rng)
    s = print_items(cs, sps)
    if not s:
        return s
    i = rng.randrange(len(s))
    m = rng.randint(0, 2)
    c = rng.choice(JUNK + list("ABCDEIKSTORYX-09 ,;"))
    return s[:i] + c + s[i:] if m == 0 else s[:i] + s[i + 1:] if m == 1 else s[:i] + c + s[i + 1:]


# ------------------------------------------------------------------ streams
def inputs(ctx):
    rng = ctx.rng
    quick = ctx.tier == "quick"
    for w in WITNESSES:
        yield "witness", dict(kind=2, stream=0, text=w)
    for _ in range(6000 if quick else 60000):
        cs, sps = draw_clauses(rng)
        yield "clean", dict(kind=1, stream=1, cs=cs, sps=sps)
    for name, sid, f in FAMILIES:
        for _ in range(300 if quick else 3000):
            cs, sps = f(rng)
            yield name, dict(kind=1, stream=sid, cs=cs, sps=sps)
    for _ in range(6000 if quick else 80000):
        yield "soup", dict(kind=2, stream=0, text=soup(rng))
    for _ in range(2500 if quick else 30000):
        yield "charsoup", dict(kind=2, stream=0, text=charsoup(rng))
    for _ in range(2500 if quick else 30000):
        yield "edited", dict(kind=2, stream=0, text=edited(rng))


KEYS = {"redefines": 0, "blank": 1, "justified": 2, "odo_minitems": 3, "odo_maxitems": 4, "depending_on": 5, "occurs_maxitems": 6, "picture": 7,
        "sign": 8, "sign_sep": 9, "synch": 10, "usage": 11, "value": 12, "filler": 13, "name": 14}
PKEYS = {"sign": 0, "char": 1, "decimal": 2, "digit": 3, "repeat": 4}


def observe(ctx, inp):
    from stingray import cobol_parser
    text = print_items(inp["cs"], inp["sps"]) if inp["kind"] == 1 else inp["text"]

    def run():
        d = cobol_parser.clause_dict(text)
        cobol_parser.DDE.filler_count = 0
        node = cobol_parser.DDE("05", text)
        return d, node

    def conv(v):
        d, node = v
        plain = sorted((KEYS.get(k, 99), S(val)) for k, val in d.items() if k != "_picture_parsed")
        parsed = [[[[PKEYS.get(k, 9), S(t)] for k, t in e.items()] for e in d["_picture_parsed"]]] if "_picture_parsed" in d else []
        return [[list(p) for p in plain], parsed, S(str(node.name)), S(str(node.unique_name))]

    obs = observe_call(run, conv)
    if inp["kind"] == 1:
        return [1, inp["stream"], inp["cs"], inp["sps"], S(text), obs]
    return [2, inp["stream"], S(text), obs]


def describe(inp):
    if inp["kind"] == 1:
        return repr(print_items(inp["cs"], inp["sps"]))
    return repr(inp["text"])
