"""C01 - every named COBOL item is read from the byte range the record layout assigns it."""
from layout_common import *

GEN = []
ALSO = ["C01b"]   # C01 composed with C02 (what is stored in a record is what navigation returns): own theorems, judge and run; ./check C01 runs that engine too
RULE = ("random record descriptions (depth<=4, fan-out<=5, OCCURS 1-4, OCCURS DEPENDING ON with counters anywhere before the table, REDEFINES of "
        "elementary and group items at every child position, FILLER items, DISPLAY/COMP-3/binary items) printed as copybooks; a position-coded record "
        "with the chosen counter values; EVERY navigation path (names, first/second/last index of every table, one refused index) through EBCDIC().nav "
        "and, for DISPLAY-only trees, TextUnpacker().nav; the same trees with packed and binary items in their native-text form too (schema made by "
        "JSONSchemaMaker(TextUnpacker), every width counted in characters), each right after its EBCDIC form; the emitted schema itself is compared with the model's. Separate streams hit the three known-bad "
        "shapes; stream redefines-chain: record descriptions in which a REDEFINES names an item that is itself a redefiner (two or three links, elementary and group "
        "links, a second redefiner of the original or of a link in between, at the top level, inside a nested group and inside one occurrence of a repeated group, "
        "with and without items after the union). Non-trivial = tree has OCCURS, REDEFINES or ODO (branch > 1); distinct = distinct case lines.")
TRIVIAL_BRANCHES = [1]
ASSUMPTIONS = ["widths of elementary items are given to the judge as the widths C04's specification lists (the generator avoids C04's known-bad configurations)",
               "the loaded Schema mirrors the JSON document (C15)",
               "ODO counters are unsigned DISPLAY digit items; their decoding is C02's concern"]


def inputs(ctx):
    rng = ctx.rng
    n = 250 if ctx.tier == "quick" else 4000
    for i in range(n):
        text = (i % 3 == 2)
        yield "clean", dict(seed=rng.randrange(1 << 30), text=text, opts=dict(display_only=text))
    # the same record description in its two physical forms, one after the other in this process: the EBCDIC form (packed and
    # binary items as wide as their usage makes them) and the native-text form of a schema made by JSONSchemaMaker(TextUnpacker)
    # (every item as wide as its picture has positions)
    for i in range(60 if ctx.tier == "quick" else 900):
        seed = rng.randrange(1 << 30)
        yield "clean", dict(seed=seed, text=False, opts=dict(display_only=False))
        yield "text-sized", dict(seed=seed, text=True, opts=dict(display_only=False, text_sized=True))
    m = 25 if ctx.tier == "quick" else 300
    for i in range(m):
        yield "redef-in-occurs", dict(seed=rng.randrange(1 << 30), text=False, opts=dict(redef_in_occurs=True, allow_odo=False))
        yield "occurs-elem-in-union", dict(seed=rng.randrange(1 << 30), text=False, opts=dict(occurs_elem_in_union=True, allow_odo=False))
        yield "odo-in-table", dict(seed=rng.randrange(1 << 30), text=False, opts=dict(odo_in_table=True, allow_redef=False))
    # an OCCURS DEPENDING ON table inside a redefined item (outside the theorem's family, judged by the specification all the same)
    for i in range(40 if ctx.tier == "quick" else 600):
        yield "odo-in-union", dict(seed=rng.randrange(1 << 30), text=False, opts=dict(odo_in_union=True, allow_filler=False))
    # the same data name in two different groups (qualified names in COBOL); anchors are one flat namespace
    for i in range(60 if ctx.tier == "quick" else 900):
        yield "dup-names", dict(seed=rng.randrange(1 << 30), text=False, opts=dict(dup_names=True, allow_odo=False, allow_filler=False))
    # a REDEFINES whose target is itself a redefiner (COBOL 2002; COBOL 85 demands the original name): finding K-redefines-of-redefiner
    for k in range(len(CHAIN_FIXED)):
        yield "redefines-chain", dict(seed=0, text=(k % 2 == 1), chain=True, fixed=k, opts={})
    for i in range(41 if ctx.tier == "quick" else 700):
        yield "redefines-chain", dict(seed=rng.randrange(1 << 30), text=(i % 3 == 1), chain=True, opts={})


def _fixed(spec):
    """a record description written as nested tuples (id, size | [kids], redefined id or None)"""
    def go(t):
        i, body, red = t
        if isinstance(body, list):
            return dict(id=i, kind="group", occ=None, redef=red, filler=False, kids=[go(k) for k in body])
        return dict(id=i, kind="elem", pic=f"X({body})", usage="DISPLAY", size=body, occ=None, redef=red, filler=False, kids=[])
    return go(spec)


# the witness of K-redefines-of-redefiner (01 REC. 05 A X(4). 05 B REDEFINES A X(4). 05 C REDEFINES B X(2). 05 D X(1).) and the shapes of
# Props/C01d.v: three links; the chain in a nested group with a GROUP as the original item; a group as the middle link; nothing after the union
CHAIN_FIXED = [
    (1, [(2, 4, None), (3, 4, 2), (4, 2, 3), (5, 1, None)], None),
    (1, [(2, 4, None), (3, 4, 2), (4, 3, 3), (5, 2, 4), (6, 1, None)], None),
    (1, [(2, 1, None), (3, [(4, [(5, 2, None), (6, 2, None)], None), (7, 4, 4), (8, 2, 7), (9, 1, None)], None), (10, 1, None)], None),
    (1, [(2, 4, None), (3, [(4, 2, None), (5, 2, None)], 2), (6, 3, 3), (7, 1, None)], None),
    (1, [(2, 4, None), (3, 4, 2), (4, 2, 3)], None),
]


def chain_tree(rng):
    """A record description holding at least one chained redefinition: A, L1 REDEFINES A, L2 REDEFINES L1 [, L3 REDEFINES L2], every link no
    longer than its target, optionally with a second redefiner of A or of a link, plain items before and after; the union sits at the top
    level, in a nested group, or in a plain group inside one occurrence of a repeated group.  No OCCURS on a union member, no REDEFINES
    directly inside a repeated group, no OCCURS DEPENDING ON, no FILLER, every data name used once (the other findings' shapes stay out)."""
    nid = [0]

    def new_id():
        nid[0] += 1
        return nid[0]

    def elem(size=None, redef=None, occ=None):
        if size is None:
            pic, usage, size = rng.choice(elem_choices(True))
        else:
            pic, usage = (f"X({size})", "DISPLAY") if rng.random() < 0.7 or size > 9 else ("9" * size, "DISPLAY")
        return dict(id=new_id(), kind="elem", pic=pic, usage=usage, size=size, occ=occ, redef=redef, filler=False, kids=[])

    def group(kids, redef=None, occ=None, i=None):
        return dict(id=i if i is not None else new_id(), kind="group", occ=occ, redef=redef, filler=False, kids=kids)

    def member(room, redef):
        """an item of extent 1..room (exactly room with probability 1/3), elementary or a group of elementary items"""
        ext = room if rng.random() < 0.34 else rng.randint(1, room)
        if ext >= 2 and rng.random() < 0.35:
            gid, kids, left = new_id(), [], ext
            while left > 0:
                k = left if len(kids) == 2 else rng.randint(1, left)
                kids.append(elem(k))
                left -= k
            return group(kids, redef=redef, i=gid), ext
        return elem(ext, redef=redef), ext

    def union():
        """[base, link1 REDEFINES base, link2 REDEFINES link1, ...] plus extra redefiners, each after its target"""
        base, ext = member(rng.choice((2, 3, 4, 4, 6, 8)), None)
        seq, exts, prev = [base], {base["id"]: ext}, base
        for _ in range(rng.choice((2, 2, 2, 3))):
            link, e = member(exts[prev["id"]], prev["id"])
            seq.append(link)
            exts[link["id"]] = e
            prev = link
        for _ in range(rng.choice((0, 0, 1, 2))):
            pos = rng.randint(2, len(seq))
            target = rng.choice(seq[:pos - 1] if rng.random() < 0.5 else seq[:1])
            extra, e = member(exts[target["id"]], target["id"])
            exts[extra["id"]] = e
            seq.insert(pos, extra)
        return seq

    def plain(n):
        out = []
        for _ in range(n):
            if rng.random() < 0.2:
                out.append(group([elem() for _ in range(rng.randint(1, 2))], occ=("times", rng.randint(1, 3)) if rng.random() < 0.4 else None))
            else:
                out.append(elem(occ=("times", rng.randint(1, 3)) if rng.random() < 0.15 else None))
        return out

    def kids_with_union():
        after = 0 if rng.random() < 0.15 else rng.randint(1, 2)
        return plain(rng.randint(0, 2)) + union() + plain(after)

    root = new_id()
    where = rng.random()
    if where < 0.5:
        kids = kids_with_union()
    elif where < 0.8:
        kids = plain(rng.randint(0, 2)) + [group(kids_with_union(), i=new_id())] + plain(rng.randint(0, 2))
    else:
        gid, hid = new_id(), new_id()
        inner = group(kids_with_union(), i=hid)
        kids = plain(rng.randint(0, 1)) + [group(plain(rng.randint(0, 1)) + [inner] + plain(rng.randint(0, 1)), occ=("times", rng.randint(1, 3)), i=gid)] \
            + plain(rng.randint(0, 2))
    if rng.random() < 0.2:
        kids = kids + union() + plain(rng.randint(0, 1))      # a second chain among the same siblings
    return group(kids, i=root)


def build_case(c):
    import random
    rng = random.Random(c["seed"])
    if c.get("fixed") is not None:
        tree = _fixed(CHAIN_FIXED[c["fixed"]])
    else:
        tree = chain_tree(rng) if c.get("chain") else gen_tree(rng, **c["opts"])
    env = choose_counts(tree, rng)
    total, counters, paths = layout(tree, env)
    if len(paths) > 160:
        keep = set(rng.sample(range(len(paths)), 160))
        paths = [p for i, p in enumerate(paths) if i in keep]
    record = make_record(total, counters, env, c["text"])
    return tree, env, counters, paths, record


def observe(ctx, c):
    tree, env, counters, paths, record = build_case(c)
    schema_obs, top_obs, lrecl_obs, path_obs, _ = observe_layout(tree, record, paths, c["text"], c["opts"].get("text_sized", False))
    return [tree_sx(tree), record, [[k, v] for k, v in sorted(env.items())], [[cid, p] for cid, p, _, _ in counters],
            schema_obs, top_obs, lrecl_obs, path_obs]


def describe(c):
    tree, env, counters, paths, record = build_case(c)
    return dict(c, copybook=print_copybook(tree), counts=env, record_len=len(record))
