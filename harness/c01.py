"""C01 - every named COBOL item is read from the byte range the record layout assigns it."""
from layout_common import *

GEN = []
ALSO = ["C01b"]   # C01 composed with C02 (what is stored in a record is what navigation returns): own theorems, judge and run; ./check C01 runs that engine too
RULE = ("random record descriptions (depth<=4, fan-out<=5, OCCURS 1-4, OCCURS DEPENDING ON with counters anywhere before the table, REDEFINES of "
        "elementary and group items at every child position, FILLER items, DISPLAY/COMP-3/binary items) printed as copybooks; a position-coded record "
        "with the chosen counter values; EVERY navigation path (names, first/second/last index of every table, one refused index) through EBCDIC().nav "
        "and, for DISPLAY-only trees, TextUnpacker().nav; the same trees with packed and binary items in their native-text form too (schema made by "
        "JSONSchemaMaker(TextUnpacker), every width counted in characters), each right after its EBCDIC form; the emitted schema itself is compared with the model's. Separate streams hit the three known-bad "
        "shapes. Non-trivial = tree has OCCURS, REDEFINES or ODO (branch > 1); distinct = distinct case lines.")
TRIVIAL_BRANCHES = [1]
ASSUMPTIONS = ["widths of elementary items are given to the judge as the widths C04's specification lists (the generator avoids C04's known-bad configurations)",
               "the loaded Schema mirrors the JSON document (C15)",
               "ODO counters are unsigned DISPLAY digit items; their decoding is C02's concern"]


def inputs(ctx):
    rng = ctx.rng
    n = 250 if ctx.tier == "quick" else 4000
    for i in range(n):
        text = (i % 3 == 2)
        yield "clean", dict(seed=rng.randrange(1 << 30), text=text, opts=dict(display_only=text))
    # the same record description in its two physical forms, one after the other in this process: the EBCDIC form (packed and
    # binary items as wide as their usage makes them) and the native-text form of a schema made by JSONSchemaMaker(TextUnpacker)
    # (every item as wide as its picture has positions)
    for i in range(60 if ctx.tier == "quick" else 900):
        seed = rng.randrange(1 << 30)
        yield "clean", dict(seed=seed, text=False, opts=dict(display_only=False))
        yield "text-sized", dict(seed=seed, text=True, opts=dict(display_only=False, text_sized=True))
    m = 25 if ctx.tier == "quick" else 300
    for i in range(m):
        yield "redef-in-occurs", dict(seed=rng.randrange(1 << 30), text=False, opts=dict(redef_in_occurs=True, allow_odo=False))
        yield "occurs-elem-in-union", dict(seed=rng.randrange(1 << 30), text=False, opts=dict(occurs_elem_in_union=True, allow_odo=False))
        yield "odo-in-table", dict(seed=rng.randrange(1 << 30), text=False, opts=dict(odo_in_table=True, allow_redef=False))
    # an OCCURS DEPENDING ON table inside a redefined item (outside the theorem's family, judged by the specification all the same)
    for i in range(40 if ctx.tier == "quick" else 600):
        yield "odo-in-union", dict(seed=rng.randrange(1 << 30), text=False, opts=dict(odo_in_union=True, allow_filler=False))
    # the same data name in two different groups (qualified names in COBOL); anchors are one flat namespace
    for i in range(60 if ctx.tier == "quick" else 900):
        yield "dup-names", dict(seed=rng.randrange(1 << 30), text=False, opts=dict(dup_names=True, allow_odo=False, allow_filler=False))


def build_case(c):
    import random
    rng = random.Random(c["seed"])
    tree = gen_tree(rng, **c["opts"])
    env = choose_counts(tree, rng)
    total, counters, paths = layout(tree, env)
    if len(paths) > 160:
        keep = set(rng.sample(range(len(paths)), 160))
        paths = [p for i, p in enumerate(paths) if i in keep]
    record = make_record(total, counters, env, c["text"])
    return tree, env, counters, paths, record


def observe(ctx, c):
    tree, env, counters, paths, record = build_case(c)
    schema_obs, top_obs, lrecl_obs, path_obs, _ = observe_layout(tree, record, paths, c["text"], c["opts"].get("text_sized", False))
    return [tree_sx(tree), record, [[k, v] for k, v in sorted(env.items())], [[cid, p] for cid, p, _, _ in counters],
            schema_obs, top_obs, lrecl_obs, path_obs]


def describe(c):
    tree, env, counters, paths, record = build_case(c)
    return dict(c, copybook=print_copybook(tree), counts=env, record_len=len(record))
