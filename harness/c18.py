"""C18 - whatever bytes a numeric field holds, the result fits its PICTURE or is an error."""
from codec_common import *

GEN = ["EstructParams", "Cp037", "TextCodec"]
RULE = ("every byte string of the field's width for packed and zoned items: ALL 256 one-byte and ALL 65536 two-byte buffers for every picture family "
        "of that width (quick: full for odd-digit packed and unsigned zoned, every 4th buffer for the two known-bad families; thorough: full, plus 400k "
        "three-byte buffers), nibble-boundary and random patterns up to 18 (zoned) / 28 (packed) digits, valid encodings with one corrupted nibble. "
        "Non-trivial = all (branch = kind, width, model outcome); distinct = distinct case lines.")
TRIVIAL_BRANCHES = []
ASSUMPTIONS = ["decimal default context (precision 28); pictures beyond 28 digits are C02's K-packed-prec finding and are not generated here",
               "picture text -> (signed, m, n) is C13's concern"]


def width(kind, signed, d):
    return d // 2 + 1 if kind == 1 else d + (1 if signed else 0)


def pics_for_width(kind, w):
    """(signed, digits) families whose field is w bytes wide"""
    out = []
    if kind == 1:
        for d in (2 * w - 2, 2 * w - 1):
            if d >= 1:
                out += [(True, d), (False, d)]
    else:
        out.append((False, w))
        if w >= 2:
            out.append((True, w - 1))
    return out


def inputs(ctx):
    rng = ctx.rng
    quick = ctx.tier == "quick"
    ctx.exhaustive += ["all_1_byte_buffers", "all_2_byte_buffers" + ("(every 4th for known-bad families)" if quick else "")]
    # The longer fields are drawn first and handed out in shuffled order BETWEEN the exhaustive streams and after them, so that
    # fields of every width follow corrupt and valid fields of the other encoding (what one decode leaves behind in the
    # process - the thread's decimal context, a cache - shows in the decodes that follow only when the next field is wider).
    longer = list(_longer(rng, quick))
    rng.shuffle(longer)
    share = max(1, len(longer) // 6)
    for kind in (1, 2):
        for w in (1, 2):
            for item in longer[:share]:
                yield item
            longer = longer[share:]
            for signed, d in pics_for_width(kind, w):
                bad_family = (kind == 1 and d % 2 == 0) or (kind == 2 and signed)
                step = 4 if (quick and bad_family and w == 2) else 1
                for v in range(0, 256 ** w, step):
                    n = v % (d + 1)
                    yield f"exh-{kind}-{w}", dict(kind=kind, signed=signed, m=d - n, n=n, buf=list(v.to_bytes(w, "big")),
                                                  usage=(PACKED[v % 3] if kind == 1 else DISPLAY), nav=(v % 509 == 0))
    if not quick:
        for kind in (1, 2):
            for signed, d in pics_for_width(kind, 3):
                for _ in range(50000):
                    v = rng.randrange(256 ** 3)
                    n = v % (d + 1)
                    yield f"rand-{kind}-3", dict(kind=kind, signed=signed, m=d - n, n=n, buf=list(v.to_bytes(3, "big")),
                                                 usage=(PACKED[v % 3] if kind == 1 else DISPLAY), nav=False)
    for item in longer:
        yield item


def _longer(rng, quick):
    # longer fields: nibble-boundary patterns, random bytes, valid encodings with one corrupted nibble
    nibs = [0x0, 0x9, 0xA, 0xF, 0xC, 0xD]
    for kind, maxd in ((1, 28), (2, 18)):
        for d in range(1, maxd + 1):
            for signed in (False, True):
                w = width(kind, signed, d)
                for _ in range(6 if quick else 60):
                    mode = rng.randrange(4)
                    if mode == 0:
                        buf = [rng.randrange(256) for _ in range(w)]
                    elif mode == 1:
                        buf = [16 * rng.choice(nibs) + rng.choice(nibs) for _ in range(w)]
                    else:
                        ds = [rng.randrange(10) for _ in range(d)]
                        if kind == 1:
                            buf = enc_packed(ds, rng.choice([0xC, 0xD, 0xF]))
                        else:
                            buf = enc_zoned(([0] if signed else []) + ds, rng.choice([0xC, 0xD, 0xF]))
                        if mode == 3:
                            i = rng.randrange(len(buf))
                            buf[i] = (buf[i] & 0x0F) | (rng.randrange(10, 16) << 4) if rng.random() < 0.5 else (buf[i] & 0xF0) | rng.randrange(10, 16)
                    n = rng.randint(0, d)
                    yield f"long-{kind}", dict(kind=kind, signed=signed, m=d - n, n=n, buf=buf,
                                               usage=(rng.choice(PACKED) if kind == 1 else DISPLAY), nav=rng.random() < 0.2)


def observe(ctx, c):
    pic = picture(c["signed"], c["m"], c["n"], repeat=(sum(c["buf"]) % 2 == 0))
    obs = unpack_obs(clause(c["usage"], pic), c["buf"])
    nav = nav_obs(c["usage"], pic, c["buf"]) if c["nav"] else [2]
    return [c["kind"], c["usage"], c["signed"], c["m"], c["n"], c["buf"], obs, nav]


def describe(c):
    return dict(c, picture=picture(c["signed"], c["m"], c["n"]), hex=bytes(c["buf"]).hex())
