"""C18 - whatever bytes a numeric field holds, the result fits its PICTURE or is an error."""
from codec_common import *

GEN = ["EstructParams", "Cp037", "TextCodec"]
RULE = ("every byte string of the field's width for packed and zoned items: ALL 256 one-byte and ALL 65536 two-byte buffers for every picture family "
        "of that width (quick: full for odd-digit packed and unsigned zoned, every 4th buffer for the two known-bad families; thorough: full, plus 400k "
        "three-byte buffers), nibble-boundary and random patterns up to 18 (zoned) / 28 (packed) digits, valid encodings with one corrupted nibble. "
        "BINARY items (kind 3, all five spellings): every two-byte buffer for 9..9(4) and S9..S9(4) (quick: every 8th, each picture at its own "
        "offset, plus all buffers within 2 of a power of ten or of the ends of the halfword range; thorough: all 65536 each), in-range values "
        "for every digit count 1..18 (clean: outside the finding), the picture's and the width's boundaries in 2, 4 and 8 bytes, random "
        "4- and 8-byte buffers, pictures with V. "
        "Non-trivial = all (branch = kind, width, model outcome); distinct = distinct case lines.")
TRIVIAL_BRANCHES = []
ASSUMPTIONS = ["decimal default context (precision 28); pictures beyond 28 digits are C02's K-packed-prec finding and are not generated here",
               "picture text -> (signed, m, n) is C13's concern",
               "binary items: the field has the width the decoder derives from the digit count (2, 4, 8 bytes); estruct.calcsize gives signed "
               "items of 4 or 9 digits the next width (C04's K-signed-binary-size), a buffer of that width is a struct.error"]


def width(kind, signed, d):
    return d // 2 + 1 if kind == 1 else d + (1 if signed else 0)


def pics_for_width(kind, w):
    """(signed, digits) families whose field is w bytes wide"""
    out = []
    if kind == 1:
        for d in (2 * w - 2, 2 * w - 1):
            if d >= 1:
                out += [(True, d), (False, d)]
    else:
        out.append((False, w))
        if w >= 2:
            out.append((True, w - 1))
    return out


def inputs(ctx):
    rng = ctx.rng
    quick = ctx.tier == "quick"
    ctx.exhaustive += ["all_1_byte_buffers", "all_2_byte_buffers" + ("(every 4th for known-bad families)" if quick else "")]
    # The longer fields are drawn first and handed out in shuffled order BETWEEN the exhaustive streams and after them, so that
    # fields of every width follow corrupt and valid fields of the other encoding (what one decode leaves behind in the
    # process - the thread's decimal context, a cache - shows in the decodes that follow only when the next field is wider).
    longer = list(_longer(rng, quick))
    rng.shuffle(longer)
    share = max(1, len(longer) // 6)
    for kind in (1, 2):
        for w in (1, 2):
            for item in longer[:share]:
                yield item
            longer = longer[share:]
            for signed, d in pics_for_width(kind, w):
                bad_family = (kind == 1 and d % 2 == 0) or (kind == 2 and signed)
                step = 4 if (quick and bad_family and w == 2) else 1
                for v in range(0, 256 ** w, step):
                    n = v % (d + 1)
                    yield f"exh-{kind}-{w}", dict(kind=kind, signed=signed, m=d - n, n=n, buf=list(v.to_bytes(w, "big")),
                                                  usage=(PACKED[v % 3] if kind == 1 else DISPLAY), nav=(v % 509 == 0))
    if not quick:
        for kind in (1, 2):
            for signed, d in pics_for_width(kind, 3):
                for _ in range(50000):
                    v = rng.randrange(256 ** 3)
                    n = v % (d + 1)
                    yield f"rand-{kind}-3", dict(kind=kind, signed=signed, m=d - n, n=n, buf=list(v.to_bytes(3, "big")),
                                                 usage=(PACKED[v % 3] if kind == 1 else DISPLAY), nav=False)
    for item in _binary(ctx, rng, quick):
        yield item
    for item in longer:
        yield item


def bin_width(d):
    return 2 if d < 5 else 4 if d < 10 else 8


def _bin_case(stream, signed, m, n, w, v, rng=None, nav=None):
    """v: the field's content as an unsigned number below 256**w"""
    v %= 256 ** w
    return stream, dict(kind=3, signed=signed, m=m, n=n, buf=list(v.to_bytes(w, "big")),
                        usage=(rng.choice(BINARY) if rng else BINARY[(v + m + n) % 5]),
                        nav=(v % 509 == 0) if nav is None else nav)


def _binary(ctx, rng, quick):
    """BINARY items.  Streams: bin-exh-2 (every halfword, pictures without V of 1..4 digits; most of them in the trigger set of
    K-binary-exceeds-picture), bin-fit (CLEAN: in-range contents, no V - never in the trigger set), bin-edge (the picture's and
    the width's boundaries), bin-rand (random fullwords and doublewords), bin-size (S9(4) / S9(9) in the width calcsize gives them: always struct.error),
    bin-v (pictures with V: every case in the trigger set)."""
    ctx.exhaustive.append("all_2_byte_buffers_binary_9(1..4)_S9(1..4)" + ("(every 8th + boundaries)" if quick else ""))
    pics2 = [(signed, d) for d in (1, 2, 3, 4) for signed in (False, True)]
    near = sorted({(x + k) % 65536 for d in range(0, 5) for x in (10 ** d, -10 ** d, 32768, 0) for k in range(-2, 3)})
    for i, (signed, d) in enumerate(pics2):
        todo = range(65536) if not quick else sorted(set(range(i, 65536, 8)) | set(near))
        for v in todo:
            yield _bin_case("bin-exh-2", signed, d, 0, 2, v)
    # clean: contents within the picture's digits, no fraction digits
    for d in range(1, 19):
        w = bin_width(d)
        for signed in (False, True):
            for _ in range(12 if quick else 300):
                digits = rng.randint(1, d)
                v = rng.randrange(10 ** digits)
                if signed and rng.random() < 0.5:
                    v = -v
                yield _bin_case("bin-fit", signed, d, 0, w, v, rng, nav=rng.random() < 0.2)
    # boundaries: the picture's range and the width's range, with and without V
    for d in range(1, 19):
        w = bin_width(d)
        edges = [0, 1, -1, 10 ** d - 1, 10 ** d, -(10 ** d - 1), -(10 ** d), 2 ** (8 * w - 1) - 1, -2 ** (8 * w - 1), 2 ** (8 * w - 1) - 2,
                 256 ** w - 10 ** d, 10 ** (d - 1), -(10 ** (d - 1))]
        for signed in (False, True):
            for n in sorted({0, 1, d // 2, d}):
                for v in edges:
                    yield _bin_case("bin-edge", signed, d - n, n, w, v, rng, nav=rng.random() < 0.2)
    # random fullwords and doublewords
    for d in range(5, 19):
        w = bin_width(d)
        for signed in (False, True):
            for _ in range(15 if quick else 400):
                mode = rng.randrange(3)
                if mode == 0:
                    v = rng.randrange(256 ** w)
                elif mode == 1:
                    v = int.from_bytes(bytes(rng.choice([0x00, 0xFF, 0x7F, 0x80, 0x01, 0x27, 0x0F]) for _ in range(w)), "big")
                else:
                    v = rng.randrange(10 ** d) * rng.choice([1, -1]) + rng.choice([0, 10 ** d, -10 ** d])
                yield _bin_case("bin-rand", signed, d, 0, w, v, rng, nav=rng.random() < 0.1)
    # signed items of 4 or 9 digits in a buffer of the width estruct.calcsize reports (one size up): struct.error
    for d, w in ((4, 4), (9, 8)):
        for _ in range(10 if quick else 100):
            n = rng.choice([0, 0, rng.randint(0, d)])
            yield _bin_case("bin-size", True, d - n, n, w, rng.randrange(256 ** w), rng, nav=rng.random() < 0.3)
    # pictures with V: the result is an int whatever the buffer
    for d in range(2, 19):
        w = bin_width(d)
        for signed in (False, True):
            for _ in range(10 if quick else 200):
                n = rng.randint(1, d)
                v = rng.randrange(256 ** w) if rng.random() < 0.5 else rng.randrange(10 ** rng.randint(1, d)) * rng.choice([1, -1])
                yield _bin_case("bin-v", signed, d - n, n, w, v, rng, nav=rng.random() < 0.2)


def _longer(rng, quick):
    # longer fields: nibble-boundary patterns, random bytes, valid encodings with one corrupted nibble
    nibs = [0x0, 0x9, 0xA, 0xF, 0xC, 0xD]
    for kind, maxd in ((1, 28), (2, 18)):
        for d in range(1, maxd + 1):
            for signed in (False, True):
                w = width(kind, signed, d)
                for _ in range(6 if quick else 60):
                    mode = rng.randrange(4)
                    if mode == 0:
                        buf = [rng.randrange(256) for _ in range(w)]
                    elif mode == 1:
                        buf = [16 * rng.choice(nibs) + rng.choice(nibs) for _ in range(w)]
                    else:
                        ds = [rng.randrange(10) for _ in range(d)]
                        if kind == 1:
                            buf = enc_packed(ds, rng.choice([0xC, 0xD, 0xF]))
                        else:
                            buf = enc_zoned(([0] if signed else []) + ds, rng.choice([0xC, 0xD, 0xF]))
                        if mode == 3:
                            i = rng.randrange(len(buf))
                            buf[i] = (buf[i] & 0x0F) | (rng.randrange(10, 16) << 4) if rng.random() < 0.5 else (buf[i] & 0xF0) | rng.randrange(10, 16)
                    n = rng.randint(0, d)
                    yield f"long-{kind}", dict(kind=kind, signed=signed, m=d - n, n=n, buf=buf,
                                               usage=(rng.choice(PACKED) if kind == 1 else DISPLAY), nav=rng.random() < 0.2)


def observe(ctx, c):
    pic = picture(c["signed"], c["m"], c["n"], repeat=(sum(c["buf"]) % 2 == 0))
    obs = unpack_obs(clause(c["usage"], pic), c["buf"])
    nav = nav_obs(c["usage"], pic, c["buf"]) if c["nav"] else [2]
    return [c["kind"], c["usage"], c["signed"], c["m"], c["n"], c["buf"], obs, nav]


def describe(c):
    return dict(c, picture=picture(c["signed"], c["m"], c["n"]), hex=bytes(c["buf"]).hex())
