#!/venv/bin/python
"""Run the repository's test suite with the hook guard OFF and compare with /root/.vp/BASELINE.json stable_pass."""
import json, os, subprocess, sys, tempfile, xml.etree.ElementTree as ET
repo = os.environ.get("VERIF_REPO", "/repo")
env = dict(os.environ); env.pop("STINGRAY_READER_VERIF", None)
env["PYTHONPATH"] = os.path.join(repo, "src")
with tempfile.TemporaryDirectory() as td:
    xml = os.path.join(td, "r.xml")
    subprocess.run(["/venv/bin/python", "-m", "pytest", "-q", "-p", "no:cacheprovider", "--timeout=900",
                    "--continue-on-collection-errors", f"--junitxml={xml}"], cwd=repo, env=env,
                   stdout=subprocess.DEVNULL, stderr=subprocess.DEVNULL)
    passed = set()
    for tc in ET.parse(xml).getroot().iter("testcase"):
        if not any(c.tag in ("failure", "error", "skipped") for c in tc):
            passed.add(f"{tc.get('classname')}::{tc.get('name')}")
base = set(json.load(open("/root/.vp/BASELINE.json"))["stable_pass"])
missing = sorted(base - passed)
print(f"baseline stable_pass={len(base)} passed_now={len(passed & base)} missing={len(missing)}")
for m in missing: print("MISSING", m)
sys.exit(1 if missing else 0)
