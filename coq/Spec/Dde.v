(* What property C07 demands of the tree built from a copybook, written over plain data:
   a copybook is the list of its data description entries in source order; an entry is seen
   here as its level NUMBER (two decimal digits), its data name and its REDEFINES target.

     - level 66, 77 and 88 entries contribute nothing;
     - the parent of an entry is the nearest preceding (kept) entry with a strictly smaller level
       number (such an entry is necessarily still open: everything between it and the entry has
       a level number at least as large as the entry's); an entry without one starts a new tree;
     - a REDEFINES clause must name exactly one earlier sibling. *)
From Coq Require Import NArith List Bool Arith.
Import ListNotations.

(* the number written by two ASCII digits *)
Definition is_digit (c : N) : bool := ((48 <=? c) && (c <=? 57))%N.
Definition two_digits (l : N * N) : bool := is_digit (fst l) && is_digit (snd l).
Definition lvl_num (l : N * N) : N := (10 * (fst l - 48) + (snd l - 48))%N.

Definition kept_level (n : N) : bool := negb ((n =? 66) || (n =? 77) || (n =? 88))%N.

(* rev_prefix = the entries before position [length rev_prefix], nearest first;
   answer = the position of the nearest one whose level is strictly smaller than x *)
Fixpoint nearest_smaller (rev_prefix : list N) (x : N) : option nat :=
  match rev_prefix with
  | [] => None
  | y :: r => if (y <? x)%N then Some (length r) else nearest_smaller r x
  end.

(* K = level numbers of the kept entries in source order *)
Definition spec_parent (K : list N) (k : nat) : option nat :=
  match nth_error K k with
  | Some x => nearest_smaller (rev (firstn k K)) x
  | None => None
  end.

Definition spec_parents (K : list N) : list (option nat) := map (spec_parent K) (seq 0 (length K)).

(* positions that start a tree *)
Definition spec_roots (K : list N) : list nat :=
  filter (fun k => match spec_parent K k with None => true | Some _ => false end) (seq 0 (length K)).

Definition opt_nat_eqb (a b : option nat) : bool :=
  match a, b with
  | None, None => true
  | Some x, Some y => Nat.eqb x y
  | _, _ => false
  end.

Fixpoint name_eqb (a b : list N) : bool :=
  match a, b with
  | [], [] => true
  | x :: a', y :: b' => (x =? y)%N && name_eqb a' b'
  | _, _ => false
  end.

(* earlier siblings of position k: the positions j < k with the same (existing) parent *)
Definition spec_siblings (K : list N) (k : nat) : list nat :=
  match spec_parent K k with
  | None => []
  | Some p => filter (fun j => opt_nat_eqb (spec_parent K j) (Some p)) (seq 0 k)
  end.

(* entry k of a copybook given as (level number, name, redefines target):
   a target must be the name of exactly one earlier sibling; a root's REDEFINES is not looked at *)
Definition redefines_ok_at (E : list (N * list N * option (list N))) (k : nat) : bool :=
  let K := map (fun e => fst (fst e)) E in
  match nth_error E k with
  | Some (_, _, Some tgt) =>
      match spec_parent K k with
      | None => true
      | Some _ =>
          Nat.eqb (length (filter (fun j => match nth_error E j with
                                            | Some (_, nm, _) => name_eqb nm tgt
                                            | None => false
                                            end) (spec_siblings K k))) 1
      end
  | _ => true
  end.

Definition redefines_ok (E : list (N * list N * option (list N))) : bool :=
  forallb (redefines_ok_at E) (seq 0 (length E)).
