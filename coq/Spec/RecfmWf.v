(* Statement-level definitions of property C05's resumed-reading theorems (moved here from Proofs/RecfmP.v, audit item G1):
   definitions only.  They read a generator's behaviour triple of Model/Recfm.v: [items_of] = what a pass yielded,
   [calm] = the pass ended by exhaustion or was suspended (no exception, no hang). *)
From Coq Require Import NArith List.
Require Import SR.Base.Res SR.Model.Recfm.

Definition items_of (o : out N (list N)) : list (list N) := fst (fst o).
Definition calm (o : out N (list N)) : bool :=
  match snd (fst o) with Done | More => true | _ => false end.
