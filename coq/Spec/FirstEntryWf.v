(* Spec/FirstEntryWf.v - the statements and witnesses that occur in Props/C07d.v (known finding
   C07-K8-first-entry-66-77-88).  DEFINITIONS ONLY.  Imports Spec/Dde.v (kept_level, lvl_num, two_digits) and the
   MODEL file Model/Structure.v (the entry record, structure, schemas, preorder_f: the statements are about the model). *)
From Coq Require Import NArith List.
Import ListNotations.
Require Import SR.Base.Res SR.Spec.Dde SR.Model.Structure.

(* the entries the property wants in the forest: level 66, 77 and 88 entries contribute nothing *)
Definition wanted (l : list entry) : list entry := filter (fun e => kept_level (lvl_num (elv e))) l.

(* the first entry's level is 66, 77 or 88 (the trigger of the finding) *)
Definition first_entry_special (l : list entry) : bool :=
  match l with
  | [] => false
  | e :: _ => negb (kept_level (lvl_num (elv e)))
  end.

(* C07_structure_entries of Props/C07.v with its hypothesis on the first entry dropped *)
Definition entries_unguarded : Prop :=
  forall (l : list entry) (f : list tree),
    Forall (fun e => two_digits (elv e) = true) l ->
    structure l = Ok f ->
    map de (preorder_f f) = wanted l.

(* witnesses: level, name, picture? *)
Definition fe (a b : N) (name : str) (pic : bool) : entry :=
  {| elv := (a, b); ename := Some name; efill := None; eredef := None; epic := pic; eocc := false; etext := [] |}.
Definition nW : str := [87%N].
Definition nFLAG : str := [70; 76; 65; 71]%N.
Definition nR : str := [82%N].
Definition nREC : str := [82; 69; 67]%N.
Definition nA : str := [65%N].
Definition nB : str := [66%N].
Definition nX : str := [88%N].

Definition e77 : entry := fe 55 55 nW true.          (* 77 W PIC X.           *)
Definition e88 : entry := fe 56 56 nFLAG false.      (* 88 FLAG VALUE 'Y'.    *)
Definition e66 : entry := fe 54 54 nR false.         (* 66 R RENAMES A THRU B. *)
Definition rec01 : list entry := [fe 48 49 nREC false; fe 48 53 nA true; fe 48 53 nB true].   (* 01 REC. 05 A PIC X. 05 B PIC 9. *)
Definition items05 : list entry := [fe 48 53 nA true; fe 48 53 nB true].                      (* 05 A PIC X. 05 B PIC 9. *)

(* what comes out of a copybook: the names of the trees' nodes in preorder with each node's parent, and the titles of the schemas *)
Definition shape (l : list entry) : res (list str * list (option nat)) :=
  match structure l with
  | Ok f => Ok (map (fun d => dde_name (de d)) (preorder_f f), parents f)
  | Err e => Err e
  end.
Definition titles (l : list entry) : res (list (option str)) :=
  match schemas l with
  | Ok ss => Ok (map (fun s => match s with SN _ t _ _ _ => t end) ss)
  | Err e => Err e
  end.

