(* Spec/RedefinesCaseWitness.v - the witness copybook of finding 7 (REDEFINES target spelled in another case) and the
   case-insensitive specification its theorem compares with (Props/C07.v); they used to be defined beside the lemmas of
   Proofs/RedefinesCaseP.v (audit item G1).  DEFINITIONS ONLY, moved textually.
   upper, up_spec    what COBOL (case-insensitive) says the kept entries are: (level, NAME, REDEFINES NAME)
   ent, n_fld_a_lower, n_fld_a_upper, witness7, witness7_same_case   the witness and its same-case twin
   Imports: Spec/Dde.v (lvl_num), Spec/StructureWf.v (kept_of) and the MODEL file Model/Structure.v (the entry and dde records). *)
From Coq Require Import NArith List Bool.
Import ListNotations.
Require Import SR.Spec.Dde SR.Model.Structure SR.Spec.StructureWf.

Definition upper (c : N) : N := if ((97 <=? c) && (c <=? 122))%N then (c - 32)%N else c.

Definition up_spec (l : list entry) : list (N * list N * option (list N)) :=
  map (fun d => (lvl_num (dlv d), map upper (dde_name (de d)), option_map (map upper) (eredef (de d)))) (kept_of l).

Definition ent (a b : N) (name : str) (red : option str) (pic : bool) : entry :=
  {| elv := (a, b); ename := Some name; efill := None; eredef := red; epic := pic; eocc := false; etext := [] |}.

Definition n_fld_a_lower : str := [102; 108; 100; 45; 97]%N.     (* fld-a *)

Definition n_fld_a_upper : str := [70; 76; 68; 45; 65]%N.        (* FLD-A *)

(* 01 R.  05 fld-a PIC X.  05 B REDEFINES FLD-A PIC X. *)
Definition witness7 : list entry :=
  [ent 48 49 [82%N] None false; ent 48 53 n_fld_a_lower None true; ent 48 53 [66%N] (Some n_fld_a_upper) true]%N.

(* the same with the clause spelled like the declaration *)
Definition witness7_same_case : list entry :=
  [ent 48 49 [82%N] None false; ent 48 53 n_fld_a_lower None true; ent 48 53 [66%N] (Some n_fld_a_lower) true]%N.
