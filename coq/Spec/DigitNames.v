(* Spec/DigitNames.v - COBOL data names against the $anchor pattern of the 2020-12 meta-schema (C08, known finding
   K-digit-first-name).  DEFINITIONS ONLY.

   A COBOL user-defined word (data name): 1 to 30 characters out of letters, digits and the hyphen, the hyphen neither
   first nor last, AT LEAST ONE LETTER - somewhere, not necessarily first: 9A, 1ST-NAME, 05-CNT are data names.
   The meta-schema's $anchor (Spec/Anchor.v legal) must begin with a letter or underscore.

   digit_first s      s begins with a digit 0-9
   cobol_name s       s is a COBOL data name (as above)
   fix_anchors n v    the JSON document v with every $anchor text that begins with a digit prefixed by an underscore,
                      everything else unchanged (n = nesting depth to descend): the judge uses it to decide that the
                      digit-first anchors are the ONLY thing the meta-schema refuses in a document *)
From Coq Require Import ZArith NArith List Bool.
Import ListNotations.
Require Import SR.Spec.Anchor SR.Spec.SchemaTruth.
Open Scope N_scope.

Definition is_digit_cp (c : N) : bool := (48 <=? c) && (c <=? 57).
Definition is_letter_cp (c : N) : bool := ((65 <=? c) && (c <=? 90)) || ((97 <=? c) && (c <=? 122)).
Definition is_hyphen_cp (c : N) : bool := c =? 45.
Definition name_char (c : N) : bool := is_letter_cp c || is_digit_cp c || is_hyphen_cp c.

Definition digit_first (s : list N) : bool :=
  match s with c :: _ => is_digit_cp c | [] => false end.

Definition cobol_name (s : list N) : bool :=
  match s with
  | [] => false
  | c :: _ =>
      (length s <=? 30)%nat && forallb name_char s && negb (is_hyphen_cp c) && negb (is_hyphen_cp (last s 0))
      && existsb is_letter_cp s
  end.

Fixpoint fix_anchors (fuel : nat) (v : jval) : jval :=
  match fuel with
  | O => v
  | S f =>
      match v with
      | VMap d =>
          VMap (map (fun kv =>
                       match snd kv with
                       | VText s =>
                           if str_eqb (fst kv) k_anchor && digit_first s then (fst kv, VText (us :: s)) else kv
                       | x => (fst kv, fix_anchors f x)
                       end) d)
      | VArr l => VArr (map (fix_anchors f) l)
      | x => x
      end
  end.
