(* Spec/SecondParseWf.v - the predicates and functions that occur in the statements of Props/C04e.v (the decoder's second
   parse of an entry's text: estruct.clause_pattern, after the repair of finding K-name-contains-usage).  DEFINITIONS ONLY.

     name_chars             a word made of the characters of COBOL data names (letters, digits, hyphen) - the character class
                            of the pattern's two assertions
     est_trigger_words      the words a match of the decoder's pattern can begin with: the thirteen usage words, PIC, PICTURE,
                            USAGE, IS (Model/Pipeline.v; the usage and picture words are read from the source)
     is_trigger             the word IS one of them, letter for letter (the pattern is case-sensitive)
     has_infix, name_bears_keyword
                            a usage word, PIC or PICTURE occurs somewhere INSIDE the data name (start, middle or end)
     entry_name, with_name  the data name of an entry (its first clause) / the same entry under another data name
     neutral_name           FLD: a data name without any keyword in it
     clauses_in_domain      the clauses of the entry are in the respelling domain: the entry written under the neutral data name
                            is (what respelling_domain asks of the USAGE, PICTURE and VALUE clauses: reserved words PIC / PICTURE /
                            USAGE / IS and the usage word in upper case, no usage word or PIC inside a VALUE literal)
     own_size, own_kind     the size / the field kind (Spec/Record.v) that the entry's OWN clauses call for: estruct's size
                            function and shape classification applied to the usage number of the entry's USAGE clause (DISPLAY
                            without one) and the elements of its PICTURE string (Model/Picture.v dec_normalize), nothing else of
                            the text
     level_digit            a level-number character: a decimal digit (any script), as Spec/RefFormat.v wf_entry demands
     ends_word              nothing follows, or a character that is not a name character
     plain_spell, plain_items, pic_usage_clauses   the syntactic part of the respelling domain that is PROVED to lie in it: a
                            PICTURE clause, or a PICTURE and a USAGE clause in either order, every reserved word in upper case,
                            blanks between the words and behind the clauses
     t_EMP_COMPANY ... e_emp_company   the four example texts of the finding (cobol keywords as the schema carries them) and the
                            first of them as a printed entry
   Imports: Spec/Clauses.v (clause, name_char), Spec/Copybook.v (centry, spec_info, respelling_domain), Model/Pipeline.v (the
   word lists, est_item, R), Model/TextLayout.v (shape_body, kind_of_shape), Model/Picture.v, Model/Estruct.v. *)
From Coq Require Import NArith List Bool Arith.
Import ListNotations.
Require Import SR.Base.Res.
Require SR.Model.Picture SR.Model.Estruct SR.Gen.EstructParams.
Require Import SR.Spec.Clauses SR.Model.Pipeline SR.Spec.Copybook SR.Model.TextLayout.
Open Scope N_scope.

Definition name_chars (w : list N) : bool := forallb name_char w.

Definition est_trigger_words : list (list N) := est_usage_words ++ est_pic_words ++ [w_USAGE; w_IS].

Definition is_trigger (w : list N) : bool := existsb (fun t => SR.Model.Structure.str_eqb t w) est_trigger_words.

(* w occurs in s *)
Fixpoint has_infix (w s : list N) : bool :=
  is_pre w s || match s with [] => false | _ :: t => has_infix w t end.

Definition name_bears_keyword (n : list N) : bool := existsb (fun w => has_infix w n) (est_usage_words ++ est_pic_words).

Definition entry_name (e : centry) : option (list N) :=
  match ce_cs e with CName n :: _ => Some n | _ => None end.

Definition with_name (e : centry) (n : list N) : centry :=
  {| ce_d1 := ce_d1 e; ce_d2 := ce_d2 e;
     ce_cs := match ce_cs e with CName _ :: cs => CName n :: cs | cs => cs end;
     ce_sps := ce_sps e; ce_lead := ce_lead e; ce_gap := ce_gap e; ce_term := ce_term e |}.

Definition neutral_name : list N := [70; 76; 68].                       (* FLD *)

Definition clauses_in_domain (e : centry) : bool := respelling_domain (with_name e neutral_name).

(* estruct.calcsize applied to a usage number and a picture string: Representation.parse's result for ONE usage and ONE
   picture, then the size computation of Model/Pipeline.v calcsize_items *)
Definition own_size (e : centry) : R N :=
  calcsize_items (EUsage (usage_number (spec_info e))
                  :: match i_pic (spec_info e) with Some p => [EPicture p] | None => [] end).

Definition own_kind (e : centry) : option SR.Spec.Record.fkind :=
  match est_loop (EUsage (usage_number (spec_info e))
                  :: match i_pic (spec_info e) with Some p => [EPicture p] | None => [] end) usage_DISPLAY [] with
  | ROk (u, es) => kind_of_shape (shape_body u es)
  | _ => None
  end.

Definition level_digit (c : N) : bool := SR.Model.RefFormat.is_digit c.

(* a word ends here: nothing follows, or a character that is not a name character *)
Definition ends_word (r : list N) : bool := match r with [] => true | c :: _ => negb (name_char c) end.

(* the examples of finding K-name-contains-usage: the cobol keywords of four entries, as the schema carries them *)
Definition t_EMP_COMPANY : list N := [48; 53; 32; 69; 77; 80; 45; 67; 79; 77; 80; 65; 78; 89; 32; 80; 73; 67; 32; 88; 40; 49; 48; 41].      (* 05 EMP-COMPANY PIC X(10) *)
Definition t_WS_COMP_DATE : list N := [48; 53; 32; 87; 83; 45; 67; 79; 77; 80; 45; 68; 65; 84; 69; 32; 80; 73; 67; 32; 57; 40; 56; 41].     (* 05 WS-COMP-DATE PIC 9(8) *)
Definition t_TOT_BINARY_CT : list N := [48; 53; 32; 84; 79; 84; 45; 66; 73; 78; 65; 82; 89; 45; 67; 84; 32; 80; 73; 67; 32; 57; 40; 51; 41].    (* 05 TOT-BINARY-CT PIC 9(3) *)
Definition t_ELEMENTARY_PIC : list N := [48; 53; 32; 69; 76; 69; 77; 69; 78; 84; 65; 82; 89; 45; 80; 73; 67; 32; 80; 73; 67; 32; 88; 40; 52; 41].   (* 05 ELEMENTARY-PIC PIC X(4) *)
Definition n_EMP_COMPANY : list N := [69; 77; 80; 45; 67; 79; 77; 80; 65; 78; 89].
Definition p_X_10 : list N := [88; 40; 49; 48; 41].
(* the first one as a printed entry: level 05, the name, PIC X(10), default spelling *)
Definition e_emp_company : centry :=
  {| ce_d1 := 48; ce_d2 := 53; ce_cs := [CName n_EMP_COMPANY; CPicture p_X_10]; ce_sps := [];
     ce_lead := [32; 32; 32; 32]; ce_gap := [32]; ce_term := 10 |}.

(* ---- a syntactic part of the respelling domain (Props/C04e.v C04e_plain_entry_in_domain) ---- *)
(* a clause spelled with every reserved word in upper case and blanks (tabs, line breaks) between its words *)
Definition plain_spell (sp : cspell) : bool :=
  match masks sp with [] => true | _ :: _ => false end && forallb blank_sep (seps sp).

(* every clause of the list spelled that way, and blanks behind it *)
Fixpoint plain_items (cs : list clause) (sps : spelling) : bool :=
  match cs with
  | [] => true
  | _ :: cs' => plain_spell (fst (hd sp_default sps)) && all_blank (snd (hd sp_default sps)) && plain_items cs' (tl sps)
  end.

(* a PICTURE clause, or a PICTURE and a USAGE clause in either order *)
Definition pic_usage_clauses (cs : list clause) : bool :=
  match cs with
  | [CPicture _] | [CPicture _; CUsage _] | [CUsage _; CPicture _] => true
  | _ => false
  end.
