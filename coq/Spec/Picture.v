(* What property C13 means by a PICTURE string, written from the property text and the COBOL
   picture alphabet, not from the scanners.

   A picture string is a sequence of symbols, letters in either case:
       S + - $ , / * B V . A X 9 Z 0 P      one character each
       DB CR                                two characters each
   A symbol other than S V . DB CR may be followed by a repeat count  ( digits )  with ASCII digits,
   at least one digit, value at least 1:  c(n) denotes exactly n copies of c.
   Anything else - a character outside the alphabet, an unbalanced or empty or zero count, a count
   after a symbol that cannot repeat, a D or C that does not start DB or CR, the empty string -
   is not a picture: [sp_parse] returns None and the property demands a ValueError.

   [sp_expand] reads the string once, left to right, with a four-state automaton and returns the
   denoted symbol sequence as an upper-case string without repeat counts (the expansion).
   Everything the property compares is a function of that expansion:
     positions   V and P occupy none, every other character of the expansion one (so DB, CR: two)
     signed      a sign symbol occurs (+ - S DB CR)
     int, frac   the data positions (A X 9 Z 0 and the check-protect asterisk) before / after the first V or .
     numeric     only S V P 9 occur *)
From Coq Require Import NArith List Bool.
Import ListNotations.
Open Scope N_scope.

Definition sp_mem (c : N) (l : list N) : bool := existsb (N.eqb c) l.

Definition sp_upper (c : N) : N := if (97 <=? c) && (c <=? 122) then c - 32 else c.
Definition sp_digit (c : N) : bool := (48 <=? c) && (c <=? 57).

(* one-character symbols, upper case:  + - S $ , / * B V . A X 9 Z 0 P *)
Definition sp_single (u : N) : bool :=
  sp_mem u [43; 45; 83; 36; 44; 47; 42; 66; 86; 46; 65; 88; 57; 90; 48; 80].
(* symbols that may carry a repeat count:  + - $ , / * B A X 9 Z 0 P *)
Definition sp_repeatable (u : N) : bool :=
  sp_mem u [43; 45; 36; 44; 47; 42; 66; 65; 88; 57; 90; 48; 80].

(* a character that is not a picture letter (either case), a digit or a parenthesis *)
Definition sp_foreign (c : N) : bool :=
  negb (sp_single (sp_upper c) || sp_mem (sp_upper c) [68; 67; 82] || sp_digit c || (c =? 40) || (c =? 41)).

Inductive sp_state :=
| Idle                                  (* between symbols *)
| Sym (u : N)                           (* just read the one-character symbol u (already emitted once) *)
| Cnt (u : N) (n : N) (some : bool)     (* inside the parentheses after u: value so far, a digit was seen *)
| Pair (second : N).                    (* read D (C): the next character must be B (R) *)

Fixpoint sp_run (st : sp_state) (s : list N) : option (list N) :=
  match s with
  | [] => match st with Idle | Sym _ => Some [] | _ => None end
  | c :: t =>
      let u := sp_upper c in
      match st with
      | Pair second => if u =? second then option_map (cons second) (sp_run Idle t) else None
      | Cnt v n some =>
          if sp_digit c then sp_run (Cnt v (n * 10 + (c - 48)) true) t
          else if (c =? 41) && some && (0 <? n)
          then option_map (app (repeat v (N.to_nat (n - 1)))) (sp_run Idle t)
          else None
      | Idle | Sym _ =>
          if (c =? 40)
          then match st with
               | Sym v => if sp_repeatable v then sp_run (Cnt v 0 false) t else None
               | _ => None
               end
          else if u =? 68 then option_map (cons 68) (sp_run (Pair 66) t)
          else if u =? 67 then option_map (cons 67) (sp_run (Pair 82) t)
          else if sp_single u then option_map (cons u) (sp_run (Sym u) t)
          else None
      end
  end.

Definition sp_expand (s : list N) : option (list N) :=
  match s with [] => None | _ :: _ => sp_run Idle s end.

(* ---- what an expansion denotes ---- *)
Definition sp_positions (e : list N) : nat :=
  length (filter (fun c => negb ((c =? 86) || (c =? 80))) e).

Definition sp_signed (e : list N) : bool := existsb (fun c => sp_mem c [43; 45; 83; 68; 67]) e.

Definition sp_data (c : N) : bool := sp_mem c [65; 88; 57; 90; 48; 42].
Definition sp_point (c : N) : bool := (c =? 86) || (c =? 46).

Fixpoint sp_int (e : list N) : nat :=
  match e with
  | [] => O
  | c :: r => if sp_point c then O else if sp_data c then S (sp_int r) else sp_int r
  end.

Fixpoint sp_frac (e : list N) : nat :=
  match e with
  | [] => O
  | c :: r => if sp_point c then length (filter sp_data r) else sp_frac r
  end.

Definition sp_numeric (e : list N) : bool := forallb (fun c => sp_mem c [83; 86; 80; 57]) e.

Record summary := { positions : nat; signed : bool; int_digits : nat; frac_digits : nat; numeric : bool }.

Definition sp_summary (e : list N) : summary :=
  {| positions := sp_positions e; signed := sp_signed e; int_digits := sp_int e;
     frac_digits := sp_frac e; numeric := sp_numeric e |}.

Definition sp_parse (s : list N) : option summary := option_map sp_summary (sp_expand s).

Definition summary_eqb (a b : summary) : bool :=
  Nat.eqb (positions a) (positions b) && Bool.eqb (signed a) (signed b)
  && Nat.eqb (int_digits a) (int_digits b) && Nat.eqb (frac_digits a) (frac_digits b)
  && Bool.eqb (numeric a) (numeric b).

(* ---- what a scanner's element list (kind, text) denotes: the concatenated texts, upper-cased ---- *)
Definition sp_of_texts (texts : list (list N)) : list N := map sp_upper (concat texts).
