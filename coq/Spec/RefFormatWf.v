(* Spec/RefFormatWf.v - one function that occurs in the statements of Props/C12.v and used to be defined beside the lemmas
   of Proofs/RefFormatP.v (audit item G1).  DEFINITION ONLY, moved textually.
   with_body   the same source line with another body (columns 8-72) - the respelling the theorem quantifies over
   Imports: Spec/RefFormat.v (the entry record) and the MODEL file Model/RefFormat.v for the type name line (= list N). *)
From Coq Require Import List.
Import ListNotations.
Require Import SR.Model.RefFormat SR.Spec.RefFormat.
Local Open Scope N_scope.

Definition with_body (e : entry) (b : line) : entry :=
  {| e_lead := e_lead e; e_d1 := e_d1 e; e_d2 := e_d2 e; e_gap := e_gap e; e_body := b; e_term := e_term e |}.
