(* Spec/ClausesWf.v - the predicates and functions that occur in the statements of Props/C12b.v (the clause recogniser) and
   used to be defined beside the lemmas of Proofs/ClausesP.v (audit item G1).  DEFINITIONS ONLY, moved textually.
   kwc, sepc, kword, sepstr     character classes of the pattern's literals and of the printer's separators
   follow, nsp, tail_ok, lookahead_words, clean_next   what may follow a token / a separator / a clause
   keyword_alts                 the numbers of the pattern's keyword alternatives
   code_key, gmap, codes        between the specification's key numbers and the model's keys
   record_of, result_for        what clause_dict returns when the recogniser delivers dictionary d
   Imports: Base/Res.v, Spec/Clauses.v (dict, str, lookup, the character classes) and the MODEL files Model/Clauses.v (key,
   groups, clause_record, all_keys, key_code, lit, is_sp, the look-ahead words) and, through it, Model/Picture.v
   (gen_normalize: result_for passes the picture through the model's normaliser). *)
From Coq Require Import NArith List.
Import ListNotations.
Require Import SR.Base.Res SR.Spec.Clauses SR.Model.Clauses.
Local Open Scope N_scope.

(* the characters of the pattern's literals *)
Definition kwc (c : N) : bool := is_upper_letter c || is_digit c || (c =? 45).

(* the characters of the printer's separators *)
Definition sepc (c : N) : bool := is_blank c || s_mem c [44; 59].

Definition kword (w : str) : bool := forallb kwc w.

(* what follows a token: nothing, or a separator character *)
Definition follow (rest : list N) : Prop := rest = [] \/ exists c t, rest = c :: t /\ sepc c = true.

(* what follows a separator: nothing, or a character that is not of the SPACE class *)
Definition nsp (rest : list N) : Prop := rest = [] \/ exists c t, rest = c :: t /\ is_sp c = false.

(* separators *)
Definition sepstr (s : str) : Prop := s <> [] /\ forallb sepc s = true.

Definition lookahead_words : list str :=
  [W_ASCENDING; W_DESCENDING; W_INDEXED; W_TIMES; W_TO; W_DEPENDING; W_RIGHT; W_LEFT; W_CHARACTER].

Definition clean_next (r : list N) : Prop := forall w, In w lookahead_words -> lit w r = None.

Definition tail_ok (rest : list N) : Prop :=
  rest = [] \/ exists s r, rest = s ++ r /\ sepstr s /\ nsp r /\ clean_next r.

Definition keyword_alts : list N := [0; 1; 2; 3; 4; 5; 6; 7; 8; 9; 10; 11; 12; 13].

(* from the specification's key numbers to the model's keys *)
Definition code_key (c : N) : key := nth (N.to_nat c) all_keys KName.

Definition gmap (d : dict) : groups := map (fun kv => (code_key (fst kv), snd kv)) d.

Definition record_of (d : dict) (parsed : option (list SR.Model.Picture.elt)) : clause_record :=
  {| cr_dict := gmap d; cr_parsed := parsed |}.

(* what clause_dict returns when the recogniser delivers the dictionary d: the picture, when there is one, goes through
   cobol_parser.normalize_picture (Model/Picture.v gen_normalize), whose exceptions pass through *)
Definition result_for (d : dict) : option (res clause_record) :=
  match lookup 7 d with
  | None => Some (Ok (record_of d None))
  | Some p =>
      match SR.Model.Picture.gen_normalize p with
      | None => None
      | Some (Err e) => Some (Err e)
      | Some (Ok es) => Some (Ok (record_of d (Some es)))
      end
  end.

(* the specification's key numbers of a model dictionary *)
Definition codes (g : groups) : dict := map (fun kv => (key_code (fst kv), snd kv)) g.
