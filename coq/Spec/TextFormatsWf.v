(* Spec/TextFormatsWf.v - the text formats (CSV, TAB, NDJSON) as instances of the format-transparency statement, as they occur
   in the statements of Props/C03.v and C03b.v; they used to be defined beside the lemmas of Proofs/TextFormatsP.v
   (audit item G1).  DEFINITIONS ONLY, moved textually.
   text_format, delimiter_of       which formats are text formats, and the delimiter of each
   sheet_text, docs_of, txt_doc    a table as rows of text / as NDJSON documents
   text_write, text_parse          the file image the writers produce / what the readers deliver for an image
   ndjson_table_ok, text_storable  the tables each format can store
   ex_text_T                       the non-vacuity example table
   from_bytes                      the file as BYTES on disk: UTF-8 decoding, then the reader
   Imports: Base/Res.v, Spec/Transparency.v (table, workbook, mk_table) and the MODEL files Model/HeaderRow.v (Txt),
   Model/Workbook.v (fmt, content, doc, phys_row), Model/Csv.v (csv_write, lib_read, table_ok_raw), Model/Ndjson.v
   (ndjson_write, ndjson_read, text_ok), Model/Utf8.v (utf8_decode): the writers and readers of the statement ARE the
   models of csv / json / the text layer. *)
From Coq Require Import NArith List.
Import ListNotations.
Require Import SR.Base.Res SR.Spec.Transparency SR.Model.HeaderRow SR.Model.Workbook.
Require SR.Model.Csv SR.Model.Ndjson.

Definition text_format (f : fmt) : bool := match f with F_CSV | F_TAB | F_NDJSON => true | _ => false end.

Definition delimiter_of (f : fmt) : N := match f with F_TAB => Csv.TAB | _ => Csv.COMMA end.

Definition sheet_text (T : table) : list (list text) := t_header T :: t_rows T.

Definition docs_of (T : table) : list Ndjson.doc := map (fun r => combine (t_header T) r) (t_rows T).

Definition text_write (ea : bool) (f : fmt) (W : workbook) : list N :=
  match W with
  | [(_, T)] =>
      match f with
      | F_NDJSON => Ndjson.ndjson_write ea (docs_of T)
      | F_CSV | F_TAB => Csv.csv_write (delimiter_of f) (sheet_text T)
      | _ => []
      end
  | _ => []
  end.

Definition txt_doc (d : Ndjson.doc) : doc := map (fun kv => (fst kv, Txt (snd kv))) d.

Definition text_parse (f : fmt) (img : list N) : content :=
  match f with
  | F_NDJSON => C_json (match Ndjson.ndjson_read img with Ndjson.Done docs => map txt_doc docs | _ => [] end)
  | _ => C_single (match Csv.lib_read (delimiter_of f) img with Ok rows => map phys_row rows | Err _ => [] end)
  end.

Definition ndjson_table_ok (ea : bool) (T : table) : bool :=
  forallb (Ndjson.text_ok ea) (t_header T) && forallb (forallb (Ndjson.text_ok ea)) (t_rows T).

Definition text_storable (ea : bool) (f : fmt) (W : workbook) : bool :=
  match W with
  | [(_, T)] =>
      match f with
      | F_NDJSON => ndjson_table_ok ea T
      | F_CSV | F_TAB => Csv.table_ok_raw (sheet_text T)
      | _ => false
      end
  | _ => false
  end.

(* non-vacuity: a table with a quote, a delimiter, a line feed, a carriage return, CR LF, blanks, an empty cell,
   non-ASCII and non-BMP text *)
Definition ex_text_T : table :=
  mk_table [[65]; [66; 34; 50]]%N
           [[[97; 44; 98]; [233; 10; 128512]]; [[]; [32; 9; 32]]; [[8232; 133]; [34]]; [[97; 13; 98]; [13; 10]]]%N.
Require Import SR.Model.Utf8.

(* the file as bytes on disk, decoded as the text layer does, then read *)
Definition from_bytes {A} (read : list N -> A) (bs : list N) : option A := option_map read (utf8_decode (length bs) bs).
