(* C08, the property's side: what a generated schema must say about one elementary item, what
   the JSON Schema 2020-12 meta-schema demands of the keywords the generator uses, and what it
   means for references to resolve.  Written from the property text and the meta-schema, not
   from the implementation.

   Codes (shared with Gen/JsonTypeParams.v, Gen/ConversionParams.v, Spec/Conversion.v):
     type             0 absent 1 string 2 integer 3 number 4 decimal 5 array 6 object 7 null 8 boolean
     contentEncoding  0 absent 1 cp037 2 packed-decimal 3 bigendian-int 4 bigendian-float 5 bigendian-double
     conversion       0 absent 1 null 2 bool 3 integer 4 number 5 string 6 decimal
     Python type      0 NoneType 1 bool 2 int 3 float 4 str 5 Decimal *)
From Coq Require Import ZArith NArith List Bool.
Import ListNotations.
Require Import SR.Spec.Encode SR.Spec.Fits SR.Spec.Anchor.
Open Scope N_scope.

Definition ty_string : N := 1.   Definition ty_integer : N := 2.  Definition ty_number : N := 3.
Definition ty_decimal : N := 4.
Definition enc_none : N := 0.    Definition enc_cp037 : N := 1.   Definition enc_packed_decimal : N := 2.
Definition enc_bigendian_int : N := 3.  Definition enc_bigendian_float : N := 4.  Definition enc_bigendian_double : N := 5.
Definition conv_none : N := 0.   Definition conv_decimal : N := 6.
Definition py_int : Z := 2%Z.    Definition py_float : Z := 3%Z.  Definition py_str : Z := 4%Z.
Definition py_decimal : Z := 5%Z.

(* ---- pictures of elementary items, as this property sees them ----
   numeric: S?9..9[V9..9] with m integer and n fraction digits, each digit run written out
   (999) or in repeat notation 9(3) - the same item either way;  text: X..X / A..A or X(k) / A(k) *)
Inductive fpic :=
| PNum (signed : bool) (m n : nat) (rep_int rep_frac : bool)
| PText (alpha : bool) (k : nat) (rep : bool).

(* decimal numeral of k *)
Fixpoint dec_digits_fuel (fuel : nat) (n : N) (acc : list N) : list N :=
  match fuel with
  | O => acc
  | S f => let acc' := (48 + n mod 10) :: acc in
           if n / 10 =? 0 then acc' else dec_digits_fuel f (n / 10) acc'
  end.
Definition dec_text (k : nat) : list N := dec_digits_fuel (S k) (N.of_nat k) [].

(* a run of k symbols c: ccc or c(k) *)
Definition run (c : N) (rep : bool) (k : nat) : list N :=
  match k with
  | O => []
  | _ => if rep then c :: 40 :: dec_text k ++ [41] else repeat c k
  end.

(* the PICTURE character string of the item *)
Definition pic_text (p : fpic) : list N :=
  match p with
  | PNum s m n ri rf =>
      (if s then [83] else []) ++ run 57 ri m ++ (match n with O => [] | _ => 86 :: run 57 rf n end)
  | PText alpha k rep => run (if alpha then 65 else 88) rep k
  end.

Definition written_with_repeat (p : fpic) : bool :=
  match p with
  | PNum _ m n ri rf => (ri && negb (m =? 0)%nat) || (rf && negb (n =? 0)%nat)
  | PText _ k rep => rep && negb (k =? 0)%nat
  end.

Definition wf_pic (p : fpic) : bool :=
  match p with
  | PNum _ m n _ _ => (1 <=? m + n)%nat && (m + n <=? 18)%nat
  | PText _ k _ => (1 <=? k)%nat
  end.

(* ---- what the schema must state for an item, by USAGE spelling and PICTURE:
        (type, contentEncoding, conversion, byte length, Python type of delivered values) ---- *)
Definition spec_field (u : N) (p : fpic) : option (N * N * N * N * Z) :=
  match p with
  | PNum s m n _ _ =>
      match spec_size u s m n with
      | None => None
      | Some sz =>
          if u =? display_spelling then Some (ty_string, enc_cp037, conv_decimal, sz, py_decimal)
          else if mem_spelling u packed_spellings then Some (ty_string, enc_packed_decimal, conv_decimal, sz, py_decimal)
          else if mem_spelling u binary_spellings then Some (ty_integer, enc_bigendian_int, conv_none, sz, py_int)
          else if mem_spelling u float4_spellings then Some (ty_number, enc_bigendian_float, conv_none, sz, py_float)
          else if mem_spelling u float8_spellings then Some (ty_number, enc_bigendian_double, conv_none, sz, py_float)
          else None
      end
  | PText _ k _ =>
      if u =? display_spelling then Some (ty_string, enc_cp037, conv_none, N.of_nat k, py_str) else None
  end.

(* extended vocabulary: the vocabulary type in place of encoding and conversion *)
Definition spec_field_ext (u : N) (p : fpic) : option (N * N) :=
  match spec_field u p with
  | None => None
  | Some (t, _, c, sz, _) => Some (if c =? conv_decimal then ty_decimal else t, sz)
  end.

(* the Python type a schema DECLARES through type + conversion *)
Definition declared_pytype (t c : N) : option Z :=
  if c =? conv_decimal then Some py_decimal
  else if c =? conv_none then
    (if t =? ty_integer then Some py_int
     else if t =? ty_string then Some py_str
     else if t =? ty_number then Some py_float
     else None)
  else None.

(* ------------------------------------------------------------------------------------------
   Validity against the 2020-12 meta-schema, for JSON documents in general (so that single
   keywords can be broken and the predicate compared with the real validator).
   Keywords the generator uses: type $anchor $ref oneOf properties items maxItems minLength maxLength
   title contentEncoding; cobol, conversion, maxItemsDependsOn are unknown to the meta-schema and
   therefore unconstrained, like every other unknown keyword. *)
Inductive jval :=
| VNull | VBool (b : bool) | VNum (z : Z) | VText (s : list N)
| VArr (l : list jval) | VMap (d : list (list N * jval)) | VOther.

Fixpoint str_eqb (a b : list N) : bool :=
  match a, b with
  | [], [] => true
  | x :: a', y :: b' => (x =? y) && str_eqb a' b'
  | _, _ => false
  end.

Definition k_type : list N := [116; 121; 112; 101].
Definition k_anchor : list N := [36; 97; 110; 99; 104; 111; 114].
Definition k_ref : list N := [36; 114; 101; 102].
Definition k_oneOf : list N := [111; 110; 101; 79; 102].
Definition k_properties : list N := [112; 114; 111; 112; 101; 114; 116; 105; 101; 115].
Definition k_items : list N := [105; 116; 101; 109; 115].
Definition k_maxItems : list N := [109; 97; 120; 73; 116; 101; 109; 115].
Definition k_minLength : list N := [109; 105; 110; 76; 101; 110; 103; 116; 104].
Definition k_maxLength : list N := [109; 97; 120; 76; 101; 110; 103; 116; 104].
Definition k_title : list N := [116; 105; 116; 108; 101].
Definition k_contentEncoding : list N := [99; 111; 110; 116; 101; 110; 116; 69; 110; 99; 111; 100; 105; 110; 103].

Definition simple_types : list (list N) :=
  [[97; 114; 114; 97; 121]; [98; 111; 111; 108; 101; 97; 110]; [105; 110; 116; 101; 103; 101; 114];
   [110; 117; 108; 108]; [110; 117; 109; 98; 101; 114]; [111; 98; 106; 101; 99; 116]; [115; 116; 114; 105; 110; 103]].

Definition is_simple_type (v : jval) : bool :=
  match v with VText s => existsb (str_eqb s) simple_types | _ => false end.

Fixpoint nodup_texts (l : list jval) : bool :=
  match l with
  | [] => true
  | VText s :: r => negb (existsb (fun x => match x with VText s' => str_eqb s s' | _ => false end) r) && nodup_texts r
  | _ :: r => nodup_texts r
  end.

Definition nonneg_int (v : jval) : bool := match v with VNum z => (0 <=? z)%Z | _ => false end.
Definition is_text (v : jval) : bool := match v with VText _ => true | _ => false end.

(* fuel = nesting depth; the judge supplies more than the document can need *)
Fixpoint valid_schema (fuel : nat) (v : jval) : bool :=
  match fuel with
  | O => false
  | S f =>
      match v with
      | VBool _ => true
      | VMap d =>
          forallb (fun kv =>
            let k := fst kv in
            let x := snd kv in
            if str_eqb k k_type then
              is_simple_type x
              || match x with VArr ((_ :: _) as l) => forallb is_simple_type l && nodup_texts l | _ => false end
            else if str_eqb k k_anchor then match x with VText s => legal s | _ => false end
            else if str_eqb k k_ref then is_text x
            else if str_eqb k k_oneOf then
              match x with VArr ((_ :: _) as l) => forallb (valid_schema f) l | _ => false end
            else if str_eqb k k_properties then
              match x with VMap ps => forallb (fun p => valid_schema f (snd p)) ps | _ => false end
            else if str_eqb k k_items then valid_schema f x
            else if str_eqb k k_maxItems || str_eqb k k_minLength || str_eqb k k_maxLength then nonneg_int x
            else if str_eqb k k_title || str_eqb k k_contentEncoding then is_text x
            else true) d
      | _ => false
      end
  end.

(* ------------------------------------------------------------------------------------------
   Structure of a generated schema (the tree type of Model/Layout.v: anchors, $ref,
   maxItemsDependsOn, oneOf, properties in order): which names are anchored, which are
   referred to, and the meta-schema demands that concern structure. *)
Require Import SR.Spec.Layout SR.Model.Layout.

Fixpoint anchors_of (s : js) : list key :=
  (match js_anchor s with Some k => [k] | None => [] end) ++
  match s with
  | JAtom _ _ => []
  | JArr _ _ its => anchors_of its
  | JOdo _ _ its => anchors_of its
  | JObj _ ps => anchors_props ps
  | JOne _ alts => anchors_alts alts
  | JRef _ => []
  end
with anchors_props (ps : props) : list key :=
  match ps with PNil => [] | PCons _ s r => anchors_of s ++ anchors_props r end
with anchors_alts (alts : jalts) : list key :=
  match alts with ANil => [] | ACons s r => anchors_of s ++ anchors_alts r end.

(* names referred to: every $ref and every maxItemsDependsOn *)
Fixpoint refs_of (s : js) : list key :=
  match s with
  | JAtom _ _ => []
  | JArr _ _ its => refs_of its
  | JOdo _ c its => KName c :: refs_of its
  | JObj _ ps => refs_props ps
  | JOne _ alts => refs_alts alts
  | JRef k => [k]
  end
with refs_props (ps : props) : list key :=
  match ps with PNil => [] | PCons _ s r => refs_of s ++ refs_props r end
with refs_alts (alts : jalts) : list key :=
  match alts with ANil => [] | ACons s r => refs_of s ++ refs_alts r end.

Fixpoint prop_keys (ps : props) : list key :=
  match ps with PNil => [] | PCons k _ r => k :: prop_keys r end.

Fixpoint nodup_keys (l : list key) : bool :=
  match l with
  | [] => true
  | k :: r => negb (existsb (key_eqb k) r) && nodup_keys r
  end.

(* every oneOf has at least one alternative, every properties object has distinct member names,
   items / properties / alternatives are schemas themselves *)
Fixpoint shape_ok (s : js) : bool :=
  match s with
  | JAtom _ _ => true
  | JArr _ _ its => shape_ok its
  | JOdo _ _ its => shape_ok its
  | JObj _ ps => nodup_keys (prop_keys ps) && shape_props ps
  | JOne _ alts => (match alts with ANil => false | _ => true end) && shape_alts alts
  | JRef _ => true
  end
with shape_props (ps : props) : bool :=
  match ps with PNil => true | PCons _ s r => shape_ok s && shape_props r end
with shape_alts (alts : jalts) : bool :=
  match alts with ANil => true | ACons s r => shape_ok s && shape_alts r end.

(* ... and no anchor is declared twice *)
Definition valid_2020_12_shape (s : js) : bool := shape_ok s && nodup_keys (anchors_of s).

(* the record description side: all names, all DEPENDING ON counters *)
Fixpoint ids_of (x : item) : list id :=
  match x with
  | Elem i _ _ _ => [i]
  | Group i _ _ ks => i :: ids_kids ks
  end
with ids_kids (ks : items) : list id :=
  match ks with INil => [] | ICons x xs => ids_of x ++ ids_kids xs end.

Definition occ_counter (o : occ) : list id := match o with Odo c => [c] | _ => [] end.

Fixpoint counters_of (x : item) : list id :=
  occ_counter (item_oc x) ++ match x with Elem _ _ _ _ => [] | Group _ _ _ ks => counters_kids ks end
with counters_kids (ks : items) : list id :=
  match ks with INil => [] | ICons x xs => counters_of x ++ counters_kids xs end.

(* ------------------------------------------------------------------------------------------
   A valid record for an item: the bytes a mainframe stores for some value of the item
   (Spec/Encode.v), of the width the property lists. *)
(* code page 037 letters: an alphabetic item (PIC A) holds letters *)
Definition ebcdic_letter (b : N) : bool :=
  ((193 <=? b) && (b <=? 201)) || ((209 <=? b) && (b <=? 217)) || ((226 <=? b) && (b <=? 233))
  || ((129 <=? b) && (b <=? 137)) || ((145 <=? b) && (b <=? 153)) || ((162 <=? b) && (b <=? 169)).

Definition valid_record (u : N) (p : fpic) (buffer : list N) : Prop :=
  match p with
  | PNum s m n _ _ =>
      (u = display_spelling /\ exists ds z,
          forallb is_digit ds = true /\ valid_sign z = true /\
          length ds = spec_display_width s (m + n) /\ buffer = enc_zoned ds z)
      \/ (In u packed_spellings /\ exists ds sg,
          forallb is_digit ds = true /\ valid_sign sg = true /\ length ds = (m + n)%nat /\ buffer = enc_packed ds sg)
      \/ (In u binary_spellings /\ exists w v,
          spec_binary_width (m + n) = Some w /\
          (- 2 ^ (8 * Z.of_nat w - 1) <= v < 2 ^ (8 * Z.of_nat w - 1))%Z /\ buffer = enc_be w v)
  | PText alpha k _ =>
      u = display_spelling /\ length buffer = k /\ (alpha = true -> forallb ebcdic_letter buffer = true)
  end.

Definition is_float_spelling (u : N) : bool :=
  mem_spelling u float4_spellings || mem_spelling u float8_spellings.

(* Inputs on which the unchanged code is known to say something else (known findings):
   1  numeric DISPLAY picture written with repeat notation: not declared decimal (K-repeat-not-decimal);
   3  signed binary item of 4 or 9 digits: length counts the S (C04, K-signed-binary-size).
   COMP-1 / COMP-2 items are declared correctly but have no decoder at all (C04, K-float-no-decoder):
   the statement about delivered values leaves them out explicitly. *)
Definition known_bad_C08 (u : N) (p : fpic) : option Z :=
  match p with
  | PNum s m n _ _ =>
      if (u =? display_spelling) && written_with_repeat p then Some 1%Z
      else if mem_spelling u binary_spellings && s && ((m + n =? 4)%nat || (m + n =? 9)%nat) then Some 3%Z
      else None
  | PText _ _ _ => None
  end.

(* ------------------------------------------------------------------------------------------
   DEPENDING ON counters declared before their tables.  A counter is an elementary item without
   OCCURS and outside every REDEFINES union; [decl x] lists the counters declared inside x (not
   looking into redefining items), [odo_ok seen x] says every OCCURS DEPENDING ON inside x names a
   counter declared earlier in the description ([seen]) - inside a redefining item: earlier inside
   that item. *)
Definition eligible (x : item) (xs : items) : bool :=
  match x with
  | Elem i _ Once None => negb (existsb (N.eqb i) (redef_targets xs))
  | _ => false
  end.

Fixpoint decl (x : item) : list id :=
  match x with Elem _ _ _ _ => [] | Group _ _ _ ks => decl_kids ks end
with decl_kids (ks : items) : list id :=
  match ks with
  | INil => []
  | ICons x xs =>
      (match item_redef x with
       | Some _ => []
       | None => (if eligible x xs then [item_id x] else []) ++ decl x
       end) ++ decl_kids xs
  end.

Definition counter_in (o : occ) (seen : list id) : bool :=
  match o with Odo c => existsb (N.eqb c) seen | _ => true end.

Fixpoint odo_ok (seen : list id) (x : item) : bool :=
  counter_in (item_oc x) seen && match x with Elem _ _ _ _ => true | Group _ _ _ ks => odo_kids seen ks end
with odo_kids (seen : list id) (ks : items) : bool :=
  match ks with
  | INil => true
  | ICons x xs =>
      match item_redef x with
      | Some _ => odo_ok [] x && odo_kids seen xs
      | None => odo_ok seen x && odo_kids ((if eligible x xs then [item_id x] else []) ++ decl x ++ seen) xs
      end
  end.

(* the reference sites of a schema in the order the loader meets them (an array's own reference
   after the sites inside its items) *)
Fixpoint site_keys (s : js) : list key :=
  match s with
  | JAtom _ _ => []
  | JArr _ _ its => site_keys its
  | JOdo _ c its => site_keys its ++ [KName c]
  | JObj _ ps => site_keys_props ps
  | JOne _ alts => site_keys_alts alts
  | JRef k => [k]
  end
with site_keys_props (ps : props) : list key :=
  match ps with PNil => [] | PCons _ s r => site_keys s ++ site_keys_props r end
with site_keys_alts (alts : jalts) : list key :=
  match alts with ANil => [] | ACons s r => site_keys s ++ site_keys_alts r end.
