(* Statement-level definitions of property C03 (moved here from Proofs/WorkbookP.v, audit item G1): definitions only.
   [wf_table] / [wf_workbook]: distinct header names (sheet names), rectangular tables.  [wf_numbers]: the same for a Numbers
   document, plus [splits_back_all]: every stored (sheet, table) name pair is found again by the reader's partition at the
   separator - this one speaks about the MODEL's [partition_sep] (Model/Workbook.v, whose separator is read from the source),
   which is why this file imports a Model file.  [bad_doc] is the witness of finding K-numbers-sheet-name-separator. *)
From Coq Require Import NArith List.
Import ListNotations.
Require Import SR.Spec.Transparency SR.Spec.Table SR.Model.Workbook.

Definition wf_table (T : table) : Prop := NoDup (t_header T) /\ rect T = true.
Definition wf_workbook (W : workbook) : Prop := NoDup (map fst W) /\ Forall (fun s => wf_table (snd s)) W.

(* every stored (sheet, table) name pair is found again by partition *)
Definition splits_back_all (d : numbers_doc) : Prop :=
  forall s t, In s d -> In t (snd s) -> partition_sep (composite (fst s) (fst t)) = (fst s, fst t).

Definition wf_numbers (d : numbers_doc) : Prop :=
  NoDup (map fst d)
  /\ Forall (fun s => NoDup (map fst (snd s)) /\ Forall (fun t => wf_table (snd t)) (snd s)) d
  /\ splits_back_all d.

Definition bad_doc : numbers_doc :=
  [([97; 58; 58; 98]%N, [([84]%N, mk_table [[104]%N] [[[118]%N]])])].
