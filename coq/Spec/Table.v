(* What C09 demands of a table read with its first row as the schema, written without
   reference to the implementation.  A table is a list of rows, a row a list of cells of
   any type; header names are compared with a caller-supplied equality.  A value obtained
   from a row is an optional cell: [None] = absent. *)
From Coq Require Import List Bool Arith.
Import ListNotations.

Section Table.
Context {C K : Type}.
Variable keqb : K -> K -> bool.

(* the rows that must be delivered: every physical row after the first, once, in order *)
Definition data_rows (t : list (list C)) : list (list C) := tl t.

(* position of the first header equal to k *)
Fixpoint index_of (k : K) (hs : list K) : option nat :=
  match hs with
  | [] => None
  | h :: t => if keqb h k then Some 0 else option_map S (index_of k t)
  end.

(* the cell under the header named k (None outside = k is not a header; None inside = absent) *)
Definition cell_under (hs : list K) (k : K) (r : list C) : option (option C) :=
  option_map (nth_error r) (index_of k hs).

(* the value list of a row under a header of n columns: its cells in header order,
   missing ones absent, nothing shifted, surplus cells ignored *)
Definition cells_in_header_order (n : nat) (r : list C) : list (option C) :=
  map Some (firstn n r) ++ repeat None (n - length r).

(* a schema that declares a column position for each name, in any order and for any subset of
   the columns: a name reads the cell at its declared position, and the value list is those
   cells in the order the names are declared *)
Fixpoint declared_position (decl : list (K * nat)) (k : K) : option nat :=
  match decl with
  | [] => None
  | (k0, p) :: t => if keqb k0 k then Some p else declared_position t k
  end.

Definition declared_cell (decl : list (K * nat)) (k : K) (r : list C) : option (option C) :=
  option_map (nth_error r) (declared_position decl k).

Definition cells_at (decl : list (K * nat)) (r : list C) : list (option C) :=
  map (fun kp => nth_error r (snd kp)) decl.

(* an external schema must list the names in sheet order with positions 0..n-1 *)
Definition with_positions (names : list K) : list (K * nat) :=
  combine names (seq 0 (length names)).

(* the first cell of every row (the name column of a metadata sheet); None when a row has none *)
Fixpoint first_cells (t : list (list C)) : option (list C) :=
  match t with
  | [] => Some []
  | [] :: _ => None
  | (c :: _) :: rest => option_map (cons c) (first_cells rest)
  end.

Fixpoint distinct (ks : list K) : bool :=
  match ks with
  | [] => true
  | k :: t => negb (existsb (keqb k) t) && distinct t
  end.
End Table.

(* pi is a permutation of 0..n-1 *)
Definition is_perm (pi : list nat) (n : nat) : bool :=
  (length pi =? n) && forallb (fun j => existsb (Nat.eqb j) pi) (seq 0 n).

(* [l'] is [l] with its first |pi| positions re-ordered by pi (position i of l' holds what
   position pi[i] of l holds, missing cells staying missing), anything beyond unchanged in place *)
Definition reordered {T} (teqb : T -> T -> bool) (pi : list nat) (l l' : list T) : bool :=
  let oeqb a b := match a, b with
                  | Some x, Some y => teqb x y
                  | None, None => true
                  | _, _ => false
                  end in
  forallb (fun ij => oeqb (nth_error l' (fst ij)) (nth_error l (snd ij)))
          (combine (seq 0 (length pi)) pi).

(* what a rectangular-range reader (openpyxl) presents for a written table whose cells are
   all non-empty: every row padded with the blank cell to the widest row *)
Definition rect_view {C} (blank : C) (t : list (list C)) : list (list C) :=
  let w := fold_right (fun r m => Nat.max (length r) m) 0 t in
  map (fun r => r ++ repeat blank (w - length r)) t.
