(* A whole copybook as the specification sees it, and its printing as reference-format text.  Used by property C07
   (engine C07b): the statement "the text of a copybook is turned into the documents its entries call for" needs a
   notion of copybook, of its text, and of the entries a correct reader recovers from that text.  Nothing here
   looks at the parser: the pieces are the printers of Spec/Clauses.v (one entry, every spelling) and
   Spec/RefFormat.v (level number, clause text, period, white space), plus the card layout of the reference format.

     centry            one data description entry: two level digits, its clauses and their spelling (Spec/Clauses.v),
                       the white space before the level number, between level number and clause text, after the period
     code_text         the entries one after the other: what stands in the code areas (columns 8-72), line feeds included
     print_copybook    the code text cut at its line feeds, every line behind a sequence area (columns 1-6, any six
                       characters) and a blank indicator (column 7)
     layout_ok         the card layout is one the reference format allows AND the parser reads as intended: sequence areas
                       of six characters, code lines of at most 64 characters plus the line feed, no blank code line, no line
                       that is a listing directive or a COPY statement
     spec_entry        the fields of the entry a correct reader recovers: level, data name / FILLER, REDEFINES target,
                       presence of PICTURE and OCCURS, the clause text with single blanks (from [expected], the dictionary of
                       Spec/Clauses.v)
   Strings are lists of code points. *)
From Coq Require Import NArith List Bool Arith.
Import ListNotations.
Require Import SR.Model.RefFormat SR.Spec.RefFormat SR.Spec.Clauses.
Open Scope N_scope.

Record centry := {
  ce_d1 : N; ce_d2 : N;                   (* the level number, two ASCII digits *)
  ce_cs : list clause; ce_sps : spelling; (* the clauses and how they are spelled *)
  ce_lead : line;                         (* white space before the level number (indentation, line feeds) *)
  ce_gap : line;                          (* white space between the level number and the clause text *)
  ce_term : N                             (* the white-space character after the period *)
}.

Definition ce_body (e : centry) : line := print_items (ce_cs e) (ce_sps e).

Definition ce_print (e : centry) : SR.Spec.RefFormat.entry :=
  {| e_lead := ce_lead e; e_d1 := ce_d1 e; e_d2 := ce_d2 e; e_gap := ce_gap e; e_body := ce_body e; e_term := ce_term e |}.

Definition code_text (es : list centry) (tail : line) : line := concat (map (fun e => print_entry (ce_print e)) es) ++ tail.

(* a text cut after every line feed; cur = the current line, reversed *)
Fixpoint cut_go (cur : line) (s : line) : list line :=
  match s with
  | [] => match cur with [] => [] | _ :: _ => [rev cur] end
  | c :: t => if c =? 10 then rev (c :: cur) :: cut_go [] t else cut_go (c :: cur) t
  end.
Definition cut_lines (s : line) : list line := cut_go [] s.

Definition blank6 : line := [32; 32; 32; 32; 32; 32].

(* every code line behind its sequence area and a blank indicator; missing sequence areas are blank *)
Fixpoint cards_of (seqs : list line) (ls : list line) : list line :=
  match ls with
  | [] => []
  | l :: r => (hd blank6 seqs ++ 32 :: l) :: cards_of (tl seqs) r
  end.

Definition print_cards (seqs : list line) (code : line) : line := concat (cards_of seqs (cut_lines code)).

Definition print_copybook (es : list centry) (tail : line) (seqs : list line) : line := print_cards seqs (code_text es tail).

(* ---- the layout domain ---- *)
Definition seq_ok (s : line) : bool := Nat.eqb (length s) 6 && forallb (fun c => negb (c =? 10)) s.

Definition code_line_ok (l : line) : bool :=
  (length l <=? 65)%nat && negb (forallb is_ws l) && negb (starts_copy l).

Fixpoint layout_lines_ok (seqs : list line) (ls : list line) : bool :=
  match ls with
  | [] => true
  | l :: r => seq_ok (hd blank6 seqs) && code_line_ok l
              && negb (directive_word (strip (hd blank6 seqs ++ 32 :: l)))
              && negb (directive_word (strip l))
              && layout_lines_ok (tl seqs) r
  end.

Definition layout_ok (seqs : list line) (code : line) : bool :=
  negb (forallb is_ws code) && layout_lines_ok seqs (cut_lines code).

(* ---- the entries of the copybook ---- *)
Definition ce_wf (e : centry) : bool := wf_entry (ce_print e).

(* what a correct reader recovers from one entry: (level, name, filler, redefines, picture?, occurs?, compact text) and the
   clause values the schema needs *)
Definition ce_dict (e : centry) : dict := expected (ce_cs e) (ce_sps e).
Definition has_some {T : Type} (o : option T) : bool := match o with Some _ => true | None => false end.
Definition has (k : N) (d : dict) : bool := match lookup k d with Some _ => true | None => false end.

Require SR.Model.Structure SR.Model.Pipeline SR.Spec.Dde.

Definition spec_entry (e : centry) : SR.Model.Structure.entry :=
  let d := ce_dict e in
  {| SR.Model.Structure.elv := (ce_d1 e, ce_d2 e);
     SR.Model.Structure.ename := lookup 14 d;
     SR.Model.Structure.efill := lookup 13 d;
     SR.Model.Structure.eredef := lookup 0 d;
     SR.Model.Structure.epic := has 7 d;
     SR.Model.Structure.eocc := has 6 d || has 4 d;
     SR.Model.Structure.etext := compact (ce_body e) |}.

Definition spec_info (e : centry) : SR.Model.Pipeline.info :=
  let d := ce_dict e in
  {| SR.Model.Pipeline.i_entry := spec_entry e; SR.Model.Pipeline.i_usage := lookup 11 d; SR.Model.Pipeline.i_pic := lookup 7 d;
     SR.Model.Pipeline.i_occ := lookup 6 d; SR.Model.Pipeline.i_dep := lookup 5 d |}.

(* the entry is in the domain of the clause-recogniser theorem, and its picture (when it has one) is one the
   generator-side picture scanner accepts (C13's subject) *)
Definition pic_accepted (e : centry) : bool :=
  match lookup 7 (ce_dict e) with
  | None => true
  | Some p => match SR.Model.Picture.gen_normalize p with Some (Res.Ok _) => true | _ => false end
  end.

Definition ce_ok (e : centry) : bool := printable (ce_cs e) (ce_sps e) && pic_accepted e && ce_wf e.

(* the whole domain of the text-to-entries theorem *)
Definition copybook_ok (es : list centry) (tail : line) (seqs : list line) : bool :=
  forallb ce_ok es && forallb is_ws tail && layout_ok seqs (code_text es tail).

(* ---- the documents a copybook calls for ----
   One document per tree of the forest, one node per kept entry, nested as the entries nest, children in source order
   under the key of their (generated) name: title = the data name, anchor = the unique name, cobol = level and clause
   text.  What an elementary item says about its TYPE and SIZE is the business of properties C08 and C04: here the type
   keywords are json_type of the entry's usage and picture and the size is the decoder's calcsize of its cobol text
   (Model/Pipeline.v json_type_kvs, calcsize_text).  No REDEFINES here: the oneOf construction is not specified by this
   function (see C07b_end_to_end_full). *)
Import SR.Model.Pipeline.

Fixpoint jset (key : SR.Model.Pipeline.str) (v : jdoc) (l : list (SR.Model.Pipeline.str * jdoc)) : list (SR.Model.Pipeline.str * jdoc) :=
  match l with
  | [] => [(key, v)]
  | (k, old) :: r => if SR.Model.Structure.str_eqb k key then (k, v) :: r else (k, old) :: jset key v r
  end.

Definition jstrs (l : list (SR.Model.Pipeline.str * SR.Model.Pipeline.str)) : list (SR.Model.Pipeline.str * jdoc) :=
  map (fun kv => (fst kv, JStr (snd kv))) l.

Definition max_items_doc (x : info) : R (SR.Model.Pipeline.str * jdoc) :=
  match i_dep x with
  | Some dep => ROk (k_maxItemsDependsOn, JObj [(k_ref, JStr (35 :: dep))])
  | None =>
      match i_occ x with
      | Some ds => ROk (k_maxItems, JInt (SR.Model.Picture.count_value ds))
      | None => RErr Res.TypeError
      end
  end.

Fixpoint doc_of (t : xtree) : R jdoc :=
  match t with
  | XNode d _ x kids =>
      let name := SR.Model.Structure.dde_name (SR.Model.Structure.de d) in
      let un := SR.Model.Structure.du d in
      let cobol := SR.Model.Structure.cobol_of d in
      if SR.Model.Structure.eocc (SR.Model.Structure.de d) then
        rbind (max_items_doc x) (fun mx =>
        if SR.Model.Structure.epic (SR.Model.Structure.de d) then
          rbind (json_type_kvs x) (fun jt =>
          ROk (JObj (jstrs [(k_title, name); (k_cobol, cobol); (k_type, v_array)]
                     ++ [(k_items, JObj [(k_type, JStr v_object);
                                         (k_properties, JObj [(un, JObj (jstrs ([(k_anchor, un); (k_cobol, cobol)] ++ jt)))])]);
                         mx])))
        else
          rbind (docs_kids kids []) (fun props =>
          ROk (JObj (jstrs [(k_title, name); (k_cobol, cobol); (k_type, v_array)]
                     ++ [(k_items, JObj [(k_type, JStr v_object); (k_properties, JObj props)]); mx; (k_anchor, JStr un)]))))
      else
        match kids with
        | XCons _ _ =>
            rbind (docs_kids kids []) (fun props =>
            ROk (JObj (jstrs [(k_title, name); (k_anchor, un); (k_cobol, cobol); (k_type, v_object)]
                       ++ [(k_properties, JObj props)])))
        | XNil =>
            rbind (json_type_kvs x) (fun jt =>
            rbind (calcsize_text cobol) (fun n =>
            ROk (JObj (jstrs ([(k_title, name); (k_anchor, un); (k_cobol, cobol)] ++ jt)
                       ++ [(k_maxLength, JInt n); (k_minLength, JInt n)]))))
        end
  end
with docs_kids (ks : xforest) (acc : list (SR.Model.Pipeline.str * jdoc)) : R (list (SR.Model.Pipeline.str * jdoc)) :=
  match ks with
  | XNil => ROk acc
  | XCons k r => rbind (doc_of k) (fun dk => docs_kids r (jset (SR.Model.Structure.du (xdde k)) dk acc))
  end.

Fixpoint docs_of (f : list xtree) : R (list jdoc) :=
  match f with
  | [] => ROk []
  | t :: f' => rbind (doc_of t) (fun doc => rbind (docs_of f') (fun r => ROk (doc :: r)))
  end.

(* no node of the tree carries a redefines clause (its own, or the mark structure() leaves on a redefined item) *)
Fixpoint noredef (t : xtree) : bool :=
  match t with
  | XNode d b x kids => negb b && negb (has_some (SR.Model.Structure.eredef (SR.Model.Structure.de d))) && noredef_f kids
  end
with noredef_f (ks : xforest) : bool :=
  match ks with
  | XNil => true
  | XCons k r => noredef k && noredef_f r
  end.

Fixpoint jfind (key : SR.Model.Pipeline.str) (kvs : list (SR.Model.Pipeline.str * jdoc)) : option jdoc :=
  match kvs with
  | [] => None
  | (k, v) :: r => if SR.Model.Structure.str_eqb k key then Some v else jfind key r
  end.

(* ---- the documents with REDEFINES ----
   A redefined item and its redefiners (clauses.get(redefines): structure() also marks the redefined item) are gathered in
   one property REDEFINES-x of their group - an object holding the oneOf list of their full definitions and the anchor
   REDEFINES-x - inserted where the first of them stands; each of them keeps its own property, a placeholder with title,
   cobol and a reference to its anchor.  Under an OCCURS group this construction is not available: KeyError (known finding
   C07-K2).  This is what the schema maker does when no item is named like one of its ancestors and no name starts with
   REDEFINES- (names_wf); NOT proved equal to the model (C07b_end_to_end_full), compared with the real code on every
   copybook of the strict stream. *)
Definition oneof_new (key : SR.Model.Pipeline.str) : jdoc := JObj [(k_oneOf, JArr []); (k_anchor, JStr key)].

Definition oneof_add (key : SR.Model.Pipeline.str) (dk : jdoc) (acc : list (SR.Model.Pipeline.str * jdoc))
  : R (list (SR.Model.Pipeline.str * jdoc)) :=
  match jfind key acc with
  | None => RErr Res.KeyError
  | Some (JObj kvs) =>
      match jfind k_oneOf kvs with
      | Some (JArr l) => ROk (jset key (JObj (jset k_oneOf (JArr (l ++ [dk])) kvs)) acc)
      | Some _ => RErr Res.AttributeError
      | None => RErr Res.KeyError
      end
  | Some _ => RErr Res.TypeError
  end.

Definition placeholder (k : xtree) : jdoc :=
  JObj [(k_title, JStr (SR.Model.Structure.dde_name (SR.Model.Structure.de (xdde k))));
        (k_cobol, JStr (SR.Model.Structure.cobol_of (xdde k)));
        (k_ref, JStr (35 :: SR.Model.Structure.du (xdde k)))].

Fixpoint doc_r (t : xtree) : R jdoc :=
  match t with
  | XNode d _ x kids =>
      let name := SR.Model.Structure.dde_name (SR.Model.Structure.de d) in
      let un := SR.Model.Structure.du d in
      let cobol := SR.Model.Structure.cobol_of d in
      if SR.Model.Structure.eocc (SR.Model.Structure.de d) then
        rbind (max_items_doc x) (fun mx =>
        if SR.Model.Structure.epic (SR.Model.Structure.de d) then
          rbind (json_type_kvs x) (fun jt =>
          ROk (JObj (jstrs [(k_title, name); (k_cobol, cobol); (k_type, v_array)]
                     ++ [(k_items, JObj [(k_type, JStr v_object);
                                         (k_properties, JObj [(un, JObj (jstrs ([(k_anchor, un); (k_cobol, cobol)] ++ jt)))])]);
                         mx])))
        else
          rbind (docs_kids_o kids []) (fun props =>
          ROk (JObj (jstrs [(k_title, name); (k_cobol, cobol); (k_type, v_array)]
                     ++ [(k_items, JObj [(k_type, JStr v_object); (k_properties, JObj props)]); mx; (k_anchor, JStr un)]))))
      else
        match kids with
        | XCons _ _ =>
            rbind (docs_kids_r kids []) (fun props =>
            ROk (JObj (jstrs [(k_title, name); (k_anchor, un); (k_cobol, cobol); (k_type, v_object)]
                       ++ [(k_properties, JObj props)])))
        | XNil =>
            rbind (json_type_kvs x) (fun jt =>
            rbind (calcsize_text cobol) (fun n =>
            ROk (JObj (jstrs ([(k_title, name); (k_anchor, un); (k_cobol, cobol)] ++ jt)
                       ++ [(k_maxLength, JInt n); (k_minLength, JInt n)]))))
        end
  end
with docs_kids_r (ks : xforest) (acc : list (SR.Model.Pipeline.str * jdoc)) : R (list (SR.Model.Pipeline.str * jdoc)) :=
  match ks with
  | XNil => ROk acc
  | XCons k r =>
      match xeff_redef k with
      | None => rbind (doc_r k) (fun dk => docs_kids_r r (jset (SR.Model.Structure.du (xdde k)) dk acc))
      | Some tgt =>
          let key := redef_key tgt in
          let acc1 := match jfind key acc with Some _ => acc | None => acc ++ [(key, oneof_new key)] end in
          rbind (doc_r k) (fun dk =>
          rbind (oneof_add key dk acc1) (fun acc2 =>
          docs_kids_r r (jset (SR.Model.Structure.du (xdde k)) (placeholder k) acc2)))
      end
  end
with docs_kids_o (ks : xforest) (acc : list (SR.Model.Pipeline.str * jdoc)) : R (list (SR.Model.Pipeline.str * jdoc)) :=
  match ks with
  | XNil => ROk acc
  | XCons k r =>
      match xeff_redef k with
      | Some _ => RErr Res.KeyError
      | None => rbind (doc_r k) (fun dk => docs_kids_o r (jset (SR.Model.Structure.du (xdde k)) dk acc))
      end
  end.

Fixpoint docs_r (f : list xtree) : R (list jdoc) :=
  match f with
  | [] => ROk []
  | t :: f' => rbind (doc_r t) (fun doc => rbind (docs_r f') (fun r => ROk (doc :: r)))
  end.

(* no item is named like one of its ancestors; no unique name starts with REDEFINES- *)
Fixpoint is_pre (p s : SR.Model.Pipeline.str) : bool :=
  match p, s with
  | [], _ => true
  | x :: p', y :: s' => (x =? y) && is_pre p' s'
  | _ :: _, [] => false
  end.

Fixpoint names_wf (anc : list SR.Model.Pipeline.str) (t : xtree) : bool :=
  match t with
  | XNode d _ _ kids =>
      negb (existsb (SR.Model.Structure.str_eqb (SR.Model.Structure.du d)) anc)
      && negb (is_pre SR.Model.Structure.REDEFINES_dash (SR.Model.Structure.du d))
      && names_wf_f (SR.Model.Structure.du d :: anc) kids
  end
with names_wf_f (anc : list SR.Model.Pipeline.str) (ks : xforest) : bool :=
  match ks with
  | XNil => true
  | XCons k r => names_wf anc k && names_wf_f anc r
  end.

(* ---- vocabulary of the C07b theorem statements ---- *)
(* no entry carries a REDEFINES clause *)
Definition no_redefines (es : list centry) : bool := forallb (fun e => negb (has 0 (ce_dict e))) es.

(* level numbers written with ASCII digits (the reader accepts every Unicode decimal digit) *)
Definition levels_ascii (es : list centry) : bool := forallb (fun e => SR.Spec.Dde.two_digits (ce_d1 e, ce_d2 e)) es.

(* the entries a document defines, in document order: (title, cobol) of every object that has a title and is not a
   reference placeholder; the oneOf wrapper of a REDEFINES and the inner item of an elementary OCCURS have no title *)
Fixpoint defs (d : jdoc) : list (SR.Model.Pipeline.str * SR.Model.Pipeline.str) :=
  match d with
  | JObj kvs =>
      (match jfind k_title kvs, jfind k_cobol kvs, jfind k_ref kvs with
       | Some (JStr t), Some (JStr c), None => [(t, c)]
       | _, _, _ => []
       end) ++ flat_map (fun kv => defs (snd kv)) kvs
  | JArr l => flat_map defs l
  | _ => []
  end.

(* a document without its cobol keywords (the only keyword that shows how the entry was spelled) *)
Fixpoint strip_cobol (d : jdoc) : jdoc :=
  match d with
  | JObj kvs => JObj (flat_map (fun kv => if SR.Model.Structure.str_eqb (fst kv) k_cobol then []
                                         else [(fst kv, strip_cobol (snd kv))]) kvs)
  | JArr l => JArr (map strip_cobol l)
  | _ => d
  end.

Definition strip_outcome (o : outcome) : outcome :=
  match o with
  | Done (Res.Ok docs) => Done (Res.Ok (map strip_cobol docs))
  | _ => o
  end.

(* ---- the domain of the respelling theorem ---- *)
(* the word FILLER is written in upper case (DDE naming compares with the upper-case word) *)
Definition filler_exact (e : centry) : bool :=
  match lookup 13 (ce_dict e) with Some f => SR.Spec.Clauses.str_eqb f K_FILLER | None => true end.

(* what the decoder's second parse (estruct, on level number + compact clause text) ends up with *)
Fixpoint last_usage (l : list est_item) (u : N) : N :=
  match l with [] => u | EUsage v :: r => last_usage r v | EPicture _ :: r => last_usage r u end.
Fixpoint last_pic (l : list est_item) (p : option SR.Model.Pipeline.str) : option SR.Model.Pipeline.str :=
  match l with [] => p | EPicture q :: r => last_pic r (Some q) | EUsage _ :: r => last_pic r p end.
Fixpoint count_pic (l : list est_item) : nat :=
  match l with [] => O | EPicture _ :: r => S (count_pic r) | EUsage _ :: r => count_pic r end.

(* ... is the entry's own USAGE and PICTURE: no usage word or PIC inside a VALUE literal, the reserved words PIC / PICTURE /
   USAGE / IS and the usage word in upper case (the decoder's pattern is case-sensitive).  The DATA NAME is no part of this any
   more: since the repair of estruct.clause_pattern (word boundaries; the fixed entry of finding K-name-contains-usage) a usage
   word or PIC inside a data name is not matched, and Props/C04e.v C04e_domain_is_about_clauses proves that reparse_agrees of a
   printed entry does not depend on its name at all.  With the pattern as it was (Model/Pipeline.v est_bounds_old) the same
   definition excluded EMP-COMPANY, WS-COMP-DATE, TOT-BINARY-CT ... (C04e_name_with_usage_word_old_refuted). *)
Definition reparse_agrees (e : centry) : bool :=
  let items := est_items ([ce_d1 e; ce_d2 e; 32] ++ compact (ce_body e)) in
  (count_pic items <=? 1)%nat && (last_usage items usage_DISPLAY =? usage_number (spec_info e))
  && optstr_eqb (last_pic items None) (i_pic (spec_info e)).

Definition respelling_domain (e : centry) : bool := filler_exact e && reparse_agrees e.
