(* Spec/Counters.v - C06 with the counters that occur in practice: what it means, in terms of the specification's
   ENCODERS only (Spec/Encode.v: enc_zoned, enc_packed, enc_be), that a field of a record holds a number, and that a record
   carries a count vector.  DEFINITIONS ONLY; no decoder and no model function appears here (Model/Layout.v is imported
   for redef_targets through Spec/OdoWf.member only, as Spec/OdoWf.v itself does).

     stores_zoned_z  bs z   bs is the zoned-decimal image of 1..28 digits with ANY valid sign zone (C F A E positive,
                            D B negative) whose signed value is z               - PIC S9(k) [DISPLAY]
     stores_packed_z bs z   bs is the packed-decimal image of 0..28 digits with any valid sign nibble, value z
                                                                                - PIC S9(k) COMP-3 / PACKED-DECIMAL
     stores_binary_z d bs z bs is the big-endian two's-complement image of z in the 2 / 4 / 8 bytes a picture of d digit
                            positions takes (1-4 / 5-9 / 10-18)                 - PIC S9(d) COMP / BINARY
   A COUNT k (a natural number) is stored when the signed value is k: stores_*_count.

     counters_stored_by stores e t r   flat family of Props/C06.v: the bytes the specification assigns to each counter
                                       a table names are an image of e(counter)  (Spec/ZonedCounter.counters_stored is
                                       the instance stores := stores_count)
     odo_counters t                    every counter an OCCURS DEPENDING ON clause of the description names
     Stored stores cs r e t st         general family of C06_layout: as Spec/OdoWf.Holds, with the encoder in the place
                                       of the decoder and ONLY at the items in cs (the counters); the other non-repeated
                                       elementary items may hold anything *)
From Coq Require Import List Arith NArith ZArith Bool.
Import ListNotations.
Require Import SR.Base.Dec SR.Spec.Encode SR.Spec.Layout SR.Spec.OdoStream SR.Spec.LayoutWf SR.Spec.OdoWf.

Definition signed_value (s : N) (ds : list N) : Z :=
  if is_neg_sign s then (- Z.of_N (val ds))%Z else Z.of_N (val ds).

Definition stores_zoned_z (bs : list N) (z : Z) : Prop :=
  exists (ds : list N) (s : N),
    ds <> [] /\ forallb is_digit ds = true /\ (length ds <= 28)%nat /\ valid_sign s = true
    /\ bs = enc_zoned ds s /\ z = signed_value s ds.

Definition stores_packed_z (bs : list N) (z : Z) : Prop :=
  exists (ds : list N) (s : N),
    forallb is_digit ds = true /\ (length ds <= 28)%nat /\ valid_sign s = true
    /\ bs = enc_packed ds s /\ z = signed_value s ds.

Definition stores_binary_z (d : nat) (bs : list N) (z : Z) : Prop :=
  exists (w : nat),
    spec_binary_width d = Some w
    /\ (- 2 ^ (8 * Z.of_nat w - 1) <= z < 2 ^ (8 * Z.of_nat w - 1))%Z
    /\ bs = enc_be w z.

Definition stores_zoned_count (bs : list N) (k : nat) : Prop := stores_zoned_z bs (Z.of_nat k).
Definition stores_packed_count (bs : list N) (k : nat) : Prop := stores_packed_z bs (Z.of_nat k).
Definition stores_binary_count (d : nat) (bs : list N) (k : nat) : Prop := stores_binary_z d bs (Z.of_nat k).

(* a counter decoder returns what the encoder side says is stored: the hypothesis under which the theorems of
   Props/C06.v are instantiated (proved for the three decoders of Model/Counters.v in Props/C06e.v) *)
Definition decodes_stored (dc : list N -> nat) (stores : list N -> nat -> Prop) : Prop :=
  forall bs k, stores bs k -> dc bs = k.

(* ---- the flat family (Spec/OdoStream.v): every counter a table names *)
Definition counters_stored_by (stores : list N -> nat -> Prop) (e : env) (t : item) (r : list N) : Prop :=
  match t with
  | Group _ _ _ kids =>
      forall c sz o, In c (counters_of kids) ->
        find_kid kids c = Some (Elem c sz Once None) -> kid_start e kids c = Some o ->
        stores (slice r o (o + sz)) (e c)
  | Elem _ _ _ _ => True
  end.

(* ---- the general family (Spec/OdoWf.v) *)
Definition oc_counter (o : occ) : list id := match o with Odo c => [c] | _ => [] end.

Fixpoint odo_counters (x : item) : list id :=
  oc_counter (item_oc x) ++ match x with Elem _ _ _ _ => [] | Group _ _ _ ks => odo_counters_kids ks end
with odo_counters_kids (ks : items) : list id :=
  match ks with INil => [] | ICons x xs => odo_counters x ++ odo_counters_kids xs end.

Section Stored.
  Variable stores : list N -> nat -> Prop.
  Variable cs : list id.               (* the counters: odo_counters of the record description *)
  Variable r : list N.
  Variable e : env.

  Fixpoint Stored (x : item) (st : nat) {struct x} : Prop :=
    match x with
    | Elem i sz Once _ => In i cs -> stores (slice r st (st + sz)) (e i)
    | Group _ Once _ ks => StoredKids (kid_starts e ks st []) ks
    | _ => True
    end
  with StoredKids (starts : list (id * nat)) (ks : items) {struct ks} : Prop :=
    match ks with
    | INil => True
    | ICons x xs =>
        (if member x xs then True else exists o, assoc (item_id x) starts = Some o /\ Stored x o)
        /\ StoredKids starts xs
    end.
End Stored.

(* ---- the declared maximum of OCCURS m TO n DEPENDING ON c.  Neither Spec/Layout.v nor the schema the code builds
   carries it (cobol_parser emits maxItemsDependsOn only), so it enters the statements as an arbitrary function of the
   table's name; above_maximum says that some table of the description is asked for more elements than it declares. *)
Fixpoint tables_of (x : item) : list (id * id) :=
  (match item_oc x with Odo c => [(item_id x, c)] | _ => [] end)
  ++ match x with Elem _ _ _ _ => [] | Group _ _ _ ks => tables_of_kids ks end
with tables_of_kids (ks : items) : list (id * id) :=
  match ks with INil => [] | ICons x xs => tables_of x ++ tables_of_kids xs end.

Definition above_maximum (declared_max : id -> nat) (e : env) (t : item) : Prop :=
  exists tab c, In (tab, c) (tables_of t) /\ (declared_max tab < e c)%nat.
