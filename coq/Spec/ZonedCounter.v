(* C06 with the real counter decoder: what it means, in terms of the specification's encoder only, that a
   record of bytes carries the count vector e.  The bytes the specification assigns to each counter are the
   zoned-decimal image (Spec/Encode.v, enc_zoned) of a digit string whose value is e(counter), with one of
   the four positive sign zones (F = unsigned, C, A, E).  No decoder appears here. *)
From Coq Require Import List Arith NArith Bool.
Import ListNotations.
Require Import SR.Base.Dec SR.Spec.Encode SR.Spec.Layout SR.Spec.OdoStream.

(* the field [bs] stores the count [k] *)
Definition stores_count (bs : list N) (k : nat) : Prop :=
  exists (ds : list N) (z : N),
    ds <> [] /\ forallb is_digit ds = true /\ (length ds <= 28)%nat /\ In z pos_signs
    /\ bs = enc_zoned ds z /\ N.to_nat (val ds) = k.

(* the flat family of C06_layout_flat / C06_stream_*: every counter a table names *)
Definition counters_stored (e : env) (t : item) (r : list N) : Prop :=
  match t with
  | Group _ _ _ kids =>
      forall c sz o, In c (counters_of kids) ->
        find_kid kids c = Some (Elem c sz Once None) -> kid_start e kids c = Some o ->
        stores_count (slice r o (o + sz)) (e c)
  | Elem _ _ _ _ => True
  end.
