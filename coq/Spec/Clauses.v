(* What properties C07 and C12 demand of the clause recogniser, written from the COBOL data description entry
   grammar and the property text, not from the regular expression.

   An entry (without its level number and final period) is a list of clauses; the data name (or the word FILLER)
   counts as a clause that comes first when it is there.  A SPELLING of an entry fixes everything the property
   calls meaning-preserving:
     - the order of the clauses (the list order; the data name stays first);
     - the optional words IS, TIMES, USAGE, ON, WHEN, KEY, BY, SIGN, CHARACTER;
     - the synonyms PIC|PICTURE, JUST|JUSTIFIED, SYNC|SYNCHRONIZED, ZERO|ZEROS|ZEROES and the spellings of a usage
       family (COMP|COMPUTATIONAL|BINARY|COMP-4|COMPUTATIONAL-4, COMP-3|COMPUTATIONAL-3|PACKED-DECIMAL, ...);
     - the separator at every joint: one or more blanks / tabs / line breaks, or a comma or semicolon followed by
       one or more of those;
     - the letter case of every letter of every reserved word (a mask of booleans per word: true = lower case).
   [print_items] prints an entry in a spelling; [expected] is the clause dictionary a correct recogniser returns
   for that printing, with the texts exactly as written; [abstract] is the spelling-independent content;
   [normal] maps an as-written dictionary to its content (upper case, usage family, inner spacing dropped).

   Keys of a dictionary: 0 redefines, 1 blank, 2 justified, 3 odo_minitems, 4 odo_maxitems, 5 depending_on,
   6 occurs_maxitems, 7 picture, 8 sign, 9 sign_sep, 10 synch, 11 usage, 12 value, 13 filler, 14 name.
   EXTERNAL, GLOBAL, JUSTIFIED without RIGHT, SYNCHRONIZED without a side and the KEY / INDEXED BY phrases have
   no key: the dictionary has nothing to say about them. *)
From Coq Require Import NArith List Bool.
Import ListNotations.
Open Scope N_scope.

Definition str := list N.

(* ---------------------------------------------------------------- reserved words *)
Definition K_REDEFINES : str := [82; 69; 68; 69; 70; 73; 78; 69; 83].
Definition K_BLANK : str := [66; 76; 65; 78; 75].
Definition K_WHEN : str := [87; 72; 69; 78].
Definition K_ZERO : str := [90; 69; 82; 79].
Definition K_ZEROS : str := [90; 69; 82; 79; 83].
Definition K_ZEROES : str := [90; 69; 82; 79; 69; 83].
Definition K_EXTERNAL : str := [69; 88; 84; 69; 82; 78; 65; 76].
Definition K_GLOBAL : str := [71; 76; 79; 66; 65; 76].
Definition K_JUSTIFIED : str := [74; 85; 83; 84; 73; 70; 73; 69; 68].
Definition K_JUST : str := [74; 85; 83; 84].
Definition K_RIGHT : str := [82; 73; 71; 72; 84].
Definition K_LEFT : str := [76; 69; 70; 84].
Definition K_OCCURS : str := [79; 67; 67; 85; 82; 83].
Definition K_TO : str := [84; 79].
Definition K_TIMES : str := [84; 73; 77; 69; 83].
Definition K_DEPENDING : str := [68; 69; 80; 69; 78; 68; 73; 78; 71].
Definition K_ON : str := [79; 78].
Definition K_PIC : str := [80; 73; 67].
Definition K_PICTURE : str := [80; 73; 67; 84; 85; 82; 69].
Definition K_IS : str := [73; 83].
Definition K_SIGN : str := [83; 73; 71; 78].
Definition K_LEADING : str := [76; 69; 65; 68; 73; 78; 71].
Definition K_TRAILING : str := [84; 82; 65; 73; 76; 73; 78; 71].
Definition K_SEPARATE : str := [83; 69; 80; 65; 82; 65; 84; 69].
Definition K_CHARACTER : str := [67; 72; 65; 82; 65; 67; 84; 69; 82].
Definition K_SYNCHRONIZED : str := [83; 89; 78; 67; 72; 82; 79; 78; 73; 90; 69; 68].
Definition K_SYNC : str := [83; 89; 78; 67].
Definition K_USAGE : str := [85; 83; 65; 71; 69].
Definition K_VALUE : str := [86; 65; 76; 85; 69].
Definition K_FILLER : str := [70; 73; 76; 76; 69; 82].
Definition K_ASCENDING : str := [65; 83; 67; 69; 78; 68; 73; 78; 71].
Definition K_DESCENDING : str := [68; 69; 83; 67; 69; 78; 68; 73; 78; 71].
Definition K_KEY : str := [75; 69; 89].
Definition K_INDEXED : str := [73; 78; 68; 69; 88; 69; 68].
Definition K_BY : str := [66; 89].
Definition K_BINARY : str := [66; 73; 78; 65; 82; 89].
Definition K_COMPUTATIONAL : str := [67; 79; 77; 80; 85; 84; 65; 84; 73; 79; 78; 65; 76].
Definition K_COMP : str := [67; 79; 77; 80].
Definition K_DISPLAY : str := [68; 73; 83; 80; 76; 65; 89].
Definition K_PACKED_DECIMAL : str := [80; 65; 67; 75; 69; 68; 45; 68; 69; 67; 73; 77; 65; 76].
Definition K_COMP_1 : str := [67; 79; 77; 80; 45; 49].
Definition K_COMP_2 : str := [67; 79; 77; 80; 45; 50].
Definition K_COMP_3 : str := [67; 79; 77; 80; 45; 51].
Definition K_COMP_4 : str := [67; 79; 77; 80; 45; 52].
Definition K_COMPUTATIONAL_1 : str := [67; 79; 77; 80; 85; 84; 65; 84; 73; 79; 78; 65; 76; 45; 49].
Definition K_COMPUTATIONAL_2 : str := [67; 79; 77; 80; 85; 84; 65; 84; 73; 79; 78; 65; 76; 45; 50].
Definition K_COMPUTATIONAL_3 : str := [67; 79; 77; 80; 85; 84; 65; 84; 73; 79; 78; 65; 76; 45; 51].
Definition K_COMPUTATIONAL_4 : str := [67; 79; 77; 80; 85; 84; 65; 84; 73; 79; 78; 65; 76; 45; 52].

(* the usage families and their spellings; the first spelling of a family stands for the family *)
Definition usage_table : list (list str) :=
  [[K_DISPLAY];
   [K_COMP; K_COMPUTATIONAL; K_BINARY; K_COMP_4; K_COMPUTATIONAL_4];
   [K_COMP_3; K_COMPUTATIONAL_3; K_PACKED_DECIMAL];
   [K_COMP_1; K_COMPUTATIONAL_1];
   [K_COMP_2; K_COMPUTATIONAL_2]].

Definition usage_family (fam : N) : list str := nth (N.to_nat fam) usage_table [K_DISPLAY].
Definition usage_rep (fam : N) : str := hd K_DISPLAY (usage_family fam).
Definition usage_word (fam i : N) : str := nth (N.to_nat i) (usage_family fam) (usage_rep fam).

(* every reserved word of the data description entry that this development knows: none of them is a data name *)
Definition reserved_words : list str :=
  [K_REDEFINES; K_BLANK; K_WHEN; K_ZERO; K_ZEROS; K_ZEROES; K_EXTERNAL; K_GLOBAL; K_JUSTIFIED; K_JUST; K_RIGHT; K_LEFT;
   K_OCCURS; K_TO; K_TIMES; K_DEPENDING; K_ON; K_PIC; K_PICTURE; K_IS; K_SIGN; K_LEADING; K_TRAILING; K_SEPARATE;
   K_CHARACTER; K_SYNCHRONIZED; K_SYNC; K_USAGE; K_VALUE; K_FILLER; K_ASCENDING; K_DESCENDING; K_KEY; K_INDEXED; K_BY;
   K_BINARY; K_COMPUTATIONAL; K_COMP; K_DISPLAY; K_PACKED_DECIMAL; K_COMP_1; K_COMP_2; K_COMP_3; K_COMP_4;
   K_COMPUTATIONAL_1; K_COMPUTATIONAL_2; K_COMPUTATIONAL_3; K_COMPUTATIONAL_4].

(* ---------------------------------------------------------------- characters *)
Definition s_mem (c : N) (l : list N) : bool := existsb (N.eqb c) l.
Definition upper (c : N) : N := if (97 <=? c) && (c <=? 122) then c - 32 else c.
Definition lower (c : N) : N := if (65 <=? c) && (c <=? 90) then c + 32 else c.
Definition is_upper_letter (c : N) : bool := (65 <=? c) && (c <=? 90).
Definition is_lower_letter (c : N) : bool := (97 <=? c) && (c <=? 122).
Definition is_digit (c : N) : bool := (48 <=? c) && (c <=? 57).
(* blank, tab, line feed, carriage return *)
Definition is_blank (c : N) : bool := s_mem c [32; 9; 10; 13].
(* the alphabet of data names: letters, digits, hyphen *)
Definition name_char (c : N) : bool := is_upper_letter c || is_lower_letter c || is_digit c || (c =? 45).

Fixpoint str_eqb (a b : str) : bool :=
  match a, b with
  | [], [] => true
  | x :: a', y :: b' => (x =? y) && str_eqb a' b'
  | _, _ => false
  end.

(* w, a word in upper case, is a prefix of s up to letter case *)
Fixpoint ci_prefix (w s : str) : bool :=
  match w with
  | [] => true
  | x :: w' => match s with [] => false | c :: t => (upper c =? x) && ci_prefix w' t end
  end.
Definition ci_equal (w s : str) : bool := ci_prefix w s && Nat.eqb (length w) (length s).

(* a reserved word in the letter case given by a mask (true = lower case; a short mask is padded with false) *)
Fixpoint cased (m : list bool) (w : str) : str :=
  match w with
  | [] => []
  | c :: w' => (if hd false m then lower c else c) :: cased (tl m) w'
  end.

(* ---------------------------------------------------------------- entries *)
(* the KEY / INDEXED BY phrases of an OCCURS clause *)
Record iphrase := { ip_key : option (bool * str);      (* ascending?, key data name *)
                    ip_idx : list str }.               (* index names *)

Inductive clause :=
| CName (n : str)
| CFiller
| CRedefines (tgt : str)
| COccurs (n : str) (ix : option iphrase)
| COdo (mn : option str) (mx : str) (dep : str) (ix : option iphrase)
| CPicture (p : str)
| CUsage (fam : N)
| CValue (v : str)
| CBlank
| CJust (rt : bool)
| CSync (side : N)                       (* 0 none, 1 LEFT, 2 RIGHT *)
| CSign (leading : bool) (separate : bool)
| CExternal
| CGlobal.

(* clauses of the same kind exclude one another *)
Definition kind (c : clause) : N :=
  match c with
  | CName _ | CFiller => 0 | CRedefines _ => 1 | COccurs _ _ | COdo _ _ _ _ => 2 | CPicture _ => 3 | CUsage _ => 4
  | CValue _ => 5 | CBlank => 6 | CJust _ => 7 | CSync _ => 8 | CSign _ _ => 9 | CExternal => 10 | CGlobal => 11
  end.

(* ---------------------------------------------------------------- spelling *)
(* spelling of one clause: numbered choices (optional words, synonyms), one case mask per reserved word,
   one separator per joint inside the clause; what a clause does not use is ignored *)
Record cspell := { ch : list N; masks : list (list bool); seps : list str }.

Definition chN (sp : cspell) (i : nat) : N := nth i (ch sp) 0.
Definition chb (sp : cspell) (i : nat) : bool := negb (chN sp i =? 0).
Definition kw (sp : cspell) (i : nat) (w : str) : str := cased (nth i (masks sp) []) w.
Definition sep (sp : cspell) (i : nat) : str := nth i (seps sp) [32].

Definition opt (b : bool) (s : str) : str := if b then s else [].

Fixpoint join (s : str) (ws : list str) : str :=
  match ws with
  | [] => []
  | [w] => w
  | w :: r => w ++ s ++ join s r
  end.

Definition print_ix (sp : cspell) (ix : option iphrase) : str :=
  match ix with
  | None => []
  | Some ip =>
      (match ip_key ip with
       | None => []
       | Some (asc, k) =>
           sep sp 7 ++ kw sp 5 (if asc then K_ASCENDING else K_DESCENDING) ++ sep sp 8
           ++ opt (chb sp 2) (kw sp 6 K_KEY ++ sep sp 9) ++ opt (chb sp 3) (kw sp 7 K_IS ++ sep sp 10) ++ k
       end)
      ++ sep sp 11 ++ kw sp 8 K_INDEXED ++ sep sp 12 ++ opt (chb sp 4) (kw sp 9 K_BY ++ sep sp 13)
      ++ join (sep sp 14) (ip_idx ip)
  end.

Definition zero_word (i : N) : str := nth (N.to_nat i) [K_ZERO; K_ZEROS; K_ZEROES] K_ZERO.
Definition pic_word (i : N) : str := nth (N.to_nat i) [K_PIC; K_PICTURE] K_PIC.
Definition just_word (i : N) : str := nth (N.to_nat i) [K_JUSTIFIED; K_JUST] K_JUSTIFIED.
Definition sync_word (i : N) : str := nth (N.to_nat i) [K_SYNCHRONIZED; K_SYNC] K_SYNCHRONIZED.
Definition side_word (side : N) : str := if side =? 1 then K_LEFT else K_RIGHT.
Definition sign_word (leading : bool) : str := if leading then K_LEADING else K_TRAILING.

(* the optional introduction  W [IS]  of the USAGE and SIGN clauses: choice 0 nothing, 1 W, 2 W IS *)
Definition intro (sp : cspell) (w : str) : str :=
  match chN sp 0 with
  | 0 => []
  | 1 => kw sp 0 w ++ sep sp 0
  | _ => kw sp 0 w ++ sep sp 0 ++ kw sp 1 K_IS ++ sep sp 1
  end.

(* the text of the sign_sep part: separator SEPARATE [separator CHARACTER] *)
Definition separate_text (sp : cspell) : str :=
  sep sp 2 ++ kw sp 3 K_SEPARATE ++ opt (chb sp 1) (sep sp 3 ++ kw sp 4 K_CHARACTER).

Definition side_text (sp : cspell) (side : N) : str := sep sp 0 ++ kw sp 1 (side_word side).

Definition print_clause (c : clause) (sp : cspell) : str :=
  match c with
  | CName n => n
  | CFiller => kw sp 0 K_FILLER
  | CRedefines t => kw sp 0 K_REDEFINES ++ sep sp 0 ++ t
  | COccurs n ix => kw sp 0 K_OCCURS ++ sep sp 0 ++ n ++ opt (chb sp 0) (sep sp 1 ++ kw sp 1 K_TIMES) ++ print_ix sp ix
  | COdo mn mx dep ix =>
      kw sp 0 K_OCCURS ++ sep sp 0
      ++ (match mn with Some m => m ++ sep sp 1 ++ kw sp 1 K_TO ++ sep sp 2 | None => [] end)
      ++ mx ++ opt (chb sp 0) (sep sp 3 ++ kw sp 2 K_TIMES)
      ++ sep sp 4 ++ kw sp 3 K_DEPENDING ++ sep sp 5 ++ opt (chb sp 1) (kw sp 4 K_ON ++ sep sp 6) ++ dep
      ++ print_ix sp ix
  | CPicture p => kw sp 0 (pic_word (chN sp 0)) ++ sep sp 0 ++ opt (chb sp 1) (kw sp 1 K_IS ++ sep sp 1) ++ p
  | CUsage fam => intro sp K_USAGE ++ kw sp 2 (usage_word fam (chN sp 1))
  | CValue v => kw sp 0 K_VALUE ++ sep sp 0 ++ opt (chb sp 0) (kw sp 1 K_IS ++ sep sp 1) ++ v
  | CBlank => kw sp 0 K_BLANK ++ sep sp 0 ++ opt (chb sp 0) (kw sp 1 K_WHEN ++ sep sp 1) ++ kw sp 2 (zero_word (chN sp 1))
  | CJust rt => kw sp 0 (just_word (chN sp 0)) ++ opt rt (sep sp 0 ++ kw sp 1 K_RIGHT)
  | CSync side => kw sp 0 (sync_word (chN sp 0)) ++ opt (negb (side =? 0)) (side_text sp side)
  | CSign leading separate => intro sp K_SIGN ++ kw sp 2 (sign_word leading) ++ opt separate (separate_text sp)
  | CExternal => kw sp 0 K_EXTERNAL
  | CGlobal => kw sp 0 K_GLOBAL
  end.

(* spelling of an entry: per clause its own spelling and the separator written after it (after the last
   clause: what stands between it and the final period, normally nothing) *)
Definition spelling := list (cspell * str).
Definition sp_default : cspell * str := ({| ch := []; masks := []; seps := [] |}, [32]).

Fixpoint print_items (cs : list clause) (sps : spelling) : str :=
  match cs with
  | [] => []
  | c :: cs' => print_clause c (fst (hd sp_default sps)) ++ snd (hd sp_default sps) ++ print_items cs' (tl sps)
  end.

(* ---------------------------------------------------------------- the dictionary a correct recogniser returns *)
Definition dict := list (N * str).

Definition bindings (c : clause) (sp : cspell) : dict :=
  match c with
  | CName n => [(14, n)]
  | CFiller => [(13, kw sp 0 K_FILLER)]
  | CRedefines t => [(0, t)]
  | COccurs n _ => [(6, n)]
  | COdo mn mx dep _ => (match mn with Some m => [(3, m)] | None => [] end) ++ [(4, mx); (5, dep)]
  | CPicture p => [(7, p)]
  | CUsage fam => [(11, kw sp 2 (usage_word fam (chN sp 1)))]
  | CValue v => [(12, v)]
  | CBlank => [(1, kw sp 2 (zero_word (chN sp 1)))]
  | CJust rt => if rt then [(2, kw sp 1 K_RIGHT)] else []
  | CSync side => if side =? 0 then [] else [(10, side_text sp side)]
  | CSign leading separate => (8, kw sp 2 (sign_word leading)) :: (if separate then [(9, separate_text sp)] else [])
  | CExternal | CGlobal => []
  end.

Fixpoint all_bindings (cs : list clause) (sps : spelling) : dict :=
  match cs with
  | [] => []
  | c :: cs' => bindings c (fst (hd sp_default sps)) ++ all_bindings cs' (tl sps)
  end.

(* a dictionary built from a list of bindings: a later binding of a key replaces an earlier one *)
Definition lookup (k : N) (d : dict) : option str :=
  fold_left (fun acc kv => if fst kv =? k then Some (snd kv) else acc) d None.

Definition key_codes : list N := [0; 1; 2; 3; 4; 5; 6; 7; 8; 9; 10; 11; 12; 13; 14].

(* in key order (a dictionary has no order of its own) *)
Definition sorted (d : dict) : dict :=
  flat_map (fun k => match lookup k d with Some v => [(k, v)] | None => [] end) key_codes.

Definition expected (cs : list clause) (sps : spelling) : dict := sorted (all_bindings cs sps).

(* ---------------------------------------------------------------- spelling-independent content *)
Definition abs_bindings (c : clause) : dict :=
  match c with
  | CName n => [(14, n)]
  | CFiller => [(13, K_FILLER)]
  | CRedefines t => [(0, t)]
  | COccurs n _ => [(6, n)]
  | COdo mn mx dep _ => (match mn with Some m => [(3, m)] | None => [] end) ++ [(4, mx); (5, dep)]
  | CPicture p => [(7, p)]
  | CUsage fam => [(11, usage_rep fam)]
  | CValue v => [(12, v)]
  | CBlank => [(1, K_ZERO)]
  | CJust rt => if rt then [(2, K_RIGHT)] else []
  | CSync side => if side =? 0 then [] else [(10, side_word side)]
  | CSign leading separate => (8, sign_word leading) :: (if separate then [(9, K_SEPARATE)] else [])
  | CExternal | CGlobal => []
  end.

Definition abstract (cs : list clause) : dict := sorted (flat_map abs_bindings cs).

(* from an as-written dictionary to its content *)
Definition family_of (w : str) : option N :=
  (fix go (fams : list (list str)) (i : N) : option N :=
     match fams with
     | [] => None
     | f :: r => if existsb (str_eqb w) f then Some i else go r (i + 1)
     end) usage_table 0.

Definition norm_zero (w : str) : str := if existsb (str_eqb w) [K_ZERO; K_ZEROS; K_ZEROES] then K_ZERO else w.

(* the word of a text made of separators and one word (sign_sep: the first word) *)
Definition letters_of (t : str) : str := filter (fun c => is_upper_letter c) (map upper t).

Definition norm_value (k : N) (v : str) : str :=
  match k with
  | 1 => norm_zero (map upper v)
  | 2 | 8 | 13 => map upper v
  | 9 => firstn 8 (letters_of v)
  | 10 => letters_of v
  | 11 => match family_of (map upper v) with Some f => usage_rep f | None => map upper v end
  | _ => v
  end.

Definition normal (d : dict) : dict := map (fun kv => (fst kv, norm_value (fst kv) (snd kv))) d.

(* DDE naming demanded by C07: the data name, or a generated FILLER-n for FILLER and for an entry without a name
   (the first one generated after a reset: FILLER-1) *)
Definition spec_unique_name (cs : list clause) : str :=
  match cs with
  | CName n :: _ => n
  | _ => K_FILLER ++ [45; 49]
  end.

(* ---------------------------------------------------------------- the domain *)
(* separators *)
Definition all_blank (s : str) : bool := forallb is_blank s.
Definition sep_ok (s : str) : bool :=
  match s with
  | [] => false
  | c :: t => if is_blank c then all_blank t
              else s_mem c [44; 59] && all_blank t && negb (match t with [] => true | _ => false end)
  end.
Definition blank_sep (s : str) : bool := all_blank s && negb (match s with [] => true | _ => false end).

(* data names: the safe alphabet, not a reserved word, not starting with a reserved word the recogniser accepts
   without a word boundary *)
Definition glued_words : list str :=
  [K_EXTERNAL; K_GLOBAL; K_SYNC; K_BINARY; K_COMP; K_DISPLAY; K_PACKED_DECIMAL; K_FILLER].
Definition is_reserved (n : str) : bool := existsb (fun w => ci_equal w n) reserved_words.
Definition keyword_prefixed (n : str) : bool := existsb (fun w => ci_prefix w n) glued_words.
Definition name_ok (n : str) : bool :=
  negb (match n with [] => true | _ => false end) && forallb name_char n && negb (is_reserved n) && negb (keyword_prefixed n).

Definition digits_ok (d : str) : bool := negb (match d with [] => true | _ => false end) && forallb is_digit d.

(* a picture string or an unquoted VALUE word: printable ASCII without blanks, separators and quotes,
   not starting with the letter I (so that it cannot be read as the optional IS) *)
Definition word_char (c : N) : bool := (33 <=? c) && (c <=? 126) && negb (s_mem c [39; 34; 44; 59; 124]).
Definition word_ok (p : str) : bool :=
  match p with
  | [] => false
  | c :: _ => negb (upper c =? 73) && forallb word_char p
  end.
(* pictures may contain commas (an editing character), not at the start *)
Definition pic_char (c : N) : bool := (33 <=? c) && (c <=? 126) && negb (s_mem c [39; 34; 59; 124]).
Definition pic_ok (p : str) : bool :=
  match p with
  | [] => false
  | c :: _ => negb (upper c =? 73) && negb (c =? 44) && forallb pic_char p
  end.

(* a quoted literal: quote, anything but a line feed, the same quote *)
Definition quoted_ok (v : str) : bool :=
  match v with
  | q :: t => s_mem q [39; 34]
              && match rev t with
                 | q' :: body => (q' =? q) && forallb (fun c => negb (c =? 10)) body
                 | [] => false
                 end
  | [] => false
  end.
Definition is_quoted (v : str) : bool := match v with q :: _ => s_mem q [39; 34] | [] => false end.
Definition value_ok (v : str) : bool := if is_quoted v then quoted_ok v else word_ok v.

Definition ix_none (ix : option iphrase) : bool := match ix with None => true | Some _ => false end.

Definition clause_ok (c : clause) (sp : cspell) : bool :=
  forallb sep_ok (seps sp) &&
  match c with
  | CName n => name_ok n
  | CRedefines t => name_ok t
  | COccurs n ix => digits_ok n && ix_none ix
  | COdo mn mx dep ix => (match mn with Some m => digits_ok m | None => true end) && digits_ok mx && name_ok dep && ix_none ix
  | CPicture p => pic_ok p
  | CValue v => value_ok v
  | CBlank => chN sp 1 =? 0                      (* spelled ZERO *)
  | CSign _ separate => separate
  | _ => true
  end.

(* the separator after a clause: [last] = nothing follows *)
Definition after_ok (c : clause) (last : bool) (a : str) : bool :=
  (if last then all_blank a else sep_ok a)
  && match c with
     | CPicture _ => all_blank a                                  (* a comma would be read into the picture *)
     | CValue v => is_quoted v || all_blank a
     | CJust false => negb (match a with [] => true | _ => false end)
     | _ => true
     end.

Definition is_name_clause (c : clause) : bool := match c with CName _ | CFiller => true | _ => false end.

Fixpoint items_ok (cs : list clause) (sps : spelling) : bool :=
  match cs with
  | [] => true
  | c :: cs' =>
      clause_ok c (fst (hd sp_default sps))
      && after_ok c (match cs' with [] => true | _ => false end) (snd (hd sp_default sps))
      && negb (existsb is_name_clause cs')
      && items_ok cs' (tl sps)
  end.

Fixpoint nodup_N (l : list N) : bool :=
  match l with [] => true | x :: r => negb (s_mem x r) && nodup_N r end.

(* the domain of the clause recogniser theorem *)
Definition printable (cs : list clause) (sps : spelling) : bool :=
  nodup_N (map kind cs) && items_ok cs sps.

(* DDE naming compares with the upper-case word FILLER: the word FILLER must be written in upper case *)
Definition filler_upper (cs : list clause) (sps : spelling) : bool :=
  match cs with
  | CFiller :: _ => negb (existsb (fun b => b) (firstn 6 (nth 0 (masks (fst (hd sp_default sps))) [])))
  | _ => true
  end.

Definition in_domain (cs : list clause) (sps : spelling) : bool := printable cs sps && filler_upper cs sps.
