(* Spec/SchemaMakerOdoWitness.v - the example documents with maxItemsDependsOn of Props/C15c.v; they used to be defined
   beside the lemmas of Proofs/SchemaMakerOdoP.v (audit item G1).  DEFINITIONS ONLY, moved textually.
   mk_tab   an array whose length depends on a counter
   odo_backward, odo_forward, odo_inside, odo_self, odo_ancestor, odo_dangling, odo_mixed   where the counter stands
   Imports: Spec/JsonDoc.v and Spec/SchemaMakerWitness.v only. *)
From Coq Require Import List.
Import ListNotations.
Require Import SR.Spec.JsonDoc SR.Spec.SchemaMakerWitness.

Definition mk_tab (anchor : option str) (counter : str) (x : js) : js := mk_arr anchor (Some (hash :: counter)) x.

(* {a: integer $anchor X, v: array of string depending on #X}: the counter stands before the table *)
Definition odo_backward : js :=
  mk_obj None (PCons ka (mk_atom s_integer (Some nX) None)
              (PCons kv (mk_tab None nX (mk_atom s_string None None)) PNil)).

(* {v: array of string depending on #X, a: integer $anchor X}: the counter stands after the table *)
Definition odo_forward : js :=
  mk_obj None (PCons kv (mk_tab None nX (mk_atom s_string None None))
              (PCons ka (mk_atom s_integer (Some nX) None) PNil)).

(* array of (integer $anchor X) depending on #X: the counter is the element *)
Definition odo_inside : js := mk_tab None nX (mk_atom s_integer (Some nX) None).

(* array $anchor X depending on #X: the table is its own counter *)
Definition odo_self : js := mk_tab (Some nX) nX (mk_atom s_integer None None).

(* object $anchor X {v: array depending on #X}: the counter encloses the table *)
Definition odo_ancestor : js :=
  mk_obj (Some nX) (PCons kv (mk_tab None nX (mk_atom s_string None None)) PNil).

(* {a: integer $anchor X, v: array depending on #Y}: no sub-schema bears Y *)
Definition odo_dangling : js :=
  mk_obj None (PCons ka (mk_atom s_integer (Some nX) None)
              (PCons kv (mk_tab None nY (mk_atom s_string None None)) PNil)).

(* counter first, a table of references to a group declared last, a second table inside the group:
   {a: integer $anchor X, v: array of $ref #Y depending on #X,
    w: object $anchor Y {t: array of null depending on #X}} *)
Definition odo_mixed : js :=
  mk_obj None
    (PCons ka (mk_atom s_integer (Some nX) None)
    (PCons kv (mk_tab None nX (mk_ref nY None))
    (PCons kw (mk_obj (Some nY) (PCons kt (mk_tab None nX (mk_atom s_null None None)) PNil)) PNil))).
