(* C10: vocabulary of the coherence / laziness theorems that is not part of the model of the code:
   the side conditions on schemas and locations under which the statements of Props/C10.v are made.
     odo_free s     no OCCURS DEPENDING ON (maxItemsDependsOn) anywhere in the schema s
     odo_keys s     the counter names the ODO tables of s consult
     sub_ref l st t the $ref placeholder (start st, target t) occurs inside the location l
     ref_prop v k   the property k of the object location of v is a $ref placeholder
                    (a COBOL name that is a member of a REDEFINES union)
     erase_nav      a navigator of Model/LayoutValue.v seen as a navigator of Model/Layout.v (C01) *)
From Coq Require Import List Arith NArith Bool.
Import ListNotations.
Require Import SR.Base.Res SR.Spec.Layout SR.Model.Layout SR.Model.LayoutValue.
Open Scope nat_scope.

Fixpoint odo_free (s : js) : bool :=
  match s with
  | JAtom _ _ => true
  | JArr _ _ its => odo_free its
  | JOdo _ _ _ => false
  | JObj _ ps => odo_free_props ps
  | JOne _ alts => odo_free_alts alts
  | JRef _ => true
  end
with odo_free_props (ps : props) : bool :=
  match ps with PNil => true | PCons _ s r => odo_free s && odo_free_props r end
with odo_free_alts (alts : jalts) : bool :=
  match alts with ANil => true | ACons s r => odo_free s && odo_free_alts r end.

Fixpoint sub_ref (l : wloc) (st0 : nat) (t0 : key) : Prop :=
  match l with
  | WAtom _ _ _ => False
  | WArr _ _ _ _ it _ => sub_ref it st0 t0
  | WObj _ _ ps => sub_ref_props ps st0 t0
  | WOne _ _ alts => sub_ref_alts alts st0 t0
  | WRef st t => st = st0 /\ t = t0
  end
with sub_ref_props (ps : wprops) (st0 : nat) (t0 : key) : Prop :=
  match ps with WPNil => False | WPCons _ l r => sub_ref l st0 t0 \/ sub_ref_props r st0 t0 end
with sub_ref_alts (ls : walts) (st0 : nat) (t0 : key) : Prop :=
  match ls with WANil => False | WACons l r => sub_ref l st0 t0 \/ sub_ref_alts r st0 t0 end.

Definition ref_prop (v : vnav) (k : key) : bool :=
  match vn_loc v with
  | WObj _ _ ps => match wfind k ps with Some (WRef _ _) => true | _ => false end
  | _ => false
  end.

Fixpoint odo_keys (s : js) : list id :=
  match s with
  | JAtom _ _ => []
  | JArr _ _ its => odo_keys its
  | JOdo _ c its => c :: odo_keys its
  | JObj _ ps => odo_keys_props ps
  | JOne _ alts => odo_keys_alts alts
  | JRef _ => []
  end
with odo_keys_props (ps : props) : list id :=
  match ps with PNil => [] | PCons _ s r => odo_keys s ++ odo_keys_props r end
with odo_keys_alts (alts : jalts) : list id :=
  match alts with ANil => [] | ACons s r => odo_keys s ++ odo_keys_alts r end.

Definition erase_nav (v : vnav) : nav := mknav (erase (vn_loc v)) (erase_an (vn_an v)).
Definition erase_rnav (x : res vnav) : res nav := match x with Ok v => Ok (erase_nav v) | Err e => Err e end.

(* ---- the shape of the $ref's cobol_parser emits, as a boolean on the schema ----
   jkeys s        every $anchor in s (what a walk registers)
   alt_anchors    the anchors of the direct alternatives of a oneOf
   redef_ok s     a $ref occurs only as a property of an object and names the anchor of a direct alternative of
                  a oneOf that is an EARLIER property of the same object (the REDEFINES-x entry)
   uniq_keys s    no $anchor occurs twice *)
Definition okey (a : option key) : list key := match a with Some k => [k] | None => [] end.

Fixpoint jkeys (s : js) : list key :=
  okey (js_anchor s) ++
  match s with
  | JArr _ _ its | JOdo _ _ its => jkeys its
  | JObj _ ps => jkeys_props ps
  | JOne _ alts => jkeys_alts alts
  | _ => []
  end
with jkeys_props (ps : props) : list key :=
  match ps with PNil => [] | PCons _ s r => jkeys s ++ jkeys_props r end
with jkeys_alts (alts : jalts) : list key :=
  match alts with ANil => [] | ACons s r => jkeys s ++ jkeys_alts r end.

Fixpoint alt_anchors (alts : jalts) : list key :=
  match alts with ANil => [] | ACons s r => okey (js_anchor s) ++ alt_anchors r end.

Definition memk (k : key) (l : list key) : bool := existsb (key_eqb k) l.

Fixpoint redef_ok (s : js) : bool :=
  match s with
  | JAtom _ _ => true
  | JArr _ _ its => redef_ok its
  | JOdo _ _ its => redef_ok its
  | JObj _ ps => redef_props [] ps
  | JOne _ alts => redef_alts alts
  | JRef _ => false
  end
with redef_props (seen : list key) (ps : props) : bool :=
  match ps with
  | PNil => true
  | PCons _ p r =>
      match p with
      | JRef t => memk t seen && redef_props seen r
      | JOne _ alts => redef_alts alts && redef_props (alt_anchors alts ++ seen) r
      | _ => redef_ok p && redef_props seen r
      end
  end
with redef_alts (alts : jalts) : bool :=
  match alts with ANil => true | ACons s r => redef_ok s && redef_alts r end.

Fixpoint nodupk (l : list key) : bool :=
  match l with [] => true | k :: t => negb (memk k t) && nodupk t end.

Definition uniq_keys (s : js) : bool := nodupk (jkeys s).
Definition cobol_like (s : js) : bool := redef_ok s && uniq_keys s.
