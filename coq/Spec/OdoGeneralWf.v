(* Spec/OdoGeneralWf.v - what occurs in the statements of Props/C06d.v and used to be defined beside the lemmas of
   Proofs/OdoStreamGeneralP.v (audit item G1).  DEFINITIONS ONLY, moved textually (Section AbstractRows keeps the Context
   and Variables the definition was written under: framed {A} dcount schema r v as before).
   framed         THE INTERFACE between a family of record descriptions and the file readers: on every buffer that
                  begins with record r the schema walk gives navigator v, and v ends where r ends
   gen_tree, gen_dcount, gen_e1, gen_e2, gen_r1, gen_r2, gen_start, gen_row_view
                  a member of the general ODO family, two records of it and the view of a row (non-vacuity examples)
   Imports: Base/Res.v, Spec/Layout.v (item, env, step) and the MODEL files Model/Layout.v (js, nav, nav_of, nav_path, n_loc,
   lstart, lend: framed is a statement ABOUT the model's navigator) and Model/OdoStream.v (row, row_buf, row_nav: what the
   model's row loop delivers). *)
From Coq Require Import NArith List.
Import ListNotations.
Require Import SR.Base.Res.
Require Import SR.Spec.Layout SR.Model.Layout SR.Model.OdoStream.
Local Open Scope nat_scope.

Section AbstractRows.
  Context {A : Type}.
  Variable dcount : list A -> nat.
  Variable schema : js.

  (* THE INTERFACE between a family of record descriptions and the file readers: on every buffer that begins with
     record r the schema walk gives navigator v, and v ends where r ends *)
  Definition framed (r : list A) (v : nav) : Prop :=
    (forall more, nav_of dcount (r ++ more) schema = Ok v) /\ lend (n_loc v) = length r.
End AbstractRows.

(* 01 R.  05 N PIC 9.
          05 G.  10 A PIC X(2).  10 T PIC X(3) OCCURS 0 TO 9 DEPENDING ON N.  10 B PIC X.
          05 H.  10 U OCCURS 0 TO 9 DEPENDING ON N.  15 V PIC X.  15 W PIC X.
          05 Z PIC X(2).
   ids: R=1 N=2 G=3 A=4 T=5 B=6 H=7 U=8 V=9 W=10 Z=11.  The ODO table T stands inside the nested group G and is
   followed by B, by the group table U inside H, and by Z.  Outside the flat family (nested groups). *)
Definition gen_tree : item :=
  Group 1%N Once None
    (ICons (Elem 2%N 1 Once None)
    (ICons (Group 3%N Once None
              (ICons (Elem 4%N 2 Once None) (ICons (Elem 5%N 3 (Odo 2%N) None) (ICons (Elem 6%N 1 Once None) INil))))
    (ICons (Group 7%N Once None
              (ICons (Group 8%N (Odo 2%N) None (ICons (Elem 9%N 1 Once None) (ICons (Elem 10%N 1 Once None) INil))) INil))
    (ICons (Elem 11%N 2 Once None) INil)))).

(* the decoder of the example: the value of the first element *)
Definition gen_dcount (bs : list N) : nat := N.to_nat (hd 0%N bs).

(* count vectors: N = 1 and N = 3; every other non-repeated elementary item starts with the byte 7 *)
Definition gen_e1 : env := fun c => if N.eqb c 2%N then 1 else 7.

Definition gen_e2 : env := fun c => if N.eqb c 2%N then 3 else 7.

Definition gen_r1 : list N := ([1] ++ [7; 8] ++ [7; 8; 9] ++ [7] ++ [21; 22] ++ [7; 8])%N.

Definition gen_r2 : list N :=
  ([3] ++ [7; 8] ++ [7; 8; 9; 17; 18; 19; 27; 28; 29] ++ [7] ++ [21; 22; 31; 32; 41; 42] ++ [7; 8])%N.

(* what the row loop delivers on the file of the three records with a window of 32 elements: for each row the length
   of the buffer handed to Row(), where the navigator ends, where G.T[2], G.B and Z lie *)
Definition gen_start (rw : row N) (p : list step) : res nat :=
  match nav_path gen_dcount (row_buf rw) (row_nav rw) p with Ok v => Ok (lstart (n_loc v)) | Err x => Err x end.

Definition gen_row_view (rw : row N) : nat * nat * res nat * res nat * res nat :=
  (length (row_buf rw), lend (n_loc (row_nav rw)),
   gen_start rw [PName 3%N; PName 5%N; PIndex 2], gen_start rw [PName 3%N; PName 6%N], gen_start rw [PName 11%N]).
