(* What property C14 demands, written without looking at the implementation.

   Registry: the class registered for a suffix is the class of the LAST decorator application
   that mentions the suffix; no application mentions it -> refused.  This holds at every moment
   of a history in which registrations and opens alternate freely.
   Life cycle: after the with statement no descriptor on the workbook's file is open; a close
   after that raises nothing and changes nothing. *)
From Coq Require Import NArith List Bool.
Import ListNotations.
Open Scope N_scope.

Fixpoint seq_eqb (a b : list N) : bool :=
  match a, b with
  | [], [] => true
  | x :: a', y :: b' => (x =? y) && seq_eqb a' b'
  | _, _ => false
  end.

(* the class of the last registration mentioning s *)
Fixpoint last_mention (ds : list (list (list N) * N)) (s : list N) : option N :=
  match ds with
  | [] => None
  | d :: t =>
      match last_mention t s with
      | Some c => Some c
      | None => if existsb (seq_eqb s) (fst d) then Some (snd d) else None
      end
  end.

(* A history on one registry: decorator applications and opens, interleaved in any order.
   The answer demanded of each open is the class of the last registration BEFORE it that mentions
   the suffix (None = refused).  [before] is the list of registrations already made. *)
Inductive hop :=
| HRegister (names : list (list N)) (c : N)
| HOpen (s : list N).

Fixpoint history (before : list (list (list N) * N)) (ops : list hop) : list (option N) :=
  match ops with
  | [] => []
  | HRegister names c :: t => history (before ++ [(names, c)]) t
  | HOpen s :: t => last_mention before s :: history before t
  end.

(* the suffix is mentioned by more than one registration (used for coverage statistics only) *)
Definition mentions (ds : list (list (list N) * N)) (s : list N) : nat :=
  length (filter (fun d => existsb (seq_eqb s) (fst d)) ds).

(* descriptor counts demanded after the with statement, after a further close, and the result
   of that close (true = raised) *)
Definition released (after_exit : nat) (second_close_raised : bool) (after_second : nat) : bool :=
  Nat.eqb after_exit 0 && negb second_close_raised && Nat.eqb after_second 0.
