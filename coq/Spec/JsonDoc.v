(* C15 specification side.

   - JSON Schema documents of the supported vocabulary as a record of OPTIONAL keywords per
     node (so overlapping keywords can be written down), mutual inductives.
   - the observable object graph of a loaded schema (class of each node, its attributes, children
     in order, the node a reference points to given as a PATH of child steps from the root).
   - what the property demands: the kind a node must have given its keywords, the mirror relation,
     the anchor table and reference names of a document, well-formedness (the supported grammar),
     JSON instance values and plain indexing.

   Strings are lists of code points.  Nothing here is taken from the implementation. *)
From Coq Require Import ZArith NArith List Bool.
Import ListNotations.
Require Import SR.Base.Res.

Definition str := list N.
Definition path := list nat.

Fixpoint str_eqb (a b : str) : bool :=
  match a, b with
  | [], [] => true
  | x :: a', y :: b' => N.eqb x y && str_eqb a' b'
  | _, _ => false
  end.

Definition ostr_eqb (a b : option str) : bool :=
  match a, b with
  | None, None => true
  | Some x, Some y => str_eqb x y
  | _, _ => false
  end.

Fixpoint path_eqb (a b : path) : bool :=
  match a, b with
  | [], [] => true
  | x :: a', y :: b' => Nat.eqb x y && path_eqb a' b'
  | _, _ => false
  end.

Definition opath_eqb (a b : option path) : bool :=
  match a, b with
  | None, None => true
  | Some x, Some y => path_eqb x y
  | _, _ => false
  end.

Fixpoint extra_eqb (a b : list (str * str)) : bool :=
  match a, b with
  | [], [] => true
  | (k, v) :: a', (k', v') :: b' => str_eqb k k' && str_eqb v v' && extra_eqb a' b'
  | _, _ => false
  end.

(* ---- documents ---- *)

(* the scalar keywords of one sub-schema; k_mido is the "$ref" inside "maxItemsDependsOn";
   k_extra = every other keyword, in order, value as canonical JSON text (opaque) *)
Record scal := Scal {
  k_ref : option str;
  k_type : option str;
  k_anchor : option str;
  k_title : option str;
  k_mido : option str;
  k_extra : list (str * str) }.

Inductive js := Node (sc : scal) (o : oalts) (i : ojs) (p : oprops)
with oalts := OANone | OASome (l : alts)            (* "oneOf" absent / present *)
with alts := ANil | ACons (x : js) (r : alts)
with ojs := OJNone | OJSome (x : js)                 (* "items" *)
with oprops := OPNone | OPSome (l : props)           (* "properties" *)
with props := PNil | PCons (k : str) (v : js) (r : props).

Definition scal_eqb (a b : scal) : bool :=
  ostr_eqb (k_ref a) (k_ref b) && ostr_eqb (k_type a) (k_type b) && ostr_eqb (k_anchor a) (k_anchor b)
  && ostr_eqb (k_title a) (k_title b) && ostr_eqb (k_mido a) (k_mido b) && extra_eqb (k_extra a) (k_extra b).

Fixpoint js_eqb (a b : js) {struct a} : bool :=
  match a, b with
  | Node sc o i p, Node sc' o' i' p' => scal_eqb sc sc' && oalts_eqb o o' && ojs_eqb i i' && oprops_eqb p p'
  end
with oalts_eqb (a b : oalts) {struct a} : bool :=
  match a, b with
  | OANone, OANone => true
  | OASome l, OASome l' => alts_eqb l l'
  | _, _ => false
  end
with alts_eqb (a b : alts) {struct a} : bool :=
  match a, b with
  | ANil, ANil => true
  | ACons x r, ACons x' r' => js_eqb x x' && alts_eqb r r'
  | _, _ => false
  end
with ojs_eqb (a b : ojs) {struct a} : bool :=
  match a, b with
  | OJNone, OJNone => true
  | OJSome x, OJSome x' => js_eqb x x'
  | _, _ => false
  end
with oprops_eqb (a b : oprops) {struct a} : bool :=
  match a, b with
  | OPNone, OPNone => true
  | OPSome l, OPSome l' => props_eqb l l'
  | _, _ => false
  end
with props_eqb (a b : props) {struct a} : bool :=
  match a, b with
  | PNil, PNil => true
  | PCons k v r, PCons k' v' r' => str_eqb k k' && js_eqb v v' && props_eqb r r'
  | _, _ => false
  end.

(* ---- the kind a node must have, given its keywords ---- *)

Inductive kind := KAtomic | KArray | KDepends | KObject | KOneOf | KRef | KBad.

Definition kind_code (k : kind) : nat :=
  match k with KAtomic => 1 | KArray => 2 | KDepends => 3 | KObject => 4 | KOneOf => 5 | KRef => 6 | KBad => 0 end.
Definition kind_eqb (a b : kind) : bool := Nat.eqb (kind_code a) (kind_code b).

Definition s_null : str := [110; 117; 108; 108]%N.
Definition s_boolean : str := [98; 111; 111; 108; 101; 97; 110]%N.
Definition s_integer : str := [105; 110; 116; 101; 103; 101; 114]%N.
Definition s_number : str := [110; 117; 109; 98; 101; 114]%N.
Definition s_string : str := [115; 116; 114; 105; 110; 103]%N.
Definition s_array : str := [97; 114; 114; 97; 121]%N.
Definition s_object : str := [111; 98; 106; 101; 99; 116]%N.
Definition s_oneOf : str := [111; 110; 101; 79; 102]%N.
Definition hash : N := 35%N.

(* the primitive types of JSON Schema other than array and object *)
Definition atomic_types : list str := [s_null; s_boolean; s_integer; s_number; s_string].
Definition mem (x : str) (l : list str) : bool := existsb (str_eqb x) l.
Definition is_atomic (t : str) : bool := mem t atomic_types.

Definition nonempty_alts (o : oalts) : bool := match o with OASome (ACons _ _) => true | _ => false end.
Definition nonempty_str (s : option str) : bool := match s with Some (_ :: _) => true | _ => false end.
Definition has_items (i : ojs) : bool := match i with OJSome _ => true | OJNone => false end.
Definition has_props (p : oprops) : bool := match p with OPSome _ => true | OPNone => false end.
Definition is_some {T} (x : option T) : bool := match x with Some _ => true | None => false end.

(* Priority when keywords overlap: a non-empty oneOf, then a non-empty $ref, then an atomic type,
   then array (type or items keyword), then object (type or properties keyword). *)
Definition shape_kw (sc : scal) (o : oalts) (i : ojs) (p : oprops) : kind :=
  if nonempty_alts o then KOneOf
  else if nonempty_str (k_ref sc) then KRef
  else match k_type sc with
       | None => KBad
       | Some t =>
           if is_atomic t then KAtomic
           else if str_eqb t s_array || has_items i then (if is_some (k_mido sc) then KDepends else KArray)
           else if str_eqb t s_object || has_props p then KObject
           else KBad
       end.

Definition shape_of_keywords (d : js) : kind := match d with Node sc o i p => shape_kw sc o i p end.
Definition scal_of (d : js) : scal := match d with Node sc _ _ _ => sc end.

(* name after the leading '#' of a reference *)
Definition ref_name (r : option str) : option str :=
  match r with
  | Some (c :: name) => if N.eqb c hash then Some name else None
  | _ => None
  end.

(* ---- the sub-schemas of a document, in document order, each with its path and kind.
   The children of a node are the ones its kind has: alternatives, items, or property values. ---- *)
Fixpoint nodes (d : js) (rp : path) {struct d} : list (path * scal * kind) :=
  match d with
  | Node sc o i p =>
      (rev rp, sc, shape_kw sc o i p) ::
      match shape_kw sc o i p with
      | KOneOf => match o with OASome l => nodes_alts l rp 0 | OANone => [] end
      | KArray | KDepends => match i with OJSome x => nodes x (0%nat :: rp) | OJNone => [] end
      | KObject => match p with OPSome l => nodes_props l rp 0 | OPNone => [] end
      | _ => []
      end
  end
with nodes_alts (l : alts) (rp : path) (n : nat) {struct l} : list (path * scal * kind) :=
  match l with
  | ANil => []
  | ACons x r => nodes x (n :: rp) ++ nodes_alts r rp (S n)
  end
with nodes_props (l : props) (rp : path) (n : nat) {struct l} : list (path * scal * kind) :=
  match l with
  | PNil => []
  | PCons _ x r => nodes x (n :: rp) ++ nodes_props r rp (S n)
  end.

Definition all_nodes (d : js) : list (path * scal * kind) := nodes d [].

Fixpoint lookup {T} (x : str) (l : list (str * T)) : option T :=
  match l with
  | [] => None
  | (k, v) :: r => if str_eqb x k then Some v else lookup x r
  end.

(* (anchor, path) of every sub-schema that has an "$anchor" *)
Definition anchor_entry (e : path * scal * kind) : list (str * path) :=
  match k_anchor (snd (fst e)) with Some a => [(a, fst (fst e))] | None => [] end.
Definition anchor_table (d : js) : list (str * path) := flat_map anchor_entry (all_nodes d).
Definition find_anchor (d : js) (x : str) : option path := lookup x (anchor_table d).

Fixpoint nodup_str (l : list str) : bool :=
  match l with
  | [] => true
  | x :: r => negb (mem x r) && nodup_str r
  end.
Definition uniq_anchors (d : js) : bool := nodup_str (map fst (anchor_table d)).

(* the names referred to: "$ref" of reference nodes, "maxItemsDependsOn" of depending arrays *)
Definition ref_entry (e : path * scal * kind) : list str :=
  match snd e with
  | KRef => match ref_name (k_ref (snd (fst e))) with Some x => [x] | None => [] end
  | KDepends => match ref_name (k_mido (snd (fst e))) with Some x => [x] | None => [] end
  | _ => []
  end.
Definition refnames (d : js) : list str := flat_map ref_entry (all_nodes d).

Definition plain_ref_entry (e : path * scal * kind) : list str :=
  match snd e with KRef => ref_entry e | _ => [] end.
Definition plain_refnames (d : js) : list str := flat_map plain_ref_entry (all_nodes d).

Definition has_dangling (d : js) : bool :=
  existsb (fun x => negb (is_some (find_anchor d x))) (plain_refnames d).
Definition has_depends (d : js) : bool :=
  existsb (fun e => kind_eqb (snd e) KDepends) (all_nodes d).

(* ---- the supported grammar: every sub-schema carries a non-empty oneOf, a "#name" reference or a
   type; arrays carry items; an object's property names are distinct ---- *)
Fixpoint keys_of (l : props) : list str :=
  match l with PNil => [] | PCons k _ r => k :: keys_of r end.

Definition hash_prefixed (r : option str) : bool := is_some (ref_name r).

Fixpoint wf (d : js) {struct d} : bool :=
  match d with
  | Node sc o i p =>
      match shape_kw sc o i p with
      | KOneOf => match o with OASome l => wf_alts l | OANone => false end
      | KRef => hash_prefixed (k_ref sc)
      | KAtomic => true
      | KArray => match i with OJSome x => wf x | OJNone => false end
      | KDepends => match i with OJSome x => wf x | OJNone => false end && hash_prefixed (k_mido sc)
      | KObject => match p with OPSome l => nodup_str (keys_of l) && wf_props l | OPNone => true end
      | KBad => false
      end
  end
with wf_alts (l : alts) {struct l} : bool :=
  match l with ANil => true | ACons x r => wf x && wf_alts r end
with wf_props (l : props) {struct l} : bool :=
  match l with PNil => true | PCons _ x r => wf x && wf_props r end.

(* ---- the loaded schema as an observable object graph ---- *)
Inductive schema :=
| LAtomic (a : js)
| LArray (a : js) (items : schema)
| LDepends (a : js) (items : schema) (target : path)
| LObject (a : js) (ps : sprops)
| LOneOf (a : js) (ss : slist)
| LRefTo (a : js) (target : option path)
with slist := SNil | SCons (x : schema) (r : slist)
with sprops := SPNil | SPCons (k : str) (v : schema) (r : sprops).

Definition attrs (s : schema) : js :=
  match s with
  | LAtomic a | LArray a _ | LDepends a _ _ | LObject a _ | LOneOf a _ | LRefTo a _ => a
  end.

Definition kind_of (s : schema) : kind :=
  match s with
  | LAtomic _ => KAtomic | LArray _ _ => KArray | LDepends _ _ _ => KDepends
  | LObject _ _ => KObject | LOneOf _ _ => KOneOf | LRefTo _ _ => KRef
  end.

(* one-to-one mirror: every loaded node holds exactly its sub-document as attributes (so json()
   is the document), has the kind its keywords determine, and its children are the loaded
   sub-schemas of the document's children, same order, same property names *)
Fixpoint mirrors (s : schema) (d : js) {struct s} : bool :=
  match d with
  | Node sc o i p =>
      js_eqb (attrs s) d && kind_eqb (kind_of s) (shape_kw sc o i p) &&
      match s with
      | LOneOf _ ss => match o with OASome l => mirrors_alts ss l | OANone => false end
      | LArray _ it => match i with OJSome x => mirrors it x | OJNone => false end
      | LDepends _ it _ => match i with OJSome x => mirrors it x | OJNone => false end
      | LObject _ ps => match p with OPSome l => mirrors_props ps l | OPNone => mirrors_props ps PNil end
      | LAtomic _ => true
      | LRefTo _ _ => true
      end
  end
with mirrors_alts (ss : slist) (l : alts) {struct ss} : bool :=
  match ss, l with
  | SNil, ANil => true
  | SCons s r, ACons x r' => mirrors s x && mirrors_alts r r'
  | _, _ => false
  end
with mirrors_props (ps : sprops) (l : props) {struct ps} : bool :=
  match ps, l with
  | SPNil, PNil => true
  | SPCons k s r, PCons k' x r' => str_eqb k k' && mirrors s x && mirrors_props r r'
  | _, _ => false
  end.

(* (name referred to, node pointed to) for every reference held by the loaded graph, document order *)
Fixpoint stargets (s : schema) : list (str * option path) :=
  match s with
  | LAtomic _ => []
  | LArray _ it => stargets it
  | LDepends a it t =>
      match ref_name (k_mido (scal_of a)) with Some x => [(x, Some t)] | None => [] end ++ stargets it
  | LObject _ ps => stargets_props ps
  | LOneOf _ ss => stargets_list ss
  | LRefTo a t => match ref_name (k_ref (scal_of a)) with Some x => [(x, t)] | None => [] end
  end
with stargets_list (ss : slist) : list (str * option path) :=
  match ss with SNil => [] | SCons x r => stargets x ++ stargets_list r end
with stargets_props (ps : sprops) : list (str * option path) :=
  match ps with SPNil => [] | SPCons _ x r => stargets x ++ stargets_props r end.

(* every reference points at the sub-schema bearing the anchor *)
Definition refs_resolved (d : js) (s : schema) : bool :=
  forallb (fun e => is_some (snd e) && opath_eqb (snd e) (find_anchor d (fst e))) (stargets s).

(* the sub-schema of the loaded graph at a path *)
Fixpoint nth_slist (ss : slist) (n : nat) : option schema :=
  match ss with
  | SNil => None
  | SCons x r => match n with O => Some x | S m => nth_slist r m end
  end.
Fixpoint nth_sprops (ps : sprops) (n : nat) : option schema :=
  match ps with
  | SPNil => None
  | SPCons _ x r => match n with O => Some x | S m => nth_sprops r m end
  end.
Definition child (s : schema) (n : nat) : option schema :=
  match s with
  | LArray _ it | LDepends _ it _ => match n with O => Some it | _ => None end
  | LObject _ ps => nth_sprops ps n
  | LOneOf _ ss => nth_slist ss n
  | _ => None
  end.
Fixpoint schema_at (s : schema) (p : path) : option schema :=
  match p with
  | [] => Some s
  | n :: q => match child s n with Some c => schema_at c q | None => None end
  end.

(* ---- JSON instance values and plain indexing ---- *)
Inductive jv :=
| JNull | JBool (b : bool) | JInt (z : Z) | JStr (s : str) | JList (l : jlist) | JDict (m : jdict)
with jlist := JLNil | JLCons (x : jv) (r : jlist)
with jdict := JDNil | JDCons (k : str) (v : jv) (r : jdict).

Inductive step := SName (k : str) | SIndex (z : Z).

Fixpoint jlen (l : jlist) : nat := match l with JLNil => O | JLCons _ r => S (jlen r) end.
Fixpoint jnth (l : jlist) (n : nat) : option jv :=
  match l with
  | JLNil => None
  | JLCons x r => match n with O => Some x | S m => jnth r m end
  end.
Fixpoint jget (m : jdict) (k : str) : option jv :=
  match m with
  | JDNil => None
  | JDCons k' v r => if str_eqb k k' then Some v else jget r k
  end.

(* a sequence index the way Python sequences take it: negative counts from the end *)
Definition norm_index (len : nat) (z : Z) : option nat :=
  let n := Z.of_nat len in
  if (0 <=? z)%Z then (if (z <? n)%Z then Some (Z.to_nat z) else None)
  else (if (0 <=? z + n)%Z then Some (Z.to_nat (z + n)) else None).

(* v[k] of plain Python indexing on parsed JSON: dict by name, list by position, a string by
   position gives the one-character string; anything else is an error *)
Definition index1 (v : jv) (st : step) : res jv :=
  match v, st with
  | JDict m, SName k => match jget m k with Some x => Ok x | None => Err KeyError end
  | JDict _, SIndex _ => Err KeyError
  | JList l, SIndex z =>
      match norm_index (jlen l) z with
      | Some n => match jnth l n with Some x => Ok x | None => Err IndexError end
      | None => Err IndexError
      end
  | JStr s, SIndex z =>
      match norm_index (length s) z with
      | Some n => match nth_error s n with Some c => Ok (JStr [c]) | None => Err IndexError end
      | None => Err IndexError
      end
  | _, _ => Err TypeError
  end.

Fixpoint index_json (v : jv) (p : list step) : res jv :=
  match p with
  | [] => Ok v
  | st :: q => match index1 v st with Ok x => index_json x q | Err e => Err e end
  end.

Fixpoint jv_eqb (a b : jv) {struct a} : bool :=
  match a, b with
  | JNull, JNull => true
  | JBool x, JBool y => Bool.eqb x y
  | JInt x, JInt y => Z.eqb x y
  | JStr x, JStr y => str_eqb x y
  | JList x, JList y => jlist_eqb x y
  | JDict x, JDict y => jdict_eqb x y
  | _, _ => false
  end
with jlist_eqb (a b : jlist) {struct a} : bool :=
  match a, b with
  | JLNil, JLNil => true
  | JLCons x r, JLCons y r' => jv_eqb x y && jlist_eqb r r'
  | _, _ => false
  end
with jdict_eqb (a b : jdict) {struct a} : bool :=
  match a, b with
  | JDNil, JDNil => true
  | JDCons k x r, JDCons k' y r' => str_eqb k k' && jv_eqb x y && jdict_eqb r r'
  | _, _ => false
  end.
