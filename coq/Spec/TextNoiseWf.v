(* Spec/TextNoiseWf.v - the vocabulary of Props/C12e.v: layer A of property C12 (card images: sequence areas, identification
   areas, comment / blank / directive lines, continuation) composed with the whole-parser model Model/Pipeline.v.
   DEFINITIONS ONLY (the lemmas are in Proofs/TextNoiseP.v).

   What the rest of the pipeline makes of reference_format's answer
     sentences_of_rf, schemas_of_rf, layouts_of_rf    Model/Pipeline.v sentences_of_text / schemas_of_text and Model/TextLayout.v
                        layouts_of_text with the call  reference_format (lines_of_text text) []  taken out: the theorem
                        C12e_factorisation says that the pipeline model IS these functions of that one value
   Texts that differ in card-image noise only
     decorated s s'     the list of lines s' is obtained from s by any number of steps, each one a change Props/C12.v proves
                        harmless for reference_format, WITH ITS SIDE CONDITIONS: [Forall2 seq_variant] (C12_seq_area_partial: other
                        sequence areas, other identification areas, the blank / directive class of a line unchanged) and
                        [inserted plain_noise] (C12_comments_partial: blank lines, lines shorter than 7, lines that are one bare
                        listing directive, indicator star or D - anywhere, also between a line and its continuation), in either
                        direction (lines added or taken away)
     text_decorated src src'   the same for two texts, through lines_of_text (iteration over io.StringIO(text))
     nolf, text_line, text_lines   a list of lines that IS the list of lines of its concatenation: every line ends in its only
                        line feed, the last one may lack it (C12e_lines_of_concat): a decorated text can be written as
                        concat of decorated lines
     code_of src        the code areas of the code lines of src one after the other (what Layer B reads when nothing is a COPY)
   Card decks: the reference format in full, beyond the printer of Spec/Copybook.v (code lines of at most 64 characters,
   nothing in columns 73-80)
     card_image         sequence area (columns 1-6), a blank indicator, the code area (columns 8-72, at most 65 characters),
                        the identification area (column 73 onwards); the line feed stands in the code area when that is shorter
                        than 65 characters and in the identification area otherwise
     ci_ok, deck_ok     six characters of sequence area; one line feed, at the very end of the line (the last line may lack it);
                        an identification area only behind a full code area; the code area not blank and not starting with COPY;
                        the whole line not a bare listing directive
     deck_text, deck_code   the text of the deck; its code areas one after the other
   Reading a text as a list of entries
     reads_as text es   the entries are in the domain of the clause layer (ce_ok: C12b's printer theorem, pictures the scanner
                        accepts, one sentence each) and the sentences the text layer finds in text are exactly theirs.  Every
                        printed copybook of Spec/Copybook.v reads as its entries (C07b_sentences); so does every decorated
                        version of it and every card deck whose code areas spell the entries. *)
From Coq Require Import NArith List Bool Arith.
Import ListNotations.
Require Import SR.Base.Res SR.Model.RefFormat SR.Spec.RefFormat.
Require Import SR.Model.Pipeline SR.Spec.Copybook.
Require SR.Model.Layout SR.Model.TextLayout.
Open Scope N_scope.

(* ------------------------------------------------------------------ the pipeline behind reference_format *)
Definition sentences_of_rf (r : res (list line)) : res (list (line * line)) :=
  match r with
  | Ok ls => Ok (dde_sentences ls)
  | Err e => Err e
  end.

Definition schemas_of_rf (r : res (list line)) : outcome :=
  match sentences_of_rf r with
  | Err e => Done (Err e)
  | Ok ss => to_outcome (docs_of_sentences ss)
  end.

Definition layouts_of_rf (r : res (list line)) : option (list SR.Model.Layout.js) :=
  match schemas_of_rf r with
  | Done (Ok docs) => map_opt SR.Model.TextLayout.layout_of_doc docs
  | _ => None
  end.

(* ------------------------------------------------------------------ card-image noise *)
Inductive decorated : list line -> list line -> Prop :=
| dec_same : forall s, decorated s s
| dec_areas : forall s s' s'', Forall2 seq_variant s s' -> decorated s' s'' -> decorated s s''
| dec_add : forall s s' s'', inserted plain_noise s s' -> decorated s' s'' -> decorated s s''
| dec_drop : forall s s' s'', inserted plain_noise s' s -> decorated s' s'' -> decorated s s''.

Definition text_decorated (src src' : SR.Model.Pipeline.str) : Prop :=
  decorated (lines_of_text src) (lines_of_text src').

Definition nolf (l : line) : bool := forallb (fun c => negb (c =? 10)) l.

(* no line feed but the last character; the final line of a text may lack it *)
Definition text_line (final : bool) (l : line) : bool :=
  match rev l with
  | [] => false
  | c :: b => nolf b && ((c =? 10) || final)
  end.

Fixpoint text_lines (ls : list line) : bool :=
  match ls with
  | [] => true
  | l :: r => text_line (match r with [] => true | _ :: _ => false end) l && text_lines r
  end.

Definition code_of (src : list line) : line := concat (map snd (cards src)).

(* ------------------------------------------------------------------ card decks *)
Record card_image := { ci_seq : line; ci_code : line; ci_id : line }.

Definition ci_line (c : card_image) : line := ci_seq c ++ 32 :: ci_code c ++ ci_id c.

Definition ci_ok (final : bool) (c : card_image) : bool :=
  Nat.eqb (length (ci_seq c)) 6
  && text_line final (ci_line c)
  && (length (ci_code c) <=? 65)%nat
  && (Nat.eqb (length (ci_code c)) 65 || match ci_id c with [] => true | _ :: _ => false end)
  && negb (forallb is_ws (ci_code c))
  && negb (starts_copy (ci_code c))
  && negb (directive_word (strip (ci_line c))).

Fixpoint deck_ok (d : list card_image) : bool :=
  match d with
  | [] => true
  | c :: r => ci_ok (match r with [] => true | _ :: _ => false end) c && deck_ok r
  end.

Definition deck_text (d : list card_image) : line := concat (map ci_line d).
Definition deck_code (d : list card_image) : line := concat (map ci_code d).

(* ------------------------------------------------------------------ a text that reads as a list of entries *)
Definition reads_as (text : SR.Model.Pipeline.str) (es : list centry) : Prop :=
  forallb ce_ok es = true /\ sentences_of_text text = Ok (spec_sentences (map ce_print es)).
