(* Spec/EstructWf.v - one helper that occurs in the statements of Props/C04c.v and used to be defined beside the lemmas of
   Proofs/EstructP.v (audit item G1).  DEFINITION ONLY, moved textually.
   is_none   the option is None
   Imports: nothing of this development. *)
From Coq Require Import NArith List.
Import ListNotations.
Local Open Scope N_scope.

Definition is_none {T} (o : option T) : bool := match o with None => true | Some _ => false end.
