(* What C12 demands of the text layer, written from the COBOL reference format and the property text,
   not from the code.  Only the string primitives (white-space class, strip, prefix test, list equality)
   are shared with the model.

   A card image has a sequence area (columns 1-6), an indicator (column 7), the code area (columns 8-72)
   and an identification area (columns 73 and beyond).  Lines that carry no code ("noise"):
   blank lines, lines too short to have an indicator, comment lines (indicator star, slash or D), and
   lines whose only code is one of the listing directives EJECT SKIP1 SKIP2 SKIP3.
   Every other line contributes its code area; a line whose indicator is the minus sign continues the
   previous code line.  With a REPLACING list every code area has all pairs applied, in list order. *)
From Coq Require Import NArith List Bool Arith.
Import ListNotations.
Require Import SR.Base.Res SR.Model.RefFormat.
Open Scope N_scope.

Definition col7 (l : line) : N := nth 6 l 32.
Definition code_area (l : line) : line := firstn 65 (skipn 7 l).

Definition blank (l : line) : bool := forallb is_ws l.
Definition short (l : line) : bool := (length l <? 7)%nat.
Definition directive_word (w : line) : bool :=
  leqb w w_EJECT || leqb w w_SKIP1 || leqb w w_SKIP2 || leqb w w_SKIP3.

(* what the code recognises *)
Definition plain_noise (l : line) : bool :=
  blank l || short l || directive_word (strip l) || (col7 l =? 42) || (col7 l =? 68).
(* what the reference format additionally calls noise: the two known findings *)
Definition slash_comment (l : line) : bool := negb (plain_noise l) && (col7 l =? 47).
Definition numbered_directive (l : line) : bool :=
  negb (plain_noise l) && negb (col7 l =? 47) && is_ws (col7 l) && directive_word (strip (code_area l)).

Definition noise (l : line) : bool := plain_noise l || slash_comment l || numbered_directive l.

Definition known_bad_line (l : line) : bool := slash_comment l || numbered_directive l.
Definition known_bad (src : list line) : bool := existsb known_bad_line src.

Definition spec_cards (src : list line) : list card :=
  map (fun l => (col7 l, code_area l)) (filter (fun l => negb (noise l)) src).

(* continuation, as a right fold: the text of a line absorbs the texts of the minus-lines that follow *)
Definition next_is_cont (r : list card) : bool :=
  match r with (i, _) :: _ => i =? 45 | [] => false end.

Fixpoint groups (cs : list card) : list line :=
  match cs with
  | [] => []
  | c :: r =>
      match groups r with
      | g :: gs => if next_is_cont r then (snd c ++ g) :: gs else snd c :: g :: gs
      | [] => [snd c]
      end
  end.

(* non-overlapping left-to-right substitution, by cutting the matched prefix off *)
Fixpoint subst (fuel : nat) (old new s : line) : line :=
  match fuel with
  | O => s
  | S f =>
      match s with
      | [] => []
      | c :: t => if is_prefix old s then new ++ subst f old new (skipn (length old) s)
                  else c :: subst f old new t
      end
  end.

Definition subst_all (repl : list (line * line)) (s : line) : line :=
  fold_left (fun acc p => subst (S (length acc)) (fst p) (snd p) acc) repl s.

Definition repl_ok (repl : list (line * line)) : bool := forallb (fun p => nonempty (fst p)) repl.

(* None = the property says nothing (no code line at all; a COPY statement, which the parser refuses;
   an empty search string) *)
Definition spec_reference_format (src : list line) (repl : list (line * line)) : option (list line) :=
  if negb (repl_ok repl) then None
  else
    let gs := groups (map (fun c => (fst c, subst_all repl (snd c))) (spec_cards src)) in
    match gs with
    | [] => None
    | _ => if existsb starts_copy gs then None else Some gs
    end.

(* ---------------------------------------------------------------- sentences *)

(* one printed entry: leading white space, two level digits, white space, the clause text, a period and one
   white-space character *)
Record entry := { e_lead : line; e_d1 : N; e_d2 : N; e_gap : line; e_body : line; e_term : N }.

Definition print_entry (e : entry) : line :=
  e_lead e ++ e_d1 e :: e_d2 e :: e_gap e ++ e_body e ++ [46; e_term e].

(* a period followed by white space somewhere inside s *)
Fixpoint has_term (s : line) : bool :=
  match s with
  | [] => false
  | c :: t => ((c =? 46) && (match t with w :: _ => is_ws w | [] => false end)) || has_term t
  end.

Definition wf_entry (e : entry) : bool :=
  forallb is_ws (e_lead e) && is_digit (e_d1 e) && is_digit (e_d2 e) && forallb is_ws (e_gap e)
  && (match e_body e with c :: _ => negb (is_ws c) | [] => true end)
  && negb (has_term (e_body e)) && is_ws (e_term e).

Definition spec_sentences (es : list entry) : list (line * line) :=
  map (fun e => ([e_d1 e; e_d2 e], e_body e)) es.

(* ---------------------------------------------------------------- layout of one entry over lines *)

(* words separated by arbitrary non-empty white space (blanks, line ends, padding) *)
Definition wf_word (w : line) : bool := nonempty w && forallb (fun c => negb (is_ws c)) w.
Definition wf_sep (s : line) : bool := nonempty s && forallb is_ws s.

Fixpoint layout (w : line) (rest : list (line * line)) : line :=
  match rest with
  | [] => w
  | (sep, w') :: r => w ++ sep ++ layout w' r
  end.

(* ---------------------------------------------------------------- vocabulary of the theorem statements *)

(* l and l' carry the same columns 7-72: sequence areas s, s' (6 characters) and identification areas t, t'
   differ freely; mid = indicator + code area, at most 66 characters, and when it is shorter than 66 the
   lines end there *)
Definition same_code (l l' : line) : Prop :=
  exists s s' mid t t',
    l = s ++ mid ++ t /\ l' = s' ++ mid ++ t' /\ length s = 6%nat /\ length s' = 6%nat /\ mid <> [] /\
    (length mid = 66%nat \/ (t = [] /\ t' = [])).

(* the filters that look at the whole line see the same thing *)
Definition same_class (l l' : line) : Prop :=
  blank l = blank l' /\ directive_word (strip l) = directive_word (strip l').

Definition only_seq_area (l l' : line) : Prop := (length l < 7)%nat /\ (length l' < 7)%nat.

Definition seq_variant (l l' : line) : Prop :=
  l = l' \/ only_seq_area l l' \/ (same_code l l' /\ same_class l l').

(* s' is s with extra lines satisfying P inserted anywhere *)
Inductive inserted (P : line -> bool) : list line -> list line -> Prop :=
| ins_nil : inserted P [] []
| ins_keep : forall l s s', inserted P s s' -> inserted P (l :: s) (l :: s')
| ins_add : forall l s s', P l = true -> inserted P s s' -> inserted P s (l :: s').

(* outcome of reference_format given the texts of the continuation groups *)
Definition checked (gs : list line) : res (list line) :=
  match gs with
  | [] => Err RuntimeError
  | _ => if existsb starts_copy (removelast gs) then Err ValueError else Ok gs
  end.

Definition wf_rest (rest : list (line * line)) : Prop :=
  Forall (fun p => wf_sep (fst p) = true /\ wf_word (snd p) = true) rest.

(* a laid-out entry holds no sentence terminator when no word but the last ends in a period *)
Definition no_dot_end (w : line) : bool := negb (last w 0 =? 46).

