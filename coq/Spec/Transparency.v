(* C03 - what format transparency demands, written without looking at the readers.

   An abstract workbook is a list of named sheets; a sheet holds a table: a header (the column
   names) and data rows of text cells.  Text is a list of code points.  What a reader must
   deliver, whatever the physical format: the sheets (names, order), for every sheet its data
   rows (count, order) and, for every row, the text under every column name ([cells_by_name]).

   Two physical formats are decoded by the library itself, so their writers are given here:
     fixed-width text   every cell left-justified and blank-padded to its column width, the
                        cells of a row back to back, one line feed after every row
     EBCDIC             the same characters encoded in code page 037, records back to back
                        (RECFM=N and RECFM=F have the same image: no descriptor words)
   A cell shorter than its column cannot be told from a blank-padded one in these formats:
   the table such a file holds is the PADDED table ([pad_table]); for cells that fill their
   columns exactly it is the table itself ([pad_table_exact] in Proofs/WorkbookP.v).

   Code page 037: the decode table (Gen/Cp037.v) is printed from the CPython codec the
   implementation calls; [cp037_encode] is its inverse lookup. *)
From Coq Require Import NArith List Bool Arith.
Import ListNotations.
Require Import SR.Gen.Cp037.

Definition text := list N.

Fixpoint text_eqb (a b : text) : bool :=
  match a, b with
  | [], [] => true
  | x :: a', y :: b' => N.eqb x y && text_eqb a' b'
  | _, _ => false
  end.

Record table := mk_table { t_header : list text; t_rows : list (list text) }.
Definition workbook := list (text * table).

(* every data row has one cell per column *)
Definition rect (T : table) : bool :=
  forallb (fun r => Nat.eqb (length r) (length (t_header T))) (t_rows T).

(* for each data row the association column name -> cell *)
Definition cells_by_name (T : table) : list (list (text * text)) :=
  map (fun r => combine (t_header T) r) (t_rows T).

(* a Numbers document: sheets holding named tables; the reader presents every table as a sheet
   named sheet::table (documented in NumbersUnpacker.sheet_iter) *)
Definition numbers_doc := list (text * list (text * table)).
Definition sep : text := [58; 58]%N.
Definition composite (s t : text) : text := s ++ sep ++ t.
Definition flatten_numbers (d : numbers_doc) : workbook :=
  flat_map (fun s => map (fun t => (composite (fst s) (fst t), snd t)) (snd s)) d.

(* ------------------------------------------------------------------ fixed-width formats *)
Definition blank : N := 32%N.
Definition nl : N := 10%N.
Definition cr : N := 13%N.

Definition pad (w : nat) (c : text) : text := c ++ repeat blank (w - length c).
Definition pad_row (widths : list nat) (r : list text) : list text :=
  map (fun p => pad (fst p) (snd p)) (combine widths r).
Definition pad_table (widths : list nat) (T : table) : table :=
  mk_table (t_header T) (map (pad_row widths) (t_rows T)).

(* one width >= 1 per column, one cell per column, no cell longer than its column *)
Definition fits (widths : list nat) (T : table) : bool :=
  Nat.eqb (length widths) (length (t_header T))
  && forallb (fun w => Nat.leb 1 w) widths
  && forallb (fun r => Nat.eqb (length r) (length widths)
                       && forallb (fun p => Nat.leb (length (snd p)) (fst p)) (combine widths r))
             (t_rows T).

(* every cell fills its column exactly: padding changes nothing *)
Definition fits_exactly (widths : list nat) (T : table) : bool :=
  fits widths T
  && forallb (fun r => forallb (fun p => Nat.eqb (length (snd p)) (fst p)) (combine widths r)) (t_rows T).

Definition write_fixed_row (widths : list nat) (r : list text) : text :=
  concat (pad_row widths r) ++ [nl].
Definition write_fixed_text (T : table) (widths : list nat) : text :=
  concat (map (write_fixed_row widths) (t_rows T)).

(* a line-oriented text file cannot hold a line break inside a cell *)
Definition line_safe_text (c : text) : bool :=
  forallb (fun x => negb (N.eqb x nl) && negb (N.eqb x cr)) c.
Definition line_safe (T : table) : bool := forallb (forallb line_safe_text) (t_rows T).

(* ---- code page 037 ---- *)
Fixpoint index_in (c : N) (l : list N) (i : N) : option N :=
  match l with
  | [] => None
  | x :: t => if N.eqb x c then Some i else index_in c t (N.succ i)
  end.

(* the byte that decodes to c *)
Definition cp037_encode (c : N) : option N := index_in c cp037_table 0%N.

Definition in_repertoire (c : N) : bool :=
  match cp037_encode c with Some _ => true | None => false end.

Definition encode_char (c : N) : N :=
  match cp037_encode c with Some b => b | None => 111%N end.     (* outside the repertoire: '?' *)
Definition encode_text (s : text) : list N := map encode_char s.

Definition repertoire_ok (T : table) : bool := forallb (forallb (forallb in_repertoire)) (t_rows T).

Definition write_ebcdic_row (widths : list nat) (r : list text) : list N :=
  encode_text (concat (pad_row widths r)).
Definition write_ebcdic (T : table) (widths : list nat) : list N :=
  concat (map (write_ebcdic_row widths) (t_rows T)).
