(* C04, second layer: the conjunction [cfg_ok] of Spec/SizeCfg.v taken apart.
   [cfg_ok] is one boolean: size function = listed width AND the decoder accepts that width AND the
   native-bytes reader (Struct) reports it AND the text reader reports it.  Its known-bad set
   [known_bad_C04] therefore excludes every configuration on which ANY conjunct fails - all packed
   spellings, because Struct cannot size a packed item, although the size function and the decoder
   are right for them.  Here every conjunct is a statement of its own, with its own exception set,
   over the same complete enumeration [cfgs].  No proofs in this file. *)
From Coq Require Import ZArith NArith List Bool.
Import ListNotations.
Require Import SR.Base.Res SR.Spec.Encode SR.Spec.Fits SR.Spec.SizeCfg SR.Model.Estruct.
Open Scope N_scope.

(* ---- the statements, one per report (Prop form: what a reader of the property expects to see) ---- *)

(* the size function reports the width the property lists *)
Definition size_is_listed (c : cfg) : Prop :=
  let '(u, s, m, n) := c in
  exists sz, spec_size u s m n = Some sz /\ calcsize u (mkpic s m n) = Ok sz.

(* the item's own decoder accepts a buffer of the width the property lists *)
Definition decoder_takes_listed (c : cfg) : Prop :=
  let '(u, s, m, n) := c in
  exists sz, spec_size u s m n = Some sz /\ decoder_accepts u (mkpic s m n) (N.to_nat sz) = true.

(* both: the width used to lay out the record is the listed one and is one the decoder accepts *)
Definition size_and_decoder (c : cfg) : Prop :=
  let '(u, s, m, n) := c in
  exists sz, spec_size u s m n = Some sz /\ calcsize u (mkpic s m n) = Ok sz
             /\ decoder_accepts u (mkpic s m n) (N.to_nat sz) = true.

(* the native-bytes reader (Struct.calcsize) reports the listed width ... *)
Definition struct_is_listed (c : cfg) : Prop :=
  let '(u, s, m, n) := c in
  exists sz, spec_size u s m n = Some sz /\ struct_calcsize u (mkpic s m n) = Ok sz.

(* ... and the same number as the size function, whatever the listed width is *)
Definition struct_same_as_size (c : cfg) : Prop :=
  let '(u, s, m, n) := c in
  exists sz, calcsize u (mkpic s m n) = Ok sz /\ struct_calcsize u (mkpic s m n) = Ok sz.

(* the text reader: for DISPLAY items (a text file holds nothing else) the listed width *)
Definition text_is_listed (c : cfg) : Prop :=
  let '(u, s, m, n) := c in
  u = display_spelling -> spec_size u s m n = Some (text_calcsize (mkpic s m n)).

(* ---- the same as booleans (what the enumeration computes) ---- *)
Definition size_okb (c : cfg) : bool :=
  let '(u, s, m, n) := c in
  match spec_size u s m n with None => false | Some sz => res_N_eqb (calcsize u (mkpic s m n)) sz end.

Definition decoder_okb (c : cfg) : bool :=
  let '(u, s, m, n) := c in
  match spec_size u s m n with None => false | Some sz => decoder_accepts u (mkpic s m n) (N.to_nat sz) end.

Definition struct_okb (c : cfg) : bool :=
  let '(u, s, m, n) := c in
  match spec_size u s m n with None => false | Some sz => res_N_eqb (struct_calcsize u (mkpic s m n)) sz end.

Definition struct_same_okb (c : cfg) : bool :=
  let '(u, s, m, n) := c in
  match calcsize u (mkpic s m n) with Ok sz => res_N_eqb (struct_calcsize u (mkpic s m n)) sz | Err _ => false end.

Definition text_okb (c : cfg) : bool :=
  let '(u, s, m, n) := c in
  negb (u =? display_spelling)
  || match spec_size u s m n with None => false | Some sz => text_calcsize (mkpic s m n) =? sz end.

(* ---- the exception sets, each as narrow as the defect (codes as in known_findings.json / known_bad_C04) ---- *)

(* finding 1, K-signed-binary-size: a signed binary item of 4 or 9 digits *)
Definition signed_binary_4_9 (c : cfg) : bool :=
  let '(u, s, m, n) := c in is_binary u && s && ((m + n =? 4)%nat || (m + n =? 9)%nat).

(* size function alone: only finding 1 *)
Definition known_bad_calcsize (c : cfg) : option Z := if signed_binary_4_9 c then Some 1%Z else None.

(* decoder alone: only finding 2, K-float-no-decoder (COMP-1 / COMP-2 have a size but no decoder) *)
Definition known_bad_decoder (c : cfg) : option Z :=
  let '(u, s, m, n) := c in if is_float u then Some 2%Z else None.

(* size function and decoder: findings 1 and 2 - no packed spelling in it *)
Definition known_bad_size (c : cfg) : option Z :=
  let '(u, s, m, n) := c in
  if signed_binary_4_9 c then Some 1%Z else if is_float u then Some 2%Z else None.

(* Struct report against the listed width: only finding 3, K-struct-packed *)
Definition known_bad_struct (c : cfg) : option Z :=
  let '(u, s, m, n) := c in if is_packed u then Some 3%Z else None.

(* Struct report against the size function: findings 1 (the two disagree: Struct has the listed width) and 3 *)
Definition known_bad_struct_same (c : cfg) : option Z :=
  let '(u, s, m, n) := c in
  if signed_binary_4_9 c then Some 1%Z else if is_packed u then Some 3%Z else None.

(* Text report on DISPLAY items: no exception at all *)
