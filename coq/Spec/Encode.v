(* What a mainframe stores (the property's side of C02/C18/C04), written without looking at
   the decoder. *)
From Coq Require Import ZArith NArith List Bool.
Import ListNotations.
Open Scope N_scope.
Require Import SR.Gen.Cp037.

(* code page 037 (the table is generated from CPython's cp037 codec, which is trusted to be the code page) *)
Definition cp037 (b : N) : N := nth (N.to_nat b) cp037_table 65533.

(* sign nibbles *)
Definition pos_signs : list N := [12; 15; 10; 14].   (* C F A E *)
Definition neg_signs : list N := [13; 11].           (* D B *)
Definition is_neg_sign (s : N) : bool := existsb (N.eqb s) neg_signs.
Definition valid_sign (s : N) : bool := existsb (N.eqb s) pos_signs || is_neg_sign s.

Definition is_digit (d : N) : bool := d <? 10.

(* pack a list of nibbles two per byte (an even number of nibbles) *)
Fixpoint pack_pairs (nibbles : list N) : list N :=
  match nibbles with
  | a :: b :: t => (16 * a + b) :: pack_pairs t
  | _ => []
  end.

(* packed decimal: digits then the sign nibble, left-padded with one zero nibble to whole bytes *)
Definition enc_packed (ds : list N) (s : N) : list N :=
  let nibbles := ds ++ [s] in
  pack_pairs (if Nat.even (length nibbles) then nibbles else 0 :: nibbles).

(* zoned decimal: one byte per digit, zone F, the zone of the last byte carries the sign *)
Fixpoint enc_zoned (ds : list N) (z : N) : list N :=
  match ds with
  | [] => []
  | [d] => [16 * z + d]
  | d :: t => (240 + d) :: enc_zoned t z
  end.

(* big-endian two's complement, w bytes *)
Fixpoint to_be (w : nat) (u : N) : list N :=
  match w with
  | O => []
  | S w' => to_be w' (u / 256) ++ [u mod 256]
  end.
Definition enc_be (w : nat) (v : Z) : list N := to_be w (Z.to_N (v mod 2 ^ (8 * Z.of_nat w))).

(* byte widths the property lists *)
Definition spec_binary_width (digits : nat) : option nat :=
  if (digits <? 1)%nat then None
  else if (digits <=? 4)%nat then Some 2%nat
  else if (digits <=? 9)%nat then Some 4%nat
  else if (digits <=? 18)%nat then Some 8%nat
  else None.
Definition spec_packed_width (digits : nat) : nat := (digits / 2 + 1)%nat.
Definition spec_display_width (signed : bool) (digits : nat) : nat := ((if signed then 1 else 0) + digits)%nat.

(* the 13 USAGE spellings, numbered as in Gen/EstructParams.v (order of estruct.clause_pattern):
   0 BINARY 1 COMPUTATIONAL-1 2 COMPUTATIONAL-2 3 COMPUTATIONAL-3 4 COMPUTATIONAL-4 5 COMPUTATIONAL
   6 COMP-1 7 COMP-2 8 COMP-3 9 COMP-4 10 COMP 11 DISPLAY 12 PACKED-DECIMAL *)
Definition packed_spellings : list N := [3; 8; 12].
Definition binary_spellings : list N := [0; 4; 5; 9; 10].
Definition float4_spellings : list N := [1; 6].
Definition float8_spellings : list N := [2; 7].
Definition display_spelling : N := 11.
