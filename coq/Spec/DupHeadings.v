(* Spec/DupHeadings.v - a heading row that holds the same name more than once (known finding
   K-duplicate-heading-last-wins of property C09).  DEFINITIONS ONLY, written over plain lists
   without reference to the implementation; used by Judge/JC09.v (the pinned wrong behaviour and
   what the property demands instead) and by the statements of Props/C09c.v.

     last_index k hs     the position of the LAST header equal to k
     all_indices k hs    the positions of ALL headers equal to k
     first_names hs      the distinct header names in order of first occurrence
     last_wins_value     what asking a row for the name k returns when the last column of that
                         name wins: the cell under the last column headed k (None inside = absent
                         cell, None outside = k is no header)
     last_wins_values    the value list with one value per DISTINCT name, in order of first
                         occurrence, each read from the last column of that name
     repeated hs         some name occurs twice *)
From Coq Require Import List Bool Arith.
Import ListNotations.

Section DupHeadings.
Context {C K : Type}.
Variable keqb : K -> K -> bool.

Fixpoint last_index (k : K) (hs : list K) : option nat :=
  match hs with
  | [] => None
  | h :: t =>
      match last_index k t with
      | Some i => Some (S i)
      | None => if keqb h k then Some 0 else None
      end
  end.

Fixpoint all_indices_from (n : nat) (k : K) (hs : list K) : list nat :=
  match hs with
  | [] => []
  | h :: t => (if keqb h k then [n] else []) ++ all_indices_from (S n) k t
  end.
Definition all_indices (k : K) (hs : list K) : list nat := all_indices_from 0 k hs.

(* the names not seen so far, each at its first occurrence *)
Fixpoint dedup (seen hs : list K) : list K :=
  match hs with
  | [] => []
  | h :: t => if existsb (keqb h) seen then dedup seen t else h :: dedup (h :: seen) t
  end.
Definition first_names (hs : list K) : list K := dedup [] hs.

Definition last_wins_value (hs : list K) (k : K) (r : list C) : option (option C) :=
  option_map (nth_error r) (last_index k hs).

Definition last_wins_values (hs : list K) (r : list C) : list (option C) :=
  map (fun k => match last_index k hs with Some i => nth_error r i | None => None end) (first_names hs).

Fixpoint repeated (hs : list K) : bool :=
  match hs with
  | [] => false
  | h :: t => existsb (keqb h) t || repeated t
  end.
End DupHeadings.
