(* Spec/GlobalsWf.v - the statement of history independence and the copybook fragment of its counter-examples, as they
   occur in Props/C11.v; they used to be defined beside the lemmas of Proofs/GlobalsP.v (audit item G1).
   DEFINITIONS ONLY, moved textually.
   history_independent_for m   every output of the state machine is the same from every reachable state
   L05, text_05_filler, filler_entry, fragment   the copybook fragment 05 FILLER PIC X. 05 FILLER PIC X. (no level 01)
   fname n                     the generated name FILLER-n
   Imports: the MODEL files Model/Globals.v (modes, op, run_m, outs_m, init: the state machine of the module globals) and
   Model/Structure.v (the entry record, FILLER, gen_name). *)
From Coq Require Import NArith List.
Import ListNotations.
Require Import SR.Model.Globals.
Require SR.Model.Structure.
(* the statement, for an arbitrary choice of the two behaviours *)
Definition history_independent_for (m : modes) : Prop :=
  forall (h qs : list op), outs_m m (run_m m init h) qs = outs_m m init qs.

Definition L05 : Structure.lvl := (48, 53)%N.

Definition text_05_filler : str := [70; 73; 76; 76; 69; 82; 32; 80; 73; 67; 32; 88]%N.   (* FILLER PIC X *)

Definition filler_entry : entry :=
  {| Structure.elv := L05; Structure.ename := None; Structure.efill := Some Structure.FILLER;
     Structure.eredef := None; Structure.epic := true; Structure.eocc := false;
     Structure.etext := text_05_filler |}.

(* the copybook fragment  05 FILLER PIC X.  05 FILLER PIC X.  (no level 01) *)
Definition fragment : list entry := [filler_entry; filler_entry].

Definition fname (n : N) : str := Structure.gen_name n.
