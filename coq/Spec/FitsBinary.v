(* Spec/FitsBinary.v - C18 for BINARY items (COMP, COMP-4, BINARY, COMPUTATIONAL, COMPUTATIONAL-4): what it means for the
   result of decoding a binary field to fit its PICTURE.  DEFINITIONS ONLY (statements of Props/C18c.v, judge of C18).

   Imports Model/Estruct.v for the data types [pic] and [pyval] and, in the trigger predicate [binary_exceeds_picture] only,
   for [signed_be] (the two's-complement reading of a big-endian byte string - the number the field holds).

   A binary item PIC S?9(m)V9(n) stores an integer v: the number v * 10^-n.  It fits the picture when it has no more than m
   integer digits and exactly n fraction digits, i.e. as a decimal: exponent -n and a coefficient below 10^(m+n) ([fits] of
   Spec/Fits.v) - and, for a picture without S, when it is not negative.

   The unsigned case: the decoder reads EVERY binary field as a signed number (struct formats h, i, q).  A negative result for
   a picture without S means the high bit of the field is set; read as the unsigned number it is on the machine, the field
   then holds at least 2^15, 2^31, 2^63 - more than the largest number of 4, 9, 18 digits.  So "negative in an unsigned
   picture" and "too many digits under the unsigned reading" are the same buffers ([unsigned_reading] of Props/C18c.v). *)
From Coq Require Import ZArith NArith List Bool.
Import ListNotations.
Require Import SR.Base.Res SR.Base.Dec SR.Spec.Encode SR.Spec.Fits SR.Model.Estruct.
Open Scope Z_scope.

(* Decimal(v) of a Python int v: exponent 0 *)
Definition dec_of_int (v : Z) : dec := mkdec (v <? 0) (Z.to_N (Z.abs v)) 0.

(* v units of 10^-n: the number a binary field with n implied fraction digits stores when its integer content is v *)
Definition stored_number (n : nat) (v : Z) : dec := mkdec (v <? 0) (Z.to_N (Z.abs v)) (- Z.of_nat n).

(* a picture without S holds no negative number *)
Definition sign_fits (signed : bool) (d : dec) : bool := signed || negb (neg d) || (coef d =? 0)%N.

Definition fits_signed (signed : bool) (m n : nat) (d : dec) : bool := fits m n d && sign_fits signed d.

(* the result of a decode fits the picture: a Decimal as it is, an int as the Decimal it converts to (exponent 0, so an
   int fits only a picture without fraction digits), a str never *)
Definition fits_result (p : pic) (r : pyval) : bool :=
  match r with
  | VDec d => fits_signed (p_signed p) (p_int p) (p_frac p) d
  | VInt v => fits_signed (p_signed p) (p_int p) (p_frac p) (dec_of_int v)
  | VStr _ => false
  end.

(* the integers of at most [digits] decimal digits: -(10^digits - 1) .. 10^digits - 1, from 0 without S *)
Definition picture_low (signed : bool) (digits : nat) : Z := if signed then - (10 ^ Z.of_nat digits - 1) else 0.
Definition picture_high (digits : nat) : Z := 10 ^ Z.of_nat digits - 1.
Definition in_picture_range (signed : bool) (digits : nat) (v : Z) : bool :=
  (picture_low signed digits <=? v) && (v <=? picture_high digits).

(* the two's-complement range of a field of w bytes *)
Definition width_low (w : nat) : Z := - 2 ^ (8 * Z.of_nat w - 1).
Definition width_high (w : nat) : Z := 2 ^ (8 * Z.of_nat w - 1) - 1.

Definition bytes_ok (buffer : list N) : bool := forallb (fun b => (b <? 256)%N) buffer.

(* ---- trigger of the known finding K-binary-exceeds-picture: a binary item whose picture has fraction digits (the result
   is an int: the scale is never applied), or whose field holds a number outside the picture's digits ---- *)
Definition binary_exceeds_picture (p : pic) (buffer : list N) : bool :=
  (0 <? p_frac p)%nat
  || negb (in_picture_range (p_signed p) (p_int p + p_frac p) (signed_be (length buffer) buffer)).

(* ---- all 65536 buffers of two bytes, and counting those whose decode does not fit ---- *)
Definition halfword_buffers : list (list N) :=
  flat_map (fun a => map (fun b => [N.of_nat a; N.of_nat b]) (seq 0 256)) (seq 0 256).

Definition count_if {A} (f : A -> bool) (l : list A) : N := fold_left (fun acc x => if f x then (acc + 1)%N else acc) l 0%N.

(* a decode that returns a value that does not fit (an error is not a violation) *)
Definition violates (u : N) (p : pic) (buffer : list N) : bool :=
  match unpack u p buffer with
  | Ok r => negb (fits_result p r)
  | Err _ => false
  end.
