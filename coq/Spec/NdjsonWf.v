(* Spec/NdjsonWf.v - two hypothesis predicates of the NDJSON round trip (Props/C03b.v) that used to be defined beside the
   lemmas of Proofs/NdjsonP.v (audit item G1).  DEFINITIONS ONLY, moved textually.
   scalar_text ea s   with ensure_ascii every text qualifies, without it the text holds Unicode scalar values only
   scalar_pair ea kv  both key and value qualify
   Imports: the MODEL files Model/Ndjson.v (text = list N) and Model/Utf8.v (scalar: a code point that is not a surrogate). *)
From Coq Require Import List.
Import ListNotations.
Require Import SR.Model.Ndjson.
Local Open Scope N_scope.
Require Import SR.Model.Utf8.

Definition scalar_text (ea : bool) (s : text) : bool := ea || forallb scalar s.

Definition scalar_pair (ea : bool) (kv : text * text) : bool := scalar_text ea (fst kv) && scalar_text ea (snd kv).
