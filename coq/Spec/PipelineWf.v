(* Spec/PipelineWf.v - the predicates and functions that occur in the statements of Props/C07b.v (copybook text to schema
   documents) and used to be defined beside the lemmas of Proofs/PipelineP.v (audit item G1).  DEFINITIONS ONLY, moved
   textually, with one exception: entry_defs said StructureP.kept_of, it now says StructureWf.kept_of (the same constant,
   which moved to Spec/StructureWf.v).  The Import commands between the definitions are those the definitions were
   written under in the proof file (they fix which of Spec/Clauses.v, Model/Structure.v, Model/Pipeline.v a short name means).
   docs_of_infos          layer B (structure, annotation, document builder) on the recovered entries
   erase, xpre            an annotated tree without its annotation / its annotations in document order
   same_core, same_clauses, content   two copybook entries that differ in layout only / in spelling only; an entry's content
   knames, nodup_str, shape_ok, copybook_shape_ok   siblings carry different names, no elementary OCCURS item has children
   name_cobol, entry_defs  the entries that become nodes, as (data name, cobol text)
   Resp2.copybook_names_ok   no item named like one of its ancestors, no name starting with REDEFINES-  (kept inside a
                          module Resp2 because the statements call it Resp2.copybook_names_ok)
   Imports: Base/Res.v, Spec/Clauses.v (str, upper), Spec/Copybook.v (centry, spec_entry, spec_info, names_wf),
   Spec/StructureWf.v (kept_of) and the MODEL files Model/Structure.v (entry, dde, tree, structure, cobol_of, str_eqb) and
   Model/Pipeline.v (info, xtree, annot_forest, kept_infos, build_all, jdoc, the result type R): these statements are about
   the composed model of the pipeline. *)
From Coq Require Import NArith List Bool Permutation.
Import ListNotations.
Require Import SR.Base.Res.
Require SR.Spec.Clauses SR.Model.Structure SR.Spec.StructureWf.
Require Import SR.Model.Pipeline SR.Spec.Copybook.
Local Open Scope N_scope.
Import SR.Spec.Clauses.

Definition docs_of_infos (xs : list info) : R (list jdoc) :=
  match SR.Model.Structure.structure (map i_entry xs) with
  | Err e => RErr e
  | Ok f => match annot_forest f (kept_infos xs) with
            | None => RUn 6
            | Some xf => build_all xf
            end
  end.
Local Notation dict := SR.Model.Pipeline.dict.
Local Notation str := SR.Model.Pipeline.str.
Import SR.Model.Structure.

Fixpoint erase (t : xtree) : tree :=
  match t with XNode d b _ kids => TNode d b (erase_f kids) end
with erase_f (ks : xforest) : list tree :=
  match ks with XNil => [] | XCons k r => erase k :: erase_f r end.

Fixpoint xpre (t : xtree) : list info :=
  match t with XNode _ _ x kids => x :: xpre_f kids end
with xpre_f (ks : xforest) : list info :=
  match ks with XNil => [] | XCons k r => xpre k ++ xpre_f r end.
Import SR.Spec.Clauses.

(* the documents do not depend on the layout: sequence areas, indentation, the white space around the level number, the
   line ends after the periods, what follows the last entry *)
Definition same_core (e e' : centry) : Prop :=
  ce_d1 e = ce_d1 e' /\ ce_d2 e = ce_d2 e' /\ ce_cs e = ce_cs e' /\ ce_sps e = ce_sps e'.

(* clause order, optional words, synonyms, letter case, separators: the recovered entries have the same content *)
Definition same_clauses (e e' : centry) : Prop :=
  ce_d1 e = ce_d1 e' /\ ce_d2 e = ce_d2 e' /\ Permutation.Permutation (ce_cs e) (ce_cs e').

Definition content (e : entry) : lvl * option str * option str * option str * bool * bool :=
  (elv e, ename e, option_map (map upper) (efill e), eredef e, epic e, eocc e).
Import SR.Model.Structure.

Fixpoint knames (ks : xforest) : list str :=
  match ks with XNil => [] | XCons k r => du (xdde k) :: knames r end.

Fixpoint nodup_str (l : list str) : bool :=
  match l with [] => true | x :: r => negb (existsb (str_eqb x) r) && nodup_str r end.

(* siblings carry different unique names, and an elementary OCCURS item (PICTURE and OCCURS) has no subordinate entries *)
Fixpoint shape_ok (t : xtree) : bool :=
  match t with
  | XNode d _ _ kids =>
      nodup_str (knames kids) && shape_ok_f kids
      && (if eocc (de d) && epic (de d) then match kids with XNil => true | XCons _ _ => false end else true)
  end
with shape_ok_f (ks : xforest) : bool :=
  match ks with XNil => true | XCons k r => shape_ok k && shape_ok_f r end.

Definition name_cobol (d : dde) : str * str := (dde_name (de d), cobol_of d).

(* the entries of the copybook that become nodes, as (data name, cobol text) *)
Definition entry_defs (es : list centry) : list (str * str) :=
  map name_cobol (StructureWf.kept_of (map spec_entry es)).

(* siblings carry different names and no elementary OCCURS item has subordinate entries - decided on the forest of the
   copybook's entries *)
Definition copybook_shape_ok (es : list centry) : bool :=
  match structure (map spec_entry es) with
  | Ok f => match annot_forest f (kept_infos (map spec_info es)) with
            | Some xf => forallb shape_ok xf
            | None => false
            end
  | Err _ => false
  end.

Module Resp2.
Import SR.Model.Structure.
Import SR.Spec.Clauses.

(* no item named like one of its ancestors, no name starting with REDEFINES- : on the forest of the copybook's entries
   (nothing to ask when structure() refuses the copybook) *)
Definition copybook_names_ok (es : list centry) : bool :=
  match SR.Model.Structure.structure (map spec_entry es) with
  | Ok f => match annot_forest f (kept_infos (map spec_info es)) with
            | Some xf => forallb (names_wf []) xf
            | None => false
            end
  | Err _ => true
  end.
End Resp2.
