(* C04: the complete finite configuration space the property quantifies over, and the statement
   of what must hold for one configuration. *)
From Coq Require Import ZArith NArith List Bool.
Import ListNotations.
Require Import SR.Base.Res SR.Spec.Encode SR.Spec.Fits SR.Model.Estruct.
Open Scope N_scope.

Definition cfg := (N * bool * nat * nat)%type.     (* usage spelling, signed, integer digits, fraction digits *)

Definition digit_pairs : list (nat * nat) :=
  flat_map (fun m => map (fun n => (m, n)) (seq (if (m =? 0)%nat then 1 else 0) (if (m =? 0)%nat then 18 else 19 - m)))
           (seq 0 19).

(* 13 spellings x {unsigned, signed} x {(m, n) | 1 <= m + n <= 18} *)
Definition cfgs : list cfg :=
  flat_map (fun u => flat_map (fun s => map (fun mn => (N.of_nat u, s, fst mn, snd mn)) digit_pairs) [false; true])
           (seq 0 13).

Definition res_N_eqb (a : res N) (b : N) : bool := match a with Ok x => x =? b | Err _ => false end.

Definition is_float (u : N) : bool := mem_spelling u float4_spellings || mem_spelling u float8_spellings.
Definition is_packed (u : N) : bool := mem_spelling u packed_spellings.
Definition is_binary (u : N) : bool := mem_spelling u binary_spellings.

(* what C04 demands of one configuration: the size function reports the width the property lists, the
   item's own decoder accepts a buffer of that width, the native-bytes reader reports the same width,
   and so does the text reader for DISPLAY items (text files hold nothing else). *)
Definition cfg_ok (c : cfg) : bool :=
  let '(u, s, m, n) := c in
  let p := mkpic s m n in
  match spec_size u s m n with
  | None => false
  | Some sz =>
      res_N_eqb (calcsize u p) sz
      && decoder_accepts u p (N.to_nat sz)
      && res_N_eqb (struct_calcsize u p) sz
      && (negb (u =? display_spelling) || (text_calcsize p =? sz))
  end.

(* the configurations on which the unchanged code is known to be wrong (known findings):
   1  signed binary items of 4 or 9 digits are sized with the S counted (pinned by the project's tests);
   2  COMP-1 / COMP-2 items have a size but no decoder at all;
   3  the native-bytes reader (Struct) refuses packed decimal. *)
Definition known_bad_C04 (c : cfg) : option Z :=
  let '(u, s, m, n) := c in
  if is_binary u && s && ((m + n =? 4)%nat || (m + n =? 9)%nat) then Some 1%Z
  else if is_float u then Some 2%Z
  else if is_packed u then Some 3%Z
  else None.
