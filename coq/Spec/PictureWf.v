(* Spec/PictureWf.v - the predicates and functions that occur in the statements of Props/C13.v (PICTURE strings) and used to
   be defined beside the lemmas of Proofs/PictureP.v (audit item G1).  DEFINITIONS ONLY, moved textually.
   okc, alpha      the characters of an expansion / of a picture
   num_elems       the elements of a printed numeric picture (sign, m digits, V, n digits)
   text_char       A or X
   pic_nonempty    an abstract picture (Spec/SchemaTruth.v fpic) with at least one position
   kb_dec          the part of known_bad that concerns the decoder-side scanner
   Imports: Spec/SchemaTruth.v (fpic) and the MODEL file Model/Picture.v (elt, the element kinds, mem, and for kb_dec the
   model's scanners dec_items, elems, kb_nd, kb_lastonly, kb_zeropos, bad_skip, empty_elt, ends_with_tok: kb_dec is a
   trigger set of known findings and is defined through what the model's scanner does). *)
From Coq Require Import NArith List Arith.
Import ListNotations.
Require Import SR.Model.Picture.
Local Open Scope N_scope.

Definition okc (c : N) : bool := mem c [43; 45; 83; 36; 44; 47; 42; 66; 86; 46; 65; 88; 57; 90; 48; 80].

Definition alpha (c : N) : bool := okc c || mem c [68; 67; 82].
Require SR.Spec.SchemaTruth.

Definition num_elems (s : bool) (m n : nat) : list elt :=
  (if s then [E KSign [83]] else [])
  ++ (match m with O => [] | S _ => [E KDigit (repeat 57 m)] end)
  ++ (match n with O => [] | S _ => [E KDecimal [86]; E KDigit (repeat 57 n)] end).

Definition text_char (alpha : bool) : N := if alpha then 65 else 88.

Definition pic_nonempty (p : SchemaTruth.fpic) : bool :=
  match p with
  | SchemaTruth.PNum _ m n _ _ => (1 <=? m + n)%nat
  | SchemaTruth.PText _ k _ => (1 <=? k)%nat
  end.

(* the part of known_bad that concerns the decoder-side scanner and zoned_decimal: findings 6, 1, 2, 8, 7
   restricted to estruct; findings 3, 4, 5 (generator side) play no role *)
Definition kb_dec (s : list N) : bool :=
  kb_nd s
  || (ends_with_tok (dec_items s) && existsb bad_skip (dec_items s))
  || existsb empty_elt (elems (dec_items s))
  || kb_lastonly s || kb_zeropos s.
