(* Spec/LayoutNamesWf.v - the hypothesis predicates of the layout theorem with data names repeated across groups
   (Props/C01c.v) that used to be defined beside their lemmas in Proofs/LayoutNamesP.v (audit item G1).
   DEFINITIONS ONLY, moved textually.
   siblings_distinct       the children of every group have distinct names
   anchored                the names that stand for a member of a REDEFINES union (redefined item or redefiner)
   anchored_names_unique   every anchored name occurs exactly once in the whole record
   no_redefines            the record has no REDEFINES at all
   dup_tree, dup_before_tree   the two witness records of the boundary theorems (finding K-duplicate-name-union)
   nodupb, is_member, count_id   helpers
   Imports: Spec/Layout.v (item, is_redefiner), Spec/LayoutWf.v (ids, kid_ids) and the MODEL file Model/Layout.v for
   redef_targets only (used by is_member). *)
From Coq Require Import List Arith NArith.
Import ListNotations.
Require Import SR.Spec.Layout SR.Model.Layout SR.Spec.LayoutWf.

Fixpoint nodupb (l : list id) : bool :=
  match l with [] => true | a :: r => negb (existsb (N.eqb a) r) && nodupb r end.

(* the children of every group carry pairwise distinct names *)
Fixpoint siblings_distinct (x : item) : bool :=
  match x with
  | Elem _ _ _ _ => true
  | Group _ _ _ ks => nodupb (kid_ids ks) && sd_kids ks
  end
with sd_kids (ks : items) : bool :=
  match ks with INil => true | ICons x xs => siblings_distinct x && sd_kids xs end.

(* x, followed by the siblings xs, is a member of a REDEFINES union: it redefines, or a later sibling redefines it *)
Definition is_member (x : item) (xs : items) : bool :=
  is_redefiner x || existsb (N.eqb (item_id x)) (redef_targets xs).

(* the names that are looked up through the anchors map: one entry per member of a union, anywhere in the tree *)
Fixpoint anchored (x : item) : list id :=
  match x with
  | Elem _ _ _ _ => []
  | Group _ _ _ ks => anchored_kids ks
  end
with anchored_kids (ks : items) : list id :=
  match ks with
  | INil => []
  | ICons x xs => (if is_member x xs then [item_id x] else []) ++ anchored x ++ anchored_kids xs
  end.

Definition count_id (i : id) (l : list id) : nat := length (filter (N.eqb i) l).

(* every name of a union member is the name of exactly one item of the record *)
Definition anchored_names_unique (t : item) : bool :=
  forallb (fun i => count_id i (ids t) =? 1) (anchored t).

(* no REDEFINES clause anywhere below the record (one on the record itself has no parent and is ignored) *)
Fixpoint no_redefines (x : item) : bool :=
  match x with
  | Elem _ _ _ _ => true
  | Group _ _ _ ks => (match redef_targets ks with [] => true | _ => false end) && nr_kids ks
  end
with nr_kids (ks : items) : bool :=
  match ks with INil => true | ICons x xs => no_redefines x && nr_kids xs end.

(* ------------------------------------------------------------------ the boundary, by a witness
   01 R. 05 ZIP PIC 9999. 05 G. 10 ZIP PIC XX. 05 Z2 REDEFINES ZIP PIC X.      (R=1 ZIP=2 G=3 Z2=4)
   the witness of finding K-duplicate-name-union: ZIP is the redefined item and its name is used again in G.
   The COBOL rules put ZIP at 0-4; the placeholder of ZIP resolves to G's ZIP, registered later: 4-6. *)
Definition dup_tree : item :=
  Group 1%N Once None
    (ICons (Elem 2%N 4 Once None)
    (ICons (Group 3%N Once None (ICons (Elem 2%N 2 Once None) INil))
    (ICons (Elem 4%N 1 Once (Some 2%N)) INil))).

(* the hypothesis is sufficient, not necessary: registration is last-wins, so a second use of a member's name
   EARLIER in the record is harmless.   01 R. 05 G. 10 ZIP PIC XX. 05 ZIP PIC 9999. 05 Z2 REDEFINES ZIP PIC X. *)
Definition dup_before_tree : item :=
  Group 1%N Once None
    (ICons (Group 3%N Once None (ICons (Elem 2%N 2 Once None) INil))
    (ICons (Elem 2%N 4 Once None)
    (ICons (Elem 4%N 1 Once (Some 2%N)) INil))).
