(* Spec/DupHeadingsWf.v - the statements and witnesses that occur in Props/C09c.v (known finding
   K-duplicate-heading-last-wins).  DEFINITIONS ONLY.  Imports the MODEL file Model/HeaderRow.v: the statements
   are about the model's row_iter / nav_name / values. *)
From Coq Require Import NArith List.
Import ListNotations.
Require Import SR.Base.Res SR.Spec.Table SR.Model.HeaderRow.

(* C09_by_name and C09_values of Props/C09.v with the hypothesis NoDup (map str_of h) dropped *)
Definition by_name_unguarded : Prop :=
  forall (h : row) (body : sheet) pre os rows,
    row_iter HeadingRow pre (h :: body) = Ok (os, rows) ->
    exists s, os = Some s /\
      forall (r : row) (i : nat) (c : cell),
        nth_error h i = Some c -> nav_name s (str_of c) r = Ok (nth_error r i).

Definition values_unguarded : Prop :=
  forall (h : row) (body : sheet) pre os rows,
    row_iter HeadingRow pre (h :: body) = Ok (os, rows) ->
    exists s, os = Some s /\
      forall r : row, values s r = Ok (cells_in_header_order (length h) r).

(* id,name,id over the row 1,Ann,7 *)
Definition w_id : cell := Txt [105; 100]%N.
Definition w_name : cell := Txt [110; 97; 109; 101]%N.
Definition w_1 : cell := Txt [49]%N.
Definition w_Ann : cell := Txt [65; 110; 110]%N.
Definition w_7 : cell := Txt [55]%N.
Definition w_head : row := [w_id; w_name; w_id].
Definition w_row : row := [w_1; w_Ann; w_7].

