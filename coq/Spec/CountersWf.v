(* Spec/CountersWf.v - statement-level definitions of Props/C06e.v about the walk over Python's integers
   (Model/Counters.v, zwalk).  DEFINITIONS ONLY.

   What LocationMaker.walk computes for a record of the flat family of Props/C06.v (Spec/OdoStream.flat_odo) when the
   counters hold the count vector ze : id -> Z - ANY integers, negative ones included - written as a CLOSED FORM of ze:
     zmk_end s e / zmk_size s e   what Location.__init__(schema, s, e) stores as end and size: e and e - s, unless e = 0,
                                  which the constructor reads as "no end": end = s, size = 0
     zatom o sz                   AtomicLocation(schema, o, o + sz)
     zocc_loc x st                the location of ONE occurrence of table x placed at st (an ObjectLocation)
     ztab st isz cnt sub its      ArrayLocation(schema, isz, cnt, sub, st, st + isz * cnt)
     zfloc x o / zfsz x o         the location of child x placed at o, and its .size - by which the running offset of the
                                  ObjectSchema loop advances (offset += size): NEGATIVE for a table with a negative count
     zfprops / zfend / zfanch     the children of the record laid one after the other by that loop, the final offset, the
                                  anchors the walk leaves
     zflat_nav ze t               the navigator unpacker.nav(schema, record) returns
   Hypothesis of the theorems:
     zcounters_hold zdec ze t r   the counter fields, AT THE PLACES THE CODE PUTS THEM (running form: a table of negative
                                  length moves every later field, a later counter included), decode to ze(counter)
   and the vocabulary of the statements about the item that follows a table:
     consecutive ks x y           y is the child declared immediately after x
     item_bytes x                 the length of one occurrence of x by the COBOL rules (no count vector enters: the
                                  occurrences of a flat table are fixed elementary items)
     occupied c                   the number of occupied elements of a table whose counter holds c: max(0, c)
     has_neg ze ks                some table among ks depends on a counter that holds a negative value
     C06e_item_after_table_statement   the property's sentence "every item after the table is found immediately after
                                  the last occupied element" for EVERY counter value - or the record is refused - about the
                                  walk as the source has it now; ..._old: about the walk without the sign test (refuted) *)
From Coq Require Import List Arith NArith ZArith Bool.
Import ListNotations.
Require Import SR.Base.Res SR.Spec.Layout SR.Spec.OdoStream SR.Model.Layout SR.Model.Counters.
Open Scope Z_scope.

Definition zmk_end (s e : Z) : Z := if e =? 0 then s else e.
Definition zmk_size (s e : Z) : Z := if e =? 0 then 0 else e - s.

Definition zatom (o : Z) (sz : nat) : zloc :=
  ZAtom o (zmk_end o (o + Z.of_nat sz)) (zmk_size o (o + Z.of_nat sz)).

Definition zobj (st off : Z) (pls : zprops) : zloc := ZObj st (zmk_end st off) (zsum (zsizes_props pls)) pls.

Definition ztab (st isz cnt : Z) (sub : zloc) (its : js) : zloc :=
  ZArr st (zmk_end st (st + isz * cnt)) (zmk_size st (st + isz * cnt)) isz cnt sub its.

Definition elem_bytes (x : item) : nat := match x with Elem _ sz _ _ => sz | Group _ _ _ _ => 0%nat end.

(* fixed elementary items one after the other from off *)
Fixpoint zpprops (ks : items) (off : Z) : zprops :=
  match ks with
  | INil => ZPNil
  | ICons x xs => ZPCons (KName (item_id x)) (zatom off (elem_bytes x)) (zpprops xs (off + zsize (zatom off (elem_bytes x))))
  end.
Fixpoint zpend (ks : items) (off : Z) : Z :=
  match ks with INil => off | ICons x xs => zpend xs (off + zsize (zatom off (elem_bytes x))) end.

Definition zreg2 (i : id) (l : zloc) (an : zanchors) : zanchors := (KName i, l) :: (KName i, l) :: an.

Fixpoint zpanch (ks : items) (off : Z) (an : zanchors) : zanchors :=
  match ks with
  | INil => an
  | ICons x xs => zpanch xs (off + zsize (zatom off (elem_bytes x))) (zreg2 (item_id x) (zatom off (elem_bytes x)) an)
  end.

(* the items schema of a table of the flat family, one occurrence of it placed at st, the anchors its walk leaves *)
Definition table_items_js (x : item) : js :=
  match x with
  | Elem i sz _ _ => elem_items i sz
  | Group _ _ _ gks => JObj None (plain (kid_alts [] gks))
  end.
Definition zocc_loc (x : item) (st : Z) : zloc :=
  match x with
  | Elem i sz _ _ => zobj st (st + zsize (zatom st sz)) (ZPCons (KName i) (zatom st sz) ZPNil)
  | Group _ _ _ gks => zobj st (zpend gks st) (zpprops gks st)
  end.
Definition zocc_anch (x : item) (st : Z) (an : zanchors) : zanchors :=
  match x with
  | Elem i sz _ _ => zreg2 i (zatom st sz) an
  | Group _ _ _ gks => zpanch gks st an
  end.

Section Closed.
  Variable ze : id -> Z.               (* the count vector as the code sees it *)

  Definition zcount (o : occ) : Z := match o with Once => 1 | Times n => Z.of_nat n | Odo c => ze c end.

  Definition zfloc (x : item) (o : Z) : zloc :=
    if plain_elem x then zatom o (elem_bytes x)
    else ztab o (zsize (zocc_loc x o)) (zcount (item_oc x)) (zocc_loc x o) (table_items_js x).

  Definition zfsz (x : item) (o : Z) : Z := zsize (zfloc x o).

  Definition zfanch1 (x : item) (o : Z) (an : zanchors) : zanchors :=
    if plain_elem x then zreg2 (item_id x) (zfloc x o) an
    else match x with
         | Elem _ _ _ _ => zocc_anch x o an
         | Group g _ _ _ => zreg2 g (zfloc x o) (zocc_anch x o an)
         end.

  Fixpoint zfprops (ks : items) (off : Z) : zprops :=
    match ks with
    | INil => ZPNil
    | ICons x xs => ZPCons (KName (item_id x)) (zfloc x off) (zfprops xs (off + zfsz x off))
    end.
  Fixpoint zfend (ks : items) (off : Z) : Z :=
    match ks with INil => off | ICons x xs => zfend xs (off + zfsz x off) end.
  Fixpoint zfanch (ks : items) (off : Z) (an : zanchors) : zanchors :=
    match ks with
    | INil => an
    | ICons x xs => zfanch xs (off + zfsz x off) (zfanch1 x off an)
    end.

  Definition zflat_nav (t : item) : znav :=
    match t with
    | Group i0 _ _ kids =>
        let l := zobj 0 (zfend kids 0) (zfprops kids 0) in mkznav l ((KName i0, l) :: zfanch kids 0 [])
    | Elem _ _ _ _ => mkznav (ZAtom 0 0 0) []
    end.

  (* ---- the record carries ze at its counters, at the places the code puts them *)
  Variable zdec : list N -> res Z.
  Variable r : list N.
  Variable P : id -> Prop.             (* the names that are counters of some table of the record *)

  Fixpoint zholds (ks : items) (off : Z) : Prop :=
    match ks with
    | INil => True
    | ICons x xs =>
        (match x with
         | Elem c sz Once None => P c -> zdec (pyslice r off (zmk_end off (off + Z.of_nat sz))) = Ok (ze c)
         | _ => True
         end) /\ zholds xs (off + zfsz x off)
    end.
End Closed.

Definition zcounters_hold (zdec : list N -> res Z) (ze : id -> Z) (t : item) (r : list N) : Prop :=
  match t with
  | Group _ _ _ kids => zholds ze zdec r (fun c => In c (counters_of kids)) kids 0
  | Elem _ _ _ _ => True
  end.

(* ---- the item after a table *)
Fixpoint consecutive (ks : items) (x y : item) : Prop :=
  match ks with
  | ICons a ((ICons b _) as tl) => (a = x /\ b = y) \/ consecutive tl x y
  | _ => False
  end.

Definition item_bytes (x : item) : Z := Z.of_nat (ext1 (fun _ => 0%nat) x).
Definition occupied (c : Z) : Z := Z.max 0 c.

(* ---- a table whose counter holds a negative value *)
Definition neg_count (ze : id -> Z) (x : item) : bool := match item_oc x with Odo c => ze c <? 0 | _ => false end.
Fixpoint has_neg (ze : id -> Z) (ks : items) : bool :=
  match ks with INil => false | ICons x xs => neg_count ze x || has_neg ze xs end.
Fixpoint in_items (x : item) (ks : items) : Prop :=
  match ks with INil => False | ICons a tl => a = x \/ in_items x tl end.

(* Property C06, second clause, for every value the counter may hold: EITHER the record is refused (constructing the
   navigator raises ValueError) OR the item declared after a table starts where the last occupied element ends, i.e. at
   table start + (number of occupied elements) * (length of one element).  [negref]: is a negative item count refused by
   the walk (Model/Counters.zwalk_with); the statement about the code as it is NOW takes the flag read from the source. *)
Definition item_after_table_statement_with (negref : bool) : Prop :=
  forall (zdec : list N -> res Z) (ze : id -> Z) (t : item) (r : list N),
    flat_odo t = true -> zcounters_hold zdec ze t r ->
    znav_of_with negref zdec r (build t) = Err ValueError
    \/ exists v, znav_of_with negref zdec r (build t) = Ok v
         /\ forall x y c, consecutive (item_kids t) x y -> item_oc x = Odo c ->
              exists vx vy, znav_name v (KName (item_id x)) = Ok vx /\ znav_name v (KName (item_id y)) = Ok vy
                /\ zstart (zn_loc vy) = zstart (zn_loc vx) + occupied (ze c) * item_bytes x.

Definition C06e_item_after_table_statement : Prop := item_after_table_statement_with SR.Gen.LayoutParams.odo_negative_refused.
(* ... and about the walk before the fix of finding K-negative-counter (no sign test on the count) *)
Definition C06e_item_after_table_statement_old : Prop := item_after_table_statement_with false.

(* ---- the witness: 01 R. 05 N PIC S9. 05 T PIC X(2) OCCURS 0 TO 5 DEPENDING ON N. 05 Z PIC X(3).
   (ids R=1 N=2 T=3 Z=4; this library gives PIC S9 DISPLAY two bytes) with N = F0 D2, i.e. -2 *)
Definition neg_tree : item :=
  Group 1%N Once None
    (ICons (Elem 2%N 2 Once None) (ICons (Elem 3%N 2 (Odo 2%N) None) (ICons (Elem 4%N 3 Once None) INil))).
Definition neg_table : item := Elem 3%N 2 (Odo 2%N) None.
Definition neg_next : item := Elem 4%N 3 Once None.
Definition neg_rec : list N := [240; 210; 193; 194; 195; 196; 197; 198; 199]%N.
Definition neg_ze : id -> Z := fun _ => -2.
