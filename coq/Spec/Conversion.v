(* C16 - what the property demands of the conversion helpers, written without looking at
   the implementation.

   An exact decimal (what Decimal(x).as_tuple() reports for a finite x) is sign, coefficient,
   exponent: value = (-1)^neg * coef * 10^dexp.  Strings are lists of code points. *)
From Coq Require Import ZArith NArith List Bool.
Import ListNotations.
Open Scope Z_scope.

Record dec := mkdec { neg : bool; coef : N; dexp : Z }.

Definition sgn (x : dec) : Z := if neg x then -1 else 1.

Definition dec_eqb (a b : dec) : bool :=
  Bool.eqb (neg a) (neg b) && N.eqb (coef a) (coef b) && Z.eqb (dexp a) (dexp b).

(* ---------- digit strings ---------- *)

Definition is_digit (c : N) : bool := ((48 <=? c) && (c <=? 57))%N.

(* the integer a string of decimal digits denotes, most significant first *)
Definition dstep (a : Z) (c : N) : Z := 10 * a + (Z.of_N c - 48).
Definition dval (s : list N) : Z := fold_left dstep s 0.

(* x is the integer v (an int, an integral float and an integral Decimal all arrive as such an x) *)
Definition represents (x : dec) (v : Z) : Prop :=
  if 0 <=? dexp x then sgn x * Z.of_N (coef x) * 10 ^ dexp x = v
  else sgn x * Z.of_N (coef x) = v * 10 ^ (- dexp x).

(* decidable form used by the judge: [Some v] when x is integral *)
Definition integer_of (x : dec) : option Z :=
  if 0 <=? dexp x then Some (sgn x * Z.of_N (coef x) * 10 ^ dexp x)
  else let p := 10 ^ (- dexp x) in
       if Z.of_N (coef x) mod p =? 0 then Some (sgn x * (Z.of_N (coef x) / p)) else None.

(* exactly n decimal digits whose value is v *)
Definition digits_ok (n : nat) (v : Z) (s : list N) : bool :=
  (length s =? n)%nat && forallb is_digit s && (dval s =? v).

(* ---------- decimal places ---------- *)

(* x / 10^e as an integer; exact when e <= dexp x *)
Definition scaled (x : dec) (e : Z) : Z := sgn x * Z.of_N (coef x) * 10 ^ (dexp x - e).

(* exponent fine enough for both the argument and a result with d fractional digits *)
Definition common (d : Z) (x : dec) : Z := Z.min (dexp x) (- d).

(* r is within half a unit in the d-th fractional place of x:  2 * |r - x| <= 10^-d,
   both sides multiplied by 10^-(common d x) *)
Definition closeb (d : Z) (x r : dec) : bool :=
  let e := common d x in
  2 * Z.abs (scaled r e - scaled x e) <=? 10 ^ (- d - e).

(* the rounded result has at most 28 digits: |x| * 10^d + 1/2 < 10^28, scaled the same way.
   (The default decimal context has precision 28; the property's domain is bounded by it.) *)
Definition fitsb (d : Z) (x : dec) : bool :=
  let e := common d x in
  let u := 10 ^ (- d - e) in
  2 * Z.of_N (coef x) * 10 ^ (dexp x - e) + u <? 2 * 10 ^ 28 * u.

(* The default context also bounds the adjusted exponent (exponent + digits - 1) of a result by
   Emax = 999999: a result with exponent -d can have at most 999999 + 1 + d digits.  For d >= -999972
   (every d >= 0 in particular) that is no restriction and [fits_ctx] is [fitsb]; for a negative digits
   argument close to -999999 fewer than 28 digits fit. *)
Definition digits_allowed (d : Z) : Z := Z.min 28 (1000000 + d).

Definition fits_ctx (d : Z) (x : dec) : bool :=
  let e := common d x in
  let u := 10 ^ (- d - e) in
  2 * Z.of_N (coef x) * 10 ^ (dexp x - e) + u <? 2 * 10 ^ digits_allowed d * u.

(* ---------- conversion table ---------- *)

(* Type names as the runner reports them (type(v).__name__), as small codes:
   0 NoneType, 1 bool, 2 int, 3 float, 4 str, 5 Decimal; anything else 9. *)
Definition T_none : Z := 0.
Definition T_bool : Z := 1.
Definition T_int : Z := 2.
Definition T_float : Z := 3.
Definition T_str : Z := 4.
Definition T_decimal : Z := 5.

(* Keys of the schema vocabulary: 0 = the key None (no conversion), 1 null, 2 bool,
   3 integer, 4 number, 5 string, 6 decimal. *)
Definition vocabulary : list Z := [0; 1; 2; 3; 4; 5; 6].

(* the type the name promises for an argument of type [arg] *)
Definition named_type (key : Z) (arg : Z) : Z :=
  match key with
  | 0 => arg
  | 1 => T_none
  | 2 => T_bool
  | 3 => T_int
  | 4 => T_float
  | 5 => T_str
  | 6 => T_decimal
  | _ => -1
  end.
