(* Spec/SchemaMakerWitness.v - the example and witness documents of Props/C15.v and C15c.v; they used to be defined beside
   the lemmas of Proofs/SchemaMakerP.v (audit item G1).  DEFINITIONS ONLY, moved textually.
   mk_atom, mk_ref, mk_obj, mk_arr, mk_one   constructors of JSON Schema documents (Spec/JsonDoc.v js)
   nX, nY, ka, kt, kr, kv, kw                names and property keys
   witness_shadow, witness_title_only       the witnesses of the title-as-anchor findings
   example_doc, example_dangling, example_instance   non-vacuity examples
   Imports: Spec/JsonDoc.v only (js, jv, the keyword strings). *)
From Coq Require Import ZArith List.
Import ListNotations.
Require Import SR.Spec.JsonDoc.

Definition mk_atom (ty : str) (anchor title : option str) : js :=
  Node (Scal None (Some ty) anchor title None []) OANone OJNone OPNone.

Definition mk_ref (name : str) (anchor : option str) : js :=
  Node (Scal (Some (hash :: name)) None anchor None None []) OANone OJNone OPNone.

Definition mk_obj (anchor : option str) (ps : props) : js :=
  Node (Scal None (Some s_object) anchor None None []) OANone OJNone (OPSome ps).

Definition mk_arr (anchor : option str) (mido : option str) (x : js) : js :=
  Node (Scal None (Some s_array) anchor None mido []) OANone (OJSome x) OPNone.

Definition mk_one (l : alts) : js :=
  Node (Scal None None None None None []) (OASome l) OJNone OPNone.

Definition nX : str := [88]%N.

Definition nY : str := [89]%N.

Definition ka : str := [97]%N.

Definition kt : str := [116]%N.

Definition kr : str := [114]%N.

Definition kv : str := [118]%N.

Definition kw : str := [119]%N.

(* {a: integer $anchor X, t: string title X, r: $ref #X}: the title captures the reference *)
Definition witness_shadow : js :=
  mk_obj None (PCons ka (mk_atom s_integer (Some nX) None)
              (PCons kt (mk_atom s_string None (Some nX))
              (PCons kr (mk_ref nX None) PNil))).

(* {t: string title X, r: $ref #X}: no anchor X anywhere, yet it loads *)
Definition witness_title_only : js :=
  mk_obj None (PCons kt (mk_atom s_string None (Some nX)) (PCons kr (mk_ref nX None) PNil)).

(* forward and backward references, an array with maxItemsDependsOn, a oneOf:
   {r: $ref #Y, a: integer $anchor X, v: array of $ref #X depending on #X, w: oneOf[string, object $anchor Y {a: null}]} *)
Definition example_doc : js :=
  mk_obj None
    (PCons kr (mk_ref nY None)
    (PCons ka (mk_atom s_integer (Some nX) None)
    (PCons kv (mk_arr None (Some (hash :: nX)) (mk_ref nX None))
    (PCons kw (mk_one (ACons (mk_atom s_string None None)
                      (ACons (mk_obj (Some nY) (PCons ka (mk_atom s_null None None) PNil)) ANil)))
     PNil)))).

Definition example_dangling : js :=
  mk_obj None (PCons ka (mk_atom s_integer (Some nX) None) (PCons kr (mk_ref nY None) PNil)).

(* {r: {a: 1}, a: 5, v: [7, 8], w: 0}: r is an object through the reference to Y *)
Definition example_instance : jv :=
  JDict (JDCons kr (JDict (JDCons ka JNull JDNil))
        (JDCons ka (JInt 5)
        (JDCons kv (JList (JLCons (JInt 7) (JLCons (JInt 8) JLNil)))
        (JDCons kw (JInt 0) JDNil)))).
