(* C06 - vocabulary of the theorems, written with Spec/Layout.v only (no model).
     flat_odo t          the family of record descriptions the layout theorem is proved for
     counters_hold       the record carries the count vector at the places the specification assigns
     spec_bufs           what a header-less reader with a window of B elements shows when every record
                         starts where the previous one ended *)
From Coq Require Import List Arith NArith Bool.
Import ListNotations.
Require Import SR.Spec.Layout.

(* a fixed elementary item: no OCCURS, no REDEFINES (the counters are among these) *)
Definition plain_elem (x : item) : bool :=
  match x with Elem _ _ Once None => true | _ => false end.

Fixpoint all_plain (ks : items) : bool :=
  match ks with INil => true | ICons x xs => plain_elem x && all_plain xs end.

Fixpoint kid_ids (ks : items) : list id :=
  match ks with INil => [] | ICons x xs => item_id x :: kid_ids xs end.

(* every name an item brings: its own and, for a group, its children's *)
Definition own_ids (x : item) : list id :=
  match x with Elem i _ _ _ => [i] | Group i _ _ ks => i :: kid_ids ks end.

Fixpoint all_ids (ks : items) : list id :=
  match ks with INil => [] | ICons x xs => own_ids x ++ all_ids xs end.

Definition mem (c : id) (l : list id) : bool := existsb (N.eqb c) l.

Fixpoint nodupb (l : list id) : bool :=
  match l with [] => true | x :: r => negb (mem x r) && nodupb r end.

(* a table's OCCURS clause: fixed, or DEPENDING ON a fixed elementary item declared EARLIER in the record *)
Definition oc_ok (earlier : list id) (oc : occ) : bool :=
  match oc with Once => false | Times _ => true | Odo c => mem c earlier end.

(* a child of the record: a fixed elementary item, an elementary table, or a table of a one-level group of
   fixed elementary items; no REDEFINES *)
Definition flat_kid (earlier : list id) (x : item) : bool :=
  match x with
  | Elem _ _ Once None => true
  | Elem _ _ oc None => oc_ok earlier oc
  | Group _ oc None ks => oc_ok earlier oc && all_plain ks
  | _ => false
  end.

Fixpoint flat_kids (earlier : list id) (ks : items) : bool :=
  match ks with
  | INil => true
  | ICons x xs => flat_kid earlier x && flat_kids (if plain_elem x then item_id x :: earlier else earlier) xs
  end.

(* the family: one 01 group; any number of children of the three kinds in any order; names distinct *)
Definition flat_odo (t : item) : bool :=
  match t with
  | Group _ Once _ ks => flat_kids [] ks && nodupb (all_ids ks)
  | _ => false
  end.

Definition item_kids (t : item) : items :=
  match t with Group _ _ _ ks => ks | Elem _ _ _ _ => INil end.

(* the counters the tables of a record name *)
Fixpoint counters_of (ks : items) : list id :=
  match ks with
  | INil => []
  | ICons x xs => match item_oc x with Odo c => c :: counters_of xs | _ => counters_of xs end
  end.

(* record r carries count vector e: the bytes the specification assigns to each counter (kid_start, width of the
   item) decode to e(counter).  [dcount] = the decoding of an unsigned digit item, arbitrary here. *)
Definition counters_hold {B} (dcount : list B -> nat) (e : env) (t : item) (r : list B) : Prop :=
  match t with
  | Group _ _ _ kids =>
      forall c sz o, In c (counters_of kids) ->
        find_kid kids c = Some (Elem c sz Once None) -> kid_start e kids c = Some o ->
        dcount (slice r o (o + sz)) = e c
  | Elem _ _ _ _ => True
  end.

(* a reader that shows at most B elements from the start of each record, the next record starting where the
   previous one ended: file[0:B], file[n1:n1+B], file[n1+n2:n1+n2+B], ... *)
Fixpoint spec_bufs {A} (B : nat) (file : list A) (lens : list nat) : list (list A) :=
  match lens with
  | [] => []
  | n :: ls => firstn B file :: spec_bufs B (skipn n file) ls
  end.

(* file offset of record j: the sum of the lengths before it *)
Definition offset_of (lens : list nat) (j : nat) : nat := list_sum (firstn j lens).

(* ---- a member of the family and two records of it, for the non-vacuity examples
   01 R.  05 C1 PIC 99.  05 A PIC X(5).  05 T1 PIC X(3) OCCURS 0 TO 9 DEPENDING ON C1.  05 M PIC X(4).
          05 C2 PIC 9.   05 G OCCURS 0 TO 3 DEPENDING ON C2.  10 G1 PIC XX.  10 G2 PIC X(3).   05 Z PIC X(6). *)
Definition ex_tree : item :=
  Group 1%N Once None
    (ICons (Elem 2%N 2 Once None) (ICons (Elem 3%N 5 Once None) (ICons (Elem 4%N 3 (Odo 2%N) None) (ICons (Elem 5%N 4 Once None)
    (ICons (Elem 6%N 1 Once None)
    (ICons (Group 7%N (Odo 6%N) None (ICons (Elem 8%N 2 Once None) (ICons (Elem 9%N 3 Once None) INil)))
    (ICons (Elem 10%N 6 Once None) INil))))))).

(* unsigned digits, EBCDIC zoned or ASCII: the digit is the low nibble *)
Definition ex_dcount (bs : list N) : nat :=
  N.to_nat (fold_left (fun a d => 10 * a + d mod 16)%N bs 0%N).

Definition ex_e1 : env := fun c => if N.eqb c 2%N then 2 else if N.eqb c 6%N then 1 else 0.
Definition ex_e2 : env := fun _ => 0.

Definition ex_r1 : list N :=
  ([240; 242] ++ [1; 2; 3; 4; 5] ++ [11; 12; 13; 21; 22; 23] ++ [31; 32; 33; 34] ++ [241] ++ [41; 42; 43; 44; 45]
  ++ [51; 52; 53; 54; 55; 56])%N.
Definition ex_r2 : list N :=
  ([240; 240] ++ [1; 2; 3; 4; 5] ++ [31; 32; 33; 34] ++ [240] ++ [51; 52; 53; 54; 55; 56])%N.
