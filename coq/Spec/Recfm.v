(* C05 - what a RECFM file image IS (the writer side), written without looking at the readers.
   Bytes are N values.  A record/block descriptor word is struct '>H2x': two-byte big-endian
   length (which counts the descriptor itself), then two zero bytes. *)
From Coq Require Import NArith List Bool Arith.
Import ListNotations.

Definition max_hdr : N := 65535.

Definition rdw (n : N) : list N := [(n / 256)%N; (n mod 256)%N; 0%N; 0%N].

(* length word of a record: payload length + 4 *)
Definition len4 {A} (r : list A) : N := N.of_nat (length r + 4).

(* a record with its descriptor word *)
Definition rdw_rec (r : list N) : list N := rdw (len4 r) ++ r.

(* RECFM=F / FB : records of one common length, back to back *)
Definition write_F {A} (rs : list (list A)) : list A := concat rs.

(* RECFM=N : no headers; the consumer knows the lengths *)
Definition write_N {A} (rs : list (list A)) : list A := concat rs.

(* RECFM=V *)
Definition write_V (rs : list (list N)) : list N := concat (map rdw_rec rs).

(* RECFM=VB : a block = BDW (4 + total of the rdw-prefixed records) then the rdw-prefixed records *)
Definition block_body (b : list (list N)) : list N := concat (map rdw_rec b).
Definition block_len (b : list (list N)) : nat := 4 + list_sum (map (fun r => length r + 4) b).
Definition write_block (b : list (list N)) : list N := rdw (N.of_nat (block_len b)) ++ block_body b.
Definition write_VB (blocks : list (list (list N))) : list N := concat (map write_block blocks).

(* ---- the domains the property quantifies over (decidable; the judge uses the same predicates) *)

(* F: every record has the common length lrecl > 0 *)
Definition legal_F {A} (lrecl : nat) (rs : list (list A)) : bool :=
  (1 <=? lrecl) && forallb (fun r => length r =? lrecl) rs.

(* the length word fits 16 bits *)
Definition fits_hdr {A} (r : list A) : bool := (len4 r <=? max_hdr)%N.

(* V: length word representable (empty records allowed) *)
Definition legal_V (rs : list (list N)) : bool := forallb fits_hdr rs.

(* VB: the block's length word is representable, nothing else.  A block may hold any number of records, none
   included, and a record may have no data bytes (length word 4) at any position, as in V.  The bound on the block
   is all that is needed: a block holds 4 bytes of its own and each record whole, so every record's length word
   is representable too (len4 r <= block_len b; Proofs/RecfmP.v block_body_bytes).  It is needed only for the image
   to be a byte string, i.e. for the writer's struct.pack to succeed (C05_images_are_bytes); the readers' round
   trip itself holds for any list of blocks.
   Until fix eee0fb2 this predicate also demanded every record to be non-empty, which hid a defect of
   RECFM_VB._data_iter (an empty record standing last in its block raised AssertionError; C05_VB_empty_last_old_refuted). *)
Definition legal_block (b : list (list N)) : bool := (N.of_nat (block_len b) <=? max_hdr)%N.
Definition legal_VB (blocks : list (list (list N))) : bool := forallb legal_block blocks.

(* N: every record is non-empty and fits the reader's buffer of B elements *)
Definition legal_N {A} (B : nat) (rs : list (list A)) : bool :=
  forallb (fun r => (1 <=? length r) && (length r <=? B)) rs.

(* what the consumer of RECFM_N takes from the i-th buffer it is handed: its first len_i elements *)
Definition heads {A} (lens : list nat) (bufs : list (list A)) : list (list A) :=
  map (fun p => firstn (fst p) (snd p)) (combine lens bufs).

(* all elements are byte values *)
Definition bytes_ok (s : list N) : bool := forallb (fun b => (b <? 256)%N) s.

(* ---- resumed reading: the file is read in several passes on one reader; a pass names the iterator
        (0 = record_iter: payloads, 1 = rdw_iter: records with their length word, 2 = bdw_iter: whole blocks)
        and how many items it takes (None = all that is left).  What every pass must deliver: *)
Definition render (w : N) (r : list N) : list N := if (w =? 0)%N then r else rdw_rec r.

(* F and V: the next k records (all of them when fewer are left); bdw_iter does not exist there *)
Fixpoint expect_passes (ps : list (N * option nat)) (rs : list (list N)) : option (list (list (list N))) :=
  match ps with
  | [] => Some []
  | (w, k) :: ps' =>
      if (w <=? 1)%N then
        let n := match k with Some n => n | None => length rs end in
        option_map (cons (map (render w) (firstn n rs))) (expect_passes ps' (skipn n rs))
      else None
  end.

(* VB: the shortest run of blocks holding k records; None when the k-th record does not end a block
   (a record-level pass abandoned inside a block is outside the property: the reader has the block in hand) *)
Fixpoint split_blocks (k : nat) (bs : list (list (list N))) : option (list (list (list N)) * list (list (list N))) :=
  match bs with
  | [] => Some ([], [])
  | b :: bs' =>
      if k =? 0 then Some ([], bs)
      else if length b <=? k
           then option_map (fun p => (b :: fst p, snd p)) (split_blocks (k - length b) bs')
           else None
  end.

Fixpoint expect_passes_VB (ps : list (N * option nat)) (bs : list (list (list N))) : option (list (list (list N))) :=
  match ps with
  | [] => Some []
  | (w, k) :: ps' =>
      if (w <=? 1)%N then
        match k with
        | None => option_map (cons (map (render w) (concat bs))) (expect_passes_VB ps' [])
        | Some n =>
            match split_blocks n bs with
            | Some (now, later) => option_map (cons (map (render w) (concat now))) (expect_passes_VB ps' later)
            | None => None
            end
        end
      else
        let n := match k with Some n => n | None => length bs end in
        option_map (cons (map write_block (firstn n bs))) (expect_passes_VB ps' (skipn n bs))
  end.
