(* Spec/CsvEvents.v - the reader seen as ONE machine over a list of events, as it occurs in the statements of Props/C03b.v;
   it used to be defined beside the lemmas of Proofs/CsvP.v (audit item G1).  DEFINITIONS ONLY, moved textually.
   ev            an event: a character (Some c) or the end of a line (None)
   emit, finish  a completed row joins the result / the iterator is exhausted
   run           the machine: process_char on every event, a row is delivered when a line end leaves START_RECORD
   line_events   the events of one physical line
   Imports: Base/Res.v and the MODEL file Model/Csv.v (reader, process_char, save_field, reset, frev, the parser states): run IS
   the model's character step iterated, which is what the theorem (read_records = run on the lines' events) says. *)
From Coq Require Import NArith List Bool.
Import ListNotations.
Require Import SR.Base.Res SR.Model.Csv.
Local Open Scope N_scope.

Definition ev := option N.

Definition emit (row : list text) (p : list (list text) * option exn) : list (list text) * option exn :=
  (row :: fst p, snd p).

(* the iterator is exhausted *)
Definition finish (r : reader) : list (list text) * option exn :=
  if negb (r_len r =? 0) || state_eqb (r_state r) IN_QUOTED_FIELD
  then ([frev (r_fields (save_field r))], None)
  else ([], None).

Fixpoint run (d : N) (r : reader) (es : list ev) : list (list text) * option exn :=
  match es with
  | [] => finish r
  | e :: t =>
      match process_char d r e with
      | Err x => ([], Some x)
      | Ok r' =>
          match e, r_state r' with
          | None, START_RECORD => emit (frev (r_fields r')) (run d reset t)
          | _, _ => run d r' t
          end
      end
  end.

Definition line_events (l : text) : list ev := map Some l ++ [None].
