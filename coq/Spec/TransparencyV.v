(* C03, companion - the EBCDIC images of a table in the two RECFMs that carry descriptor words, written
   without looking at the readers.  The records are those of Spec/Transparency.v ([write_ebcdic_row]: the
   padded cells of a row back to back, encoded in code page 037); the framing is that of Spec/Recfm.v:

     RECFM=V    every record behind its record descriptor word (length + 4, two zero bytes)
     RECFM=VB   the rows grouped into blocks (any grouping: [blocks] is a list of blocks, a block a list of
                rows); every block behind its block descriptor word, every record behind its RDW

   The table a VB image holds is the concatenation of its blocks. *)
From Coq Require Import NArith List Bool Arith.
Import ListNotations.
Require Import SR.Spec.Transparency SR.Spec.Recfm.

Definition write_ebcdic_V (T : table) (widths : list nat) : list N :=
  write_V (map (write_ebcdic_row widths) (t_rows T)).

Definition write_ebcdic_VB (blocks : list (list (list text))) (widths : list nat) : list N :=
  write_VB (map (map (write_ebcdic_row widths)) blocks).

(* the descriptor words are representable (16 bits): every record for V, every block for VB *)
Definition record_fits (widths : list nat) : bool := (N.of_nat (list_sum widths + 4) <=? max_hdr)%N.
Definition block_fits (widths : list nat) (b : list (list text)) : bool :=
  (N.of_nat (4 + length b * (list_sum widths + 4)) <=? max_hdr)%N.
