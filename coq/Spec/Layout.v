(* C01 / C06: what a COBOL record description says about where each item lives.
   Written from the COBOL rules (and docs/source/design.rst, Formal Definitions for Non-Delimited
   Files), not from the implementation:
     - the children of a group lie end to end in declaration order;
     - OCCURS n lays n copies of one occurrence end to end; OCCURS ... DEPENDING ON c lays
       (value of c in this record) copies;
     - an item that REDEFINES X begins where X begins and adds no length;
     - the length of a group is the end of its last (non-redefining) child.
   Widths of elementary items are given (that they are the right widths is C04). *)
From Coq Require Import List Arith NArith Bool.
Import ListNotations.

Definition id := N.

Inductive occ := Once | Times (n : nat) | Odo (counter : id).

Inductive item :=
| Elem  (i : id) (sz : nat) (oc : occ) (redef : option id)
| Group (i : id) (oc : occ) (redef : option id) (kids : items)
with items := INil | ICons (x : item) (xs : items).

Scheme item_ind2 := Induction for item Sort Prop
with items_ind2 := Induction for items Sort Prop.
Combined Scheme item_items_ind from item_ind2, items_ind2.

Definition item_id (x : item) : id := match x with Elem i _ _ _ => i | Group i _ _ _ => i end.
Definition item_oc (x : item) : occ := match x with Elem _ _ o _ => o | Group _ o _ _ => o end.
Definition item_redef (x : item) : option id := match x with Elem _ _ _ r => r | Group _ _ r _ => r end.
Definition is_redefiner (x : item) : bool := match item_redef x with Some _ => true | None => false end.

(* the count vector of one record: the value each OCCURS DEPENDING ON counter holds *)
Definition env := id -> nat.

Definition count (e : env) (o : occ) : nat :=
  match o with Once => 1 | Times n => n | Odo c => e c end.

(* length of ONE occurrence, and of the whole item *)
Fixpoint ext1 (e : env) (x : item) : nat :=
  match x with
  | Elem _ sz _ _ => sz
  | Group _ _ _ ks => kids_extent e ks
  end
with kids_extent (e : env) (ks : items) : nat :=
  match ks with
  | INil => 0
  | ICons x xs => (if is_redefiner x then 0 else count e (item_oc x) * ext1 e x) + kids_extent e xs
  end.
Definition extent (e : env) (x : item) : nat := count e (item_oc x) * ext1 e x.

(* start of every child relative to the start of the group: a redefiner starts where the
   (earlier) sibling it names starts; anything else starts where the previous storage ended *)
Fixpoint kid_starts (e : env) (ks : items) (off : nat) (seen : list (id * nat)) : list (id * nat) :=
  match ks with
  | INil => []
  | ICons x xs =>
      match item_redef x with
      | Some target =>
          let st := match find (fun p => N.eqb (fst p) target) seen with Some p => snd p | None => off end in
          (item_id x, st) :: kid_starts e xs off ((item_id x, st) :: seen)
      | None => (item_id x, off) :: kid_starts e xs (off + extent e x) ((item_id x, off) :: seen)
      end
  end.

Fixpoint find_kid (ks : items) (k : id) : option item :=
  match ks with
  | INil => None
  | ICons x xs => if N.eqb (item_id x) k then Some x else find_kid xs k
  end.

Definition kid_start (e : env) (ks : items) (k : id) : option nat :=
  option_map snd (find (fun p => N.eqb (fst p) k) (kid_starts e ks 0 [])).

(* ---- navigation paths, as NDNav takes them ---- *)
Inductive step := PName (k : id) | PIndex (i : nat).

(* what a navigator is looking at: an item as declared (the whole table when it has OCCURS),
   one occurrence of a repeated item, or the elementary value inside one occurrence *)
Inductive view := VItem (x : item) | VOcc (x : item) | VAtom (sz : nat).

Definition view_size (e : env) (v : view) : nat :=
  match v with VItem x => extent e x | VOcc x => ext1 e x | VAtom sz => sz end.

Definition is_table (x : item) : bool := match item_oc x with Once => false | _ => true end.

Inductive nav_error := NoSuchName | NotAnObject | NotAnArray | IndexOut.

Definition spec_step (e : env) (v : view) (start : nat) (s : step) : view * nat + nav_error :=
  let in_kids ks k :=
    match find_kid ks k, kid_start e ks k with
    | Some x, Some o => inl (VItem x, start + o)
    | _, _ => inr NoSuchName
    end in
  match s with
  | PName k =>
      match v with
      | VItem (Group _ Once _ ks) => in_kids ks k
      | VOcc (Group _ _ _ ks) => in_kids ks k
      | VOcc (Elem i sz _ _) => if N.eqb i k then inl (VAtom sz, start) else inr NoSuchName
      | _ => inr NotAnObject
      end
  | PIndex i =>
      match v with
      | VItem x => if is_table x then
                     if i <? count e (item_oc x) then inl (VOcc x, start + i * ext1 e x) else inr IndexOut
                   else inr NotAnArray
      | _ => inr NotAnArray
      end
  end.

Fixpoint spec_nav (e : env) (v : view) (start : nat) (p : list step) : view * nat + nav_error :=
  match p with
  | [] => inl (v, start)
  | s :: p' => match spec_step e v start s with
               | inl (v', st') => spec_nav e v' st' p'
               | inr err => inr err
               end
  end.

(* Python slice r[a:b] *)
Definition slice {B} (r : list B) (a b : nat) : list B := firstn (b - a) (skipn a r).
