(* Spec/SentenceValueWitness.v - the witness copybook of finding 5 (a period followed by a blank inside a VALUE literal
   ends the sentence) and the observation function of its theorem (Props/C07.v, C07_refuted_5); they used to be defined
   beside the lemmas of Proofs/SentenceValueP.v (audit item G1).  DEFINITIONS ONLY, moved textually.
   w5_line1..3, witness5   the three source lines
   w5_written, w5_got      the clause text as written / as it comes back
   entry_texts             (level, compact source) of every sentence the text layer returns
   Imports: Base/Res.v and the MODEL file Model/RefFormat.v (line, reference_format, dde_sentences, compact: entry_texts RUNS
   the model's text layer; that is what the refutation is about). *)
From Coq Require Import NArith List.
Import ListNotations.
Require Import SR.Base.Res SR.Model.RefFormat.
Local Open Scope N_scope.

(* ------------------------------------------------------------------ the witness
          01 R.
            05 FLD-A PIC X(5) VALUE 'A. B'.
            05 FLD-B PIC X.                                                         *)
Definition w5_line1 : line := [32; 32; 32; 32; 32; 32; 32; 48; 49; 32; 82; 46; 10].

Definition w5_line2 : line :=
  [32; 32; 32; 32; 32; 32; 32; 32; 32; 48; 53; 32; 70; 76; 68; 45; 65; 32; 80; 73; 67; 32; 88; 40; 53; 41; 32;
   86; 65; 76; 85; 69; 32; 39; 65; 46; 32; 66; 39; 46; 10].

Definition w5_line3 : line :=
  [32; 32; 32; 32; 32; 32; 32; 32; 32; 48; 53; 32; 70; 76; 68; 45; 66; 32; 80; 73; 67; 32; 88; 46; 10].

Definition witness5 : list line := [w5_line1; w5_line2; w5_line3].

(* the clause text as written: FLD-A PIC X(5) VALUE 'A. B' *)
Definition w5_written : line :=
  [70; 76; 68; 45; 65; 32; 80; 73; 67; 32; 88; 40; 53; 41; 32; 86; 65; 76; 85; 69; 32; 39; 65; 46; 32; 66; 39].

(* what comes back: FLD-A PIC X(5) VALUE 'A *)
Definition w5_got : line :=
  [70; 76; 68; 45; 65; 32; 80; 73; 67; 32; 88; 40; 53; 41; 32; 86; 65; 76; 85; 69; 32; 39; 65].

(* (level, compact_source) of every sentence the text layer returns *)
Definition entry_texts (src : list line) : res (list (line * line)) :=
  match reference_format src [] with
  | Ok out => Ok (map (fun s => (fst s, compact (snd s))) (dde_sentences out))
  | Err e => Err e
  end.
