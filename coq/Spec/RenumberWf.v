(* Spec/RenumberWf.v - the predicates and functions that occur in the statements of Props/C12c.v (renumbering the levels of
   a copybook, inserting 66/77/88 entries) and used to be defined beside the lemmas of Proofs/RenumberP.v (audit item G1).
   DEFINITIONS ONLY, moved textually (Section Monotone keeps the Variables entry_in was written under: entry_in used e).
   npop, push, same_pops, keeps_nesting   two level sequences nest alike (boolean)
   chain_sorted                           an open chain strictly increasing inward
   erase_e, erase_d, erase_t, same_shape  two forests equal up to the level field
   relevelled                             two entries that differ in the level number only
   transparent, ins_skipped               l' = l with named 66/77/88 entries inserted anywhere
   group_renumbering                      order among siblings and parent-below-child preserved (boolean)
   lvl_of_num, set_level, relevel, in_range, entry_in   renumbering by a map g on the level numbers in use
   Imports: Spec/Dde.v (spec_parent, kept_level, two_digits, lvl_num, opt_nat_eqb) and the MODEL file Model/Structure.v (the
   entry, dde and tree records, lvl, is_filler). *)
From Coq Require Import NArith List Bool Arith.
Import ListNotations.
Require Import SR.Spec.Dde SR.Model.Structure.
Local Open Scope nat_scope.

(* st = level numbers of the entries still open, innermost first.
   npop x st = how many of them an arriving entry of level x closes: the leading ones whose level
   is not below x.  (The open chain is strictly increasing inward, so this number fixes the order
   relation between x and EVERY open entry: see npop_compare.) *)
Fixpoint npop (x : N) (st : list N) : nat :=
  match st with
  | [] => 0
  | y :: r => if (y <? x)%N then 0 else S (npop x r)
  end.

(* the chain after the arrival of x *)
Definition push (x : N) (st : list N) : list N := x :: skipn (npop x st) st.

(* THE boolean condition: the two level sequences have the same length and every entry closes the same
   number of open entries in both, i.e. stands in the same order relation to the entries that are open
   when it arrives. *)
Fixpoint same_pops (st st' : list N) (K K' : list N) : bool :=
  match K, K' with
  | [], [] => true
  | x :: r, x' :: r' => Nat.eqb (npop x st) (npop x' st') && same_pops (push x st) (push x' st') r r'
  | _, _ => false
  end.

Definition keeps_nesting (K K' : list N) : bool := same_pops [] [] K K'.

(* a chain that is strictly increasing inward (head = innermost = largest) *)
Fixpoint chain_sorted (st : list N) : Prop :=
  match st with
  | [] => True
  | y :: r => match r with [] => True | z :: _ => (z < y)%N end /\ chain_sorted r
  end.

(* "up to the level field": the level of every entry is overwritten with one constant *)
Definition erase_e (e : entry) : entry :=
  {| elv := (48, 48)%N; ename := ename e; efill := efill e; eredef := eredef e;
     epic := epic e; eocc := eocc e; etext := etext e |}.

Definition erase_d (d : dde) : dde := {| de := erase_e (de d); du := du d |}.

Fixpoint erase_t (t : tree) : tree :=
  match t with TNode d b kids => TNode (erase_d d) b (map erase_t kids) end.

Definition same_shape (f f' : list tree) : Prop := map erase_t f = map erase_t f'.

(* two entries that differ in the level number only: same name, FILLER word, REDEFINES target,
   picture / occurs flags and source text; both kept or both skipped; both or neither level 01
   (level 01 restarts the FILLER numbering, so it is part of what the names depend on) *)
Definition relevelled (e e' : entry) : Prop :=
  erase_e e = erase_e e'
  /\ kept_level (lvl_num (elv e)) = kept_level (lvl_num (elv e'))
  /\ (lvl_num (elv e) =? 1)%N = (lvl_num (elv e') =? 1)%N.

(* a named entry of level 66, 77 or 88 (a DDE object is created for it, so an unnamed one would
   take a FILLER number: see the boundary witness in Props/C12c.v) *)
Definition transparent (e : entry) : Prop :=
  two_digits (elv e) = true /\ kept_level (lvl_num (elv e)) = false /\ is_filler e = false.

(* l' = l with transparent entries inserted anywhere *)
Inductive ins_skipped : list entry -> list entry -> Prop :=
| ins_s_nil : ins_skipped [] []
| ins_s_keep : forall e l l', ins_skipped l l' -> ins_skipped (e :: l) (e :: l')
| ins_s_add : forall e l l', transparent e -> ins_skipped l l' -> ins_skipped l (e :: l').

(* the hypotheses of section Group as one boolean *)
Definition group_renumbering (K K' : list N) : bool :=
  Nat.eqb (length K) (length K') &&
  forallb (fun i =>
    forallb (fun j => negb (opt_nat_eqb (spec_parent K i) (spec_parent K j))
                      || Bool.eqb (nth i K 0 <? nth j K 0)%N (nth i K' 0 <? nth j K' 0)%N)
            (seq 0 (length K))
    && match spec_parent K i with Some p => (nth p K' 0 <? nth i K' 0)%N | None => true end)
  (seq 0 (length K)).

Definition lvl_of_num (n : N) : lvl := (48 + n / 10, 48 + n mod 10)%N.

Definition set_level (v : lvl) (e : entry) : entry :=
  {| elv := v; ename := ename e; efill := efill e; eredef := eredef e;
     epic := epic e; eocc := eocc e; etext := etext e |}.

(* g applied to the level number of every entry that is not a 66/77/88 entry *)
Definition relevel (g : N -> N) (e : entry) : entry :=
  if kept_level (lvl_num (elv e)) then set_level (lvl_of_num (g (lvl_num (elv e)))) e else e.

Definition in_range (n : N) : Prop := (1 <= n <= 49)%N.

Section Monotone.
  Variable used : N -> Prop.
  Variable g : N -> N.

  Definition entry_in (e : entry) : Prop :=
    two_digits (elv e) = true /\ (kept_level (lvl_num (elv e)) = true -> used (lvl_num (elv e))).
End Monotone.
