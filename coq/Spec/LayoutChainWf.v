(* Spec/LayoutChainWf.v - the hypothesis predicates and witness records of Props/C01d.v (what the well-formedness
   predicate wf of the layout theorems excludes, exclusion by exclusion).  DEFINITIONS ONLY.
   redef_earlier, wf_base   the structural minimum every COBOL compiler demands of a record description without OCCURS
                            DEPENDING ON: a REDEFINES names an EARLIER sibling - any earlier sibling, a redefiner included
                            (chained redefinition: ISO COBOL 2002, 13.16.42 REDEFINES; COBOL 85 demanded the original name)
   kids_longer, longer_redefiner   some item that carries REDEFINES is longer than the sibling it names
   chain_tree               the witness of finding K-redefines-of-redefiner
   chain3_tree              three links
   chain_nested_tree        the chain inside a nested group, the middle link redefining a GROUP
   longer_tree              a redefiner longer than its target
   Imports: Spec/Layout.v (item, extent ...), Spec/LayoutWf.v (no_odo) and through it the model file Model/Layout.v (nothing of
   the model is used here). *)
From Coq Require Import List Arith NArith Bool.
Import ListNotations.
Require Import SR.Spec.Layout SR.Spec.LayoutWf.

(* every REDEFINES among these siblings names a sibling declared before it *)
Fixpoint redef_earlier (seen : list id) (ks : items) : bool :=
  match ks with
  | INil => true
  | ICons x xs =>
      (match item_redef x with Some u => existsb (N.eqb u) seen | None => true end)
      && redef_earlier (item_id x :: seen) xs
  end.

Fixpoint wf_base (x : item) : bool :=
  no_odo (item_oc x) &&
  match x with
  | Elem _ _ _ _ => true
  | Group _ _ _ ks => redef_earlier [] ks && wf_base_kids ks
  end
with wf_base_kids (ks : items) : bool :=
  match ks with INil => true | ICons x xs => wf_base x && wf_base_kids xs end.

(* some redefiner among these siblings is longer than the (earlier) sibling it names; seen = the earlier siblings, newest
   first, each with its length *)
Fixpoint kids_longer (e : env) (seen : list (id * nat)) (ks : items) : bool :=
  match ks with
  | INil => false
  | ICons x xs =>
      (match item_redef x with
       | Some u =>
           match find (fun p => N.eqb (fst p) u) seen with
           | Some (_, ext_u) => ext_u <? extent e x
           | None => false
           end
       | None => false
       end)
      || kids_longer e ((item_id x, extent e x) :: seen) xs
  end.

Fixpoint longer_redefiner (e : env) (x : item) : bool :=
  match x with
  | Elem _ _ _ _ => false
  | Group _ _ _ ks => kids_longer e [] ks || kids_any_longer e ks
  end
with kids_any_longer (e : env) (ks : items) : bool :=
  match ks with INil => false | ICons x xs => longer_redefiner e x || kids_any_longer e xs end.

(* ------------------------------------------------------------------ witnesses
   01 REC. 05 A PIC X(4). 05 B REDEFINES A PIC 9(4). 05 C REDEFINES B PIC XX. 05 D PIC X.     (REC=1 A=2 B=3 C=4 D=5)
   COBOL: A 0-4, B 0-4, C 0-2, D 4-5, length 5.   build_json_schema + LocationMaker: A 0-4, B 4-8, C 4-6, D 8-9, length 9. *)
Definition chain_tree : item :=
  Group 1%N Once None
    (ICons (Elem 2%N 4 Once None) (ICons (Elem 3%N 4 Once (Some 2%N)) (ICons (Elem 4%N 2 Once (Some 3%N))
    (ICons (Elem 5%N 1 Once None) INil)))).

(* 01 REC. 05 A PIC X(4). 05 B REDEFINES A PIC 9(4). 05 C REDEFINES B PIC XXX. 05 D REDEFINES C PIC XX. 05 E PIC X.
   (REC=1 A=2 B=3 C=4 D=5 E=6)   COBOL: all four at 0, E 4-5, length 5.   The code: A 0-4, B 4-8, C 8-11, D 8-10, E 11-12, length 12. *)
Definition chain3_tree : item :=
  Group 1%N Once None
    (ICons (Elem 2%N 4 Once None) (ICons (Elem 3%N 4 Once (Some 2%N)) (ICons (Elem 4%N 3 Once (Some 3%N))
    (ICons (Elem 5%N 2 Once (Some 4%N)) (ICons (Elem 6%N 1 Once None) INil))))).

(* 01 REC. 05 H PIC X. 05 G. 10 A. 15 A1 PIC XX. 15 A2 PIC XX. 10 B REDEFINES A PIC 9(4). 10 C REDEFINES B PIC XX. 10 D PIC X. 05 T PIC X.
   (REC=1 H=2 G=3 A=4 A1=5 A2=6 B=7 C=8 D=9 T=10)
   COBOL: H 0-1, G 1-6, A 1-5, B 1-5, C 1-3, D 5-6, T 6-7, length 7.   The code: G 1-10, B 5-9, C 5-7, D 9-10, T 10-11, length 11. *)
Definition chain_nested_tree : item :=
  Group 1%N Once None
    (ICons (Elem 2%N 1 Once None)
    (ICons (Group 3%N Once None
       (ICons (Group 4%N Once None (ICons (Elem 5%N 2 Once None) (ICons (Elem 6%N 2 Once None) INil)))
       (ICons (Elem 7%N 4 Once (Some 4%N)) (ICons (Elem 8%N 2 Once (Some 7%N)) (ICons (Elem 9%N 1 Once None) INil)))))
    (ICons (Elem 10%N 1 Once None) INil))).

(* 01 REC. 05 A PIC X(2). 05 B REDEFINES A PIC 9(4). 05 D PIC X.      (REC=1 A=2 B=3 D=4)
   Not a legal record description by ISO COBOL (below level 01 the redefining item may not be larger); where a compiler accepts it
   as an extension the storage is that of the LARGEST alternative: A 0-2, B 0-4, D 4-5, length 5 - which is what the code does. *)
Definition longer_tree : item :=
  Group 1%N Once None
    (ICons (Elem 2%N 2 Once None) (ICons (Elem 3%N 4 Once (Some 2%N)) (ICons (Elem 4%N 1 Once None) INil))).
