(* What the JSON Schema core meta-schema demands of an anchor: ^[A-Za-z_][-A-Za-z0-9._]*$ *)
From Coq Require Import NArith List Bool.
Import ListNotations.
Open Scope N_scope.

Definition us : N := 95.

Definition is_start (c : N) : bool :=
  ((65 <=? c) && (c <=? 90)) || ((97 <=? c) && (c <=? 122)) || (c =? us).

Definition is_cont (c : N) : bool :=
  is_start c || ((48 <=? c) && (c <=? 57)) || (c =? 45) || (c =? 46).

Definition legal (s : list N) : bool :=
  match s with
  | [] => false
  | c :: t => is_start c && forallb is_cont t
  end.
