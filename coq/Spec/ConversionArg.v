(* C16 - arguments of any Python type, and what the property and the Python documentation say about them,
   written without looking at the implementation.  Definitions only.

   [pyval] is the argument (and result) classes the conversion helpers are given: None, bool, int, a finite
   float (by its exact decimal expansion), float nan / inf, str (code points), a finite Decimal, Decimal
   NaN / sNaN / Infinity, Fraction.  (bytes, lists, complex ... are not described.)

   [int_text] is the grammar of the text int() accepts, as the Library Reference words it: the string may be
   preceded by + or - (with no space in between), have leading zeros, be surrounded by whitespace, and have
   single underscores interspersed between digits; a digit is any character of Unicode category Nd.  The
   grammar is stated over two parameters - the value [dv] of a digit character and the white space test
   [sp] - because which characters those are is a table of the running CPython (Gen/UnicodeParams.v).

   [conversion_raises] is the table: which named conversion raises what on which argument class. *)
From Coq Require Import ZArith NArith List Bool.
Import ListNotations.
Require Import SR.Base.Res SR.Spec.Conversion.
Open Scope Z_scope.

Inductive pyval :=
| PNone
| PBool (b : bool)
| PInt (z : Z)
| PFloat (x : dec)                 (* a finite float: its exact decimal expansion *)
| PFloatNan
| PFloatInf (negative : bool)
| PStr (s : list N)
| PDec (x : dec)                   (* a finite Decimal *)
| PDecNan (signalling : bool)      (* NaN, sNaN (sign and payload are not described) *)
| PDecInf (negative : bool)
| PFrac (num : Z) (den : positive).

(* type(v).__name__ as a code: the six of Spec/Conversion.v, and 6 Fraction *)
Definition T_fraction : Z := 6.

Definition type_of (a : pyval) : Z :=
  match a with
  | PNone => T_none
  | PBool _ => T_bool
  | PInt _ => T_int
  | PFloat _ | PFloatNan | PFloatInf _ => T_float
  | PStr _ => T_str
  | PDec _ | PDecNan _ | PDecInf _ => T_decimal
  | PFrac _ _ => T_fraction
  end.

(* the integer a list of digit VALUES denotes, most significant first *)
Definition zval (ds : list Z) : Z := fold_left (fun a d => 10 * a + d) ds 0.

Definition signed (negative : bool) (v : Z) : Z := if negative then - v else v.

(* ---------- the text of an integer ---------- *)
Section IntText.
  Variable dv : N -> option Z.     (* the value of a decimal digit character *)
  Variable sp : N -> bool.         (* white space *)

  (* (["_"] digit)*  - 95 is the underscore; the second list is the values of the digits read *)
  Inductive digit_tail : list N -> list Z -> Prop :=
  | DT_nil : digit_tail [] []
  | DT_digit c d s ds : dv c = Some d -> digit_tail s ds -> digit_tail (c :: s) (d :: ds)
  | DT_under c d s ds : dv c = Some d -> digit_tail s ds -> digit_tail (95%N :: c :: s) (d :: ds).

  (* digitpart ::= digit (["_"] digit)* *)
  Inductive digit_part : list N -> list Z -> Prop :=
  | DP c d s ds : dv c = Some d -> digit_tail s ds -> digit_part (c :: s) (d :: ds).

  (* [ "+" | "-" ] *)
  Inductive sign_text : list N -> bool -> Prop :=
  | Sign_none : sign_text [] false
  | Sign_plus : sign_text [43%N] false
  | Sign_minus : sign_text [45%N] true.

  (* whitespace* [sign] digitpart whitespace*, read as sign [negative] and digits [ds] *)
  Inductive int_text : list N -> bool -> list Z -> Prop :=
  | IntText ws1 sg body ws2 negative ds :
      forallb sp ws1 = true -> forallb sp ws2 = true -> sign_text sg negative -> digit_part body ds ->
      int_text (ws1 ++ sg ++ body ++ ws2) negative ds.
End IntText.

(* CPython converts at most this many digits between str and int (sys.get_int_max_str_digits()) *)
Definition int_max_str_digits : Z := 4300.

(* ---------- the arguments on which the property demands a value ---------- *)
(* what a workbook cell or a decoded field delivers: bool, int (inside the float range), finite float, finite
   Decimal.  On these every named conversion must return; on the other classes (None, str, nan, inf, NaN,
   Fraction) the constructors int, float and Decimal are entitled to refuse. *)
Definition plain_value (a : pyval) : bool :=
  match a with
  | PBool _ | PFloat _ | PDec _ => true
  | PInt z => Z.abs z <? 2 ^ 1024 - 2 ^ 970
  | _ => false
  end.

Definition must_return (key : Z) (a : pyval) : bool :=
  plain_value a || (key =? 0) || (key =? 1) || (key =? 2).

(* ---------- which conversion raises what ---------- *)
(* OverflowError and decimal.Overflow have no code of their own in Base/Res.v: both are [OtherError]. *)
Definition OverflowError : exn := OtherError.

(* the smallest integer float() cannot represent: 2^1024 - 2^970 rounds (half to even) up to 2^1024 *)
Definition float_overflow : Z := 2 ^ 1024 - 2 ^ 970.

Section Raises.
  Variable int_ok : list N -> Prop.          (* the str is the text of an integer of at most 4300 digits *)
  Variable float_ok : list N -> bool.        (* the str is text float() accepts *)
  Variable decimal_ok : list N -> bool.      (* the str is text Decimal() accepts and can hold exactly *)

  (* CONVERSION[key](a) raises e.  Keys: 0 None (identity), 1 null, 2 bool, 3 integer, 4 number, 5 string,
     6 decimal.  Every case not listed returns. *)
  Definition conversion_raises (key : Z) (a : pyval) (e : exn) : Prop :=
    match key with
    | 3 =>                                   (* int(a) *)
        match a with
        | PNone => e = TypeError
        | PFloatNan | PDecNan _ => e = ValueError
        | PFloatInf _ | PDecInf _ => e = OverflowError
        | PStr s => e = ValueError /\ ~ int_ok s
        | _ => False
        end
    | 4 =>                                   (* float(a) *)
        match a with
        | PNone => e = TypeError
        | PInt z => e = OverflowError /\ float_overflow <= Z.abs z
        | PFrac n d => e = OverflowError /\ float_overflow * Z.pos d <= Z.abs n
        | PStr s => e = ValueError /\ float_ok s = false
        | PDecNan true => e = ValueError
        | _ => False
        end
    | 5 =>                                   (* str(a) *)
        match a with
        | PInt z => e = ValueError /\ 10 ^ int_max_str_digits <= Z.abs z
        | PFrac n d => e = ValueError /\ (10 ^ int_max_str_digits <= Z.abs n \/ 10 ^ int_max_str_digits <= Z.pos d)
        | _ => False
        end
    | 6 =>                                   (* Decimal(a) *)
        match a with
        | PNone | PFrac _ _ => e = TypeError
        | PStr s => e = DecimalInvalid /\ decimal_ok s = false
        | _ => False
        end
    | _ => False
    end.
End Raises.
