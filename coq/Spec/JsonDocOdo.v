(* C15, documents with maxItemsDependsOn (the keyword OCCURS DEPENDING ON tables are emitted with:
   an array sub-schema carrying  "maxItemsDependsOn": {"$ref": "#COUNTER"}).

   Specification side only: which references dangle when BOTH kinds of reference are counted, when a
   counter counts as declared before its table, where the DependsOnArraySchema objects of a loaded
   graph are and what each of them must point at.  Nothing here is taken from the implementation. *)
From Coq Require Import ZArith NArith List Bool.
Import ListNotations.
Require Import SR.Base.Res SR.Spec.JsonDoc.

(* the $anchor names borne by the sub-schemas of a document, document order *)
Definition anchors_in (d : js) : list str := map fst (anchor_table d).

(* some reference - a "$ref" OR a "maxItemsDependsOn" - names no $anchor of the document *)
Definition dangling_any (d : js) : bool :=
  existsb (fun x => negb (is_some (find_anchor d x))) (refnames d).

(* the counter names of the depending arrays *)
Definition dep_entry (e : path * scal * kind) : list str :=
  match snd e with KDepends => ref_entry e | _ => [] end.
Definition counter_names (d : js) : list str := flat_map dep_entry (all_nodes d).

(* ---- a counter is DECLARED BEFORE its table ----
   Reading the document from the top, a sub-schema is declared once it is closed.  [seen] holds the
   $anchor names of the sub-schemas closed so far.  When a depending array closes, the name after the
   '#' of its maxItemsDependsOn must be among them: the counter is a sub-schema that ends before the
   table ends and is neither the table itself nor one that encloses it - it stands earlier in the
   document (the COBOL case: the counter field precedes the table) or inside the table's items.
   The path form of the same condition is [closed_before] below.  The FORM of the keyword is wf's
   business; here only the place of the counter counts. *)
Fixpoint declared (d : js) (seen : list str) {struct d} : bool :=
  match d with
  | Node sc o i p =>
      match shape_kw sc o i p with
      | KOneOf => match o with OASome l => declared_alts l seen | OANone => true end
      | KArray => match i with OJSome x => declared x seen | OJNone => true end
      | KDepends =>
          match i with
          | OJSome x =>
              declared x seen &&
              match ref_name (k_mido sc) with
              | Some name => mem name (anchors_in x ++ seen)
              | None => true
              end
          | OJNone => true
          end
      | KObject => match p with OPSome l => declared_props l seen | OPNone => true end
      | _ => true
      end
  end
with declared_alts (l : alts) (seen : list str) {struct l} : bool :=
  match l with
  | ANil => true
  | ACons x r => declared x seen && declared_alts r (anchors_in x ++ seen)
  end
with declared_props (l : props) (seen : list str) {struct l} : bool :=
  match l with
  | PNil => true
  | PCons _ x r => declared x seen && declared_props r (anchors_in x ++ seen)
  end.

(* every depending array of the document names a counter declared before it *)
Definition counters_declared (d : js) : bool := declared d [].

(* ---- the same condition on paths ----
   q is closed before a:  q is not a (nor an ancestor of a), and q comes before a in document order
   or lies inside a. *)
Fixpoint is_prefix (a b : path) : bool :=
  match a, b with
  | [], _ => true
  | x :: a', y :: b' => Nat.eqb x y && is_prefix a' b'
  | _ :: _, [] => false
  end.

(* lexicographic order of child steps = document order for paths neither of which is a prefix of the other *)
Fixpoint lex_lt (a b : path) : bool :=
  match a, b with
  | x :: a', y :: b' => Nat.ltb x y || (Nat.eqb x y && lex_lt a' b')
  | [], _ :: _ => true
  | _, [] => false
  end.

Definition closed_before (q a : path) : bool :=
  negb (is_prefix q a) && (lex_lt q a || is_prefix a q).

(* the depending array at path [a] with counter name [x] has a declared counter: some sub-schema
   bearing $anchor x is closed before it *)
Definition counter_placed (d : js) (a : path) (x : str) : bool :=
  existsb (fun e => ostr_eqb (k_anchor (snd (fst e))) (Some x) && closed_before (fst (fst e)) a) (all_nodes d).

Definition table_placed (d : js) (e : path * scal * kind) : bool :=
  match snd e with
  | KDepends => match ref_name (k_mido (snd (fst e))) with
                | Some x => counter_placed d (fst (fst e)) x
                | None => true
                end
  | _ => true
  end.

Definition counters_placed (d : js) : bool := forallb (table_placed d) (all_nodes d).

(* ---- the DependsOnArraySchema objects of a loaded graph: (attributes, max_ref_to), document order ---- *)
Fixpoint depends_sites (s : schema) : list (js * path) :=
  match s with
  | LAtomic _ => []
  | LArray _ it => depends_sites it
  | LDepends a it t => (a, t) :: depends_sites it
  | LObject _ ps => depends_sites_props ps
  | LOneOf _ ss => depends_sites_list ss
  | LRefTo _ _ => []
  end
with depends_sites_list (ss : slist) : list (js * path) :=
  match ss with SNil => [] | SCons x r => depends_sites x ++ depends_sites_list r end
with depends_sites_props (ps : sprops) : list (js * path) :=
  match ps with SPNil => [] | SPCons _ x r => depends_sites x ++ depends_sites_props r end.

(* max_ref_to is the sub-schema bearing the $anchor that maxItemsDependsOn names *)
Definition site_bound (d : js) (e : js * path) : bool :=
  match ref_name (k_mido (scal_of (fst e))) with
  | Some x => opath_eqb (Some (snd e)) (find_anchor d x)
  | None => false
  end.

Definition tables_bound (d : js) (s : schema) : bool := forallb (site_bound d) (depends_sites s).
