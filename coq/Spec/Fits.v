(* C18: what it means for a decoded number to fit its PICTURE; C04: the width the property lists. *)
From Coq Require Import ZArith NArith List Bool.
Import ListNotations.
Require Import SR.Base.Dec SR.Spec.Encode.
Open Scope N_scope.

Definition fits (m n : nat) (d : dec) : bool :=
  Z.eqb (dexp d) (- Z.of_nat n) && (coef d <? 10 ^ N.of_nat (m + n)).

Definition mem_spelling (u : N) (l : list N) : bool := existsb (N.eqb u) l.

(* byte width by USAGE and PICTURE as C04 states it *)
Definition spec_size (u : N) (signed : bool) (m n : nat) : option N :=
  if N.eqb u display_spelling then Some (N.of_nat (spec_display_width signed (m + n)))
  else if mem_spelling u packed_spellings then Some (N.of_nat (spec_packed_width (m + n)))
  else if mem_spelling u binary_spellings then option_map N.of_nat (spec_binary_width (m + n))
  else if mem_spelling u float4_spellings then Some 4
  else if mem_spelling u float8_spellings then Some 8
  else None.
