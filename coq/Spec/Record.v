(* C01 composed with C02: the record a COBOL program WRITES for a record description and an assignment of
   values to its elementary occurrences.  Built from Spec/Layout.v (where things lie) and Spec/Encode.v (what
   a mainframe stores for a value) only; nothing here looks at the implementation.

     fkind        USAGE / PICTURE of an elementary item: packed S?9(m)V9(n), zoned S?9(m)V9(n), binary S?9(m)V9(n), X(k)
                  (usage spellings numbered as in Spec/Encode.v)
     fval         what the program moves into one occurrence: a digit string (most significant digit first) with the
                  sign nibble the machine stores, an integer, or a text (code points)
     enc_field    the bytes of one occurrence: the digit string is right-justified in the picture's digit positions
                  (zero filled on the left), then stored by Spec/Encode.v's encoders; text by the inverse of code page 037
     spec_record  the occurrences laid end to end in declaration order, OCCURS n as n copies one after the other;
                  an item that REDEFINES another owns no storage: the record is built from the base items
     values are assigned per NAVIGATION PATH (Spec/Layout.v step): the path to a plain elementary item ends in its
     name; the path to occurrence j of an elementary table named T ends in  T, j, T  (as NDNav is asked for it)
     stored       the value the program stored, as a reader has to deliver it: the exact decimal with the picture's
                  scale, the integer, the text *)
From Coq Require Import ZArith NArith List Bool Arith.
Import ListNotations.
Require Import SR.Base.Dec SR.Gen.Cp037 SR.Spec.Layout SR.Spec.Encode.
Open Scope nat_scope.

Inductive fkind :=
| KPacked (u : N) (signed : bool) (m n : nat)
| KZoned (signed : bool) (m n : nat)
| KBinary (u : N) (signed : bool) (m n : nat)
| KText (k : nat).

Inductive fval :=
| FNum (ds : list N) (sign : N)
| FInt (v : Z)
| FTxt (cs : list N).

Definition kinds := id -> fkind.
Definition assignment := list step -> fval.

(* ---- one occurrence ---- *)
Definition lpad (w : nat) (ds : list N) : list N := repeat 0%N (w - length ds) ++ ds.

Fixpoint index_of (c : N) (l : list N) (i : N) : N :=
  match l with
  | [] => i
  | x :: t => if N.eqb x c then i else index_of c t (i + 1)%N
  end.
(* the byte code page 037 assigns to a character *)
Definition cp037_enc (c : N) : N := index_of c cp037_table 0%N.
Definition in_cp037 (c : N) : bool := existsb (N.eqb c) cp037_table.

Definition sign_positions (signed : bool) : nat := if signed then 1 else 0.

Definition binary_width (m n : nat) : nat :=
  match spec_binary_width (m + n) with Some w => w | None => 0 end.

(* storage width of an item of this kind: the width lists of Spec/Encode.v *)
Definition kind_width (k : fkind) : nat :=
  match k with
  | KPacked _ _ m n => spec_packed_width (m + n)
  | KZoned s m n => spec_display_width s (m + n)
  | KBinary _ _ m n => binary_width m n
  | KText k => k
  end.

Definition enc_field (k : fkind) (v : fval) : list N :=
  match k, v with
  | KPacked _ _ m n, FNum ds s => enc_packed (lpad (m + n) ds) s
  | KZoned sg m n, FNum ds s => enc_zoned (lpad (spec_display_width sg (m + n)) ds) s
  | KBinary _ _ m n, FInt z => enc_be (binary_width m n) z
  | KText _, FTxt cs => map cp037_enc cs
  | _, _ => []
  end.

(* what the program stored, as a value *)
Inductive sval := SDec (d : dec) | SInt (z : Z) | SStr (cs : list N).

Definition scale (k : fkind) : nat :=
  match k with KPacked _ _ _ n | KZoned _ _ n | KBinary _ _ _ n => n | KText _ => 0 end.

Definition stored (k : fkind) (v : fval) : sval :=
  match v with
  | FNum ds s => SDec (mkdec (is_neg_sign s) (val ds) (- Z.of_nat (scale k)))
  | FInt z => SInt z
  | FTxt cs => SStr cs
  end.

(* ---- hypotheses, as booleans ---- *)
(* the item's width in the record description is the width its USAGE and PICTURE demand, the usage spelling is
   one of its family, and the digit count is one C02 speaks about (at most 28 digit positions; binary: 1-18 digits) *)
Definition kind_ok (k : fkind) (sz : nat) : bool :=
  (sz =? kind_width k) &&
  match k with
  | KPacked u _ m n => existsb (N.eqb u) packed_spellings && (m + n <=? 28)
  | KZoned s m n => (1 <=? spec_display_width s (m + n)) && (spec_display_width s (m + n) <=? 28)
  | KBinary u _ m n => existsb (N.eqb u) binary_spellings
                       && match spec_binary_width (m + n) with Some _ => true | None => false end
  | KText _ => true
  end.

(* the value fits the picture: digits only, no more of them than the picture has, a valid sign nibble;
   an integer of the field's width; a text of the field's length in characters of code page 037 *)
Definition val_ok (k : fkind) (v : fval) : bool :=
  match k, v with
  | KPacked _ _ m n, FNum ds s => forallb is_digit ds && (length ds <=? m + n) && valid_sign s
  | KZoned _ m n, FNum ds s => forallb is_digit ds && (length ds <=? m + n) && valid_sign s
  | KBinary _ _ m n, FInt z =>
      let w := Z.of_nat (binary_width m n) in
      ((- 2 ^ (8 * w - 1) <=? z) && (z <? 2 ^ (8 * w - 1)))%Z
  | KText k, FTxt cs => (length cs =? k) && forallb in_cp037 cs
  | _, _ => false
  end.

(* ---- the record ---- *)
Section Record.
  Variable kd : kinds.
  Variable vals : assignment.
  Variable e : env.

  (* [path] is the navigation path to the item x itself (the empty path for the record) *)
  Fixpoint rec_item (x : item) (path : list step) : list N :=
    match x with
    | Elem i _ Once _ => enc_field (kd i) (vals path)
    | Elem i _ oc _ =>
        flat_map (fun j => enc_field (kd i) (vals (path ++ [PIndex j; PName i]))) (seq 0 (count e oc))
    | Group _ Once _ ks => rec_kids ks path
    | Group _ oc _ ks => flat_map (fun j => rec_kids ks (path ++ [PIndex j])) (seq 0 (count e oc))
    end
  with rec_kids (ks : items) (path : list step) : list N :=
    match ks with
    | INil => []
    | ICons x xs =>
        (if is_redefiner x then [] else rec_item x (path ++ [PName (item_id x)])) ++ rec_kids xs path
    end.

  Definition spec_record (t : item) : list N := rec_item t [].

  (* every elementary occurrence that owns storage has a width and a value that fit its kind *)
  Fixpoint ok_item (x : item) (path : list step) : bool :=
    match x with
    | Elem i sz Once _ => kind_ok (kd i) sz && val_ok (kd i) (vals path)
    | Elem i sz oc _ =>
        kind_ok (kd i) sz
        && forallb (fun j => val_ok (kd i) (vals (path ++ [PIndex j; PName i]))) (seq 0 (count e oc))
    | Group _ Once _ ks => ok_kids ks path
    | Group _ oc _ ks => forallb (fun j => ok_kids ks (path ++ [PIndex j])) (seq 0 (count e oc))
    end
  with ok_kids (ks : items) (path : list step) : bool :=
    match ks with
    | INil => true
    | ICons x xs =>
        (if is_redefiner x then true else ok_item x (path ++ [PName (item_id x)])) && ok_kids xs path
    end.

  Definition record_ok (t : item) : bool := ok_item t [].

  (* ---- which paths lead to an elementary occurrence that owns its storage ---- *)
  (* no step of the path enters an item that REDEFINES another *)
  Fixpoint own_storage (v : view) (start : nat) (p : list step) : bool :=
    match p with
    | [] => true
    | s :: p' =>
        match spec_step e v start s with
        | inl (v', st') =>
            negb (match v' with VItem x => is_redefiner x | _ => false end) && own_storage v' st' p'
        | inr _ => false
        end
    end.

  (* the name the path ends in *)
  Fixpoint last_name (p : list step) (i0 : id) : id :=
    match p with
    | [] => i0
    | PName k :: p' => last_name p' k
    | PIndex _ :: p' => last_name p' i0
    end.

  (* (item id, width, start) of the elementary occurrence the path p leads to in the record t *)
  Definition elem_at (t : item) (p : list step) : option (id * nat * nat) :=
    match spec_nav e (VItem t) 0 p with
    | inl (VItem (Elem i sz Once _), st) => Some (i, sz, st)
    | inl (VAtom sz, st) => Some (last_name p 0%N, sz, st)
    | _ => None
    end.

  (* all such paths, in storage order (used by the correspondence run and the examples; the theorem quantifies
     over every path, not over this list) *)
  Fixpoint paths_item (x : item) (path : list step) : list (list step) :=
    match x with
    | Elem i _ Once _ => [path]
    | Elem i _ oc _ => map (fun j => path ++ [PIndex j; PName i]) (seq 0 (count e oc))
    | Group _ Once _ ks => paths_kids ks path
    | Group _ oc _ ks => flat_map (fun j => paths_kids ks (path ++ [PIndex j])) (seq 0 (count e oc))
    end
  with paths_kids (ks : items) (path : list step) : list (list step) :=
    match ks with
    | INil => []
    | ICons x xs =>
        (if is_redefiner x then [] else paths_item x (path ++ [PName (item_id x)])) ++ paths_kids xs path
    end.

  Definition storage_paths (t : item) : list (list step) := paths_item t [].
End Record.
