(* Spec/JsonTypeWf.v - the well-formedness hypothesis of the C08 theorems (Props/C08.v, C08c.v); it used to be defined beside
   the lemmas of Proofs/JsonTypeP.v (audit item G1).  DEFINITION ONLY, moved textually.
   wf8 / wf8_kids   a record description is well formed for C08: REDEFINES among the children of a non-repeated group is
                    legal (L.unions_ok, the predicate of C01), no REDEFINES inside a repeated group, OCCURS DEPENDING ON
                    allowed anywhere
   The definition says L.unions_ok as it did in the proof file; L is the module alias below: Spec/LayoutWf.v.
   Imports: Spec/Layout.v (item, env), Spec/LayoutWf.v (as module L) and the MODEL file Model/Layout.v for redef_targets only. *)
From Coq Require Import List.
Import ListNotations.
Require Import SR.Spec.Layout SR.Model.Layout.
Local Open Scope N_scope.
Require SR.Spec.LayoutWf.
Module L := SR.Spec.LayoutWf.

(* well-formed record descriptions for this property: REDEFINES among the children of a non-repeated group
   name an earlier sibling that is not itself a redefiner (L.unions_ok, as in C01), no REDEFINES inside a
   repeated group (there build_json_schema raises); OCCURS DEPENDING ON allowed anywhere *)
Fixpoint wf8 (e : env) (x : item) : bool :=
  match x with
  | Elem _ _ _ _ => true
  | Group _ oc _ ks =>
      wf8_kids e ks && L.unions_ok e [] ks
      && match oc with Once => true | _ => match redef_targets ks with [] => true | _ => false end end
  end
with wf8_kids (e : env) (ks : items) : bool :=
  match ks with INil => true | ICons x xs => wf8 e x && wf8_kids e xs end.
