(* C03, second passes and padded records - what the property demands, written without looking at the readers.

   (a) PASSES.  The property speaks of "the same sequence of calls".  A sequence of calls may ask the SAME Sheet for
   its rows more than once: a complete pass (list(sheet.rows())), or a pass abandoned after its first k rows
   (list(itertools.islice(sheet.rows(), k))), one after the other.  The stored table does not change, so whatever
   the physical format every pass must deliver the table's rows from the first on: all of them, or the first k.
   [passes] is the list of passes (None = complete, Some k = the first k rows and then abandoned);
   [take_rows k rows] is what ONE pass must deliver; it does not depend on the passes before it.

   For reference (it is NOT what the property demands): [continuation left pat rows] is what a reader delivers that
   never goes back to the start of its file - every pass delivers rows of what the passes before it left unread.
   [left_rows] is the file position after the rows delivered, [left_swallowed] the case of a reader that read the
   whole file ahead into a buffer of its own when it was created.

   (b) PADDED RECORDS.  A fixed-length EBCDIC record may be longer than the layout the copybook describes (a reserved
   area at the end; very common).  The record length is then given explicitly (LRECL), the layout decides what is
   read from each record.  [write_ebcdic_padded T widths fill]: the record of every row as Spec/Transparency.v writes
   it, followed by that row's filler bytes - ANY bytes; [fill_ok pad T fill]: one filler of exactly [pad] bytes per
   row.  The table such a file holds is the padded table of the layout's columns: the filler is not part of it. *)
From Coq Require Import NArith List Bool Arith.
Import ListNotations.
Require Import SR.Spec.Transparency.

(* ------------------------------------------------------------------ (a) passes *)
Definition passes := list (option nat).

Definition take_rows {X} (k : option nat) (rows : list X) : list X :=
  match k with None => rows | Some n => firstn n rows end.

(* what every pass must deliver: the same table again *)
Definition demanded {X} (pat : passes) (rows : list X) : list (list X) := map (fun k => take_rows k rows) pat.

(* a reader that goes on where the pass before stopped *)
Fixpoint continuation {X} (left : option nat -> list X -> list X) (pat : passes) (rows : list X) : list (list X) :=
  match pat with
  | [] => []
  | k :: t => take_rows k rows :: continuation left t (left k rows)
  end.

Definition left_rows {X} (k : option nat) (rows : list X) : list X :=
  match k with None => [] | Some n => skipn n rows end.

Definition left_swallowed {X} (k : option nat) (rows : list X) : list X :=
  match k with Some O => rows | _ => [] end.

(* the sources the passes start from *)
Fixpoint remainders {X} (left : option nat -> list X -> list X) (pat : passes) (src : list X) : list (list X) :=
  match pat with
  | [] => []
  | k :: t => src :: remainders left t (left k src)
  end.

(* is a pass followed by another one *)
Definition has_second_pass (pat : passes) : bool := (2 <=? length pat)%nat.

(* ------------------------------------------------------------------ (b) padded records *)
Definition write_ebcdic_padded (T : table) (widths : list nat) (fill : list (list N)) : list N :=
  concat (map (fun p => write_ebcdic_row widths (fst p) ++ snd p) (combine (t_rows T) fill)).

Definition fill_ok (pad : nat) (T : table) (fill : list (list N)) : bool :=
  Nat.eqb (length fill) (length (t_rows T)) && forallb (fun f => Nat.eqb (length f) pad) fill.

(* the fillers of a file image whose records are [lrecl] long and whose layout ends at [used]: what follows the
   layout in every record (used by the judge to recognise the padded writer's output) *)
Fixpoint chunks {X} (fuel lrecl : nat) (s : list X) : list (list X) :=
  match fuel with
  | O => []
  | S f => match s with
           | [] => []
           | _ => firstn lrecl s :: chunks f lrecl (skipn lrecl s)
           end
  end.

Definition fillers_of (lrecl used : nat) (image : list N) : list (list N) :=
  map (skipn used) (chunks (length image) lrecl image).
