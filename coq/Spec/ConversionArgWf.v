(* Spec/ConversionArgWf.v - the one predicate of the C16 companion theorems (Props/C16b.v) that is neither a model function
   nor a definition of Spec/ConversionArg.v.  DEFINITION ONLY.
   int_ok   the str is the text of an integer that int() converts: the documented grammar [int_text] (Spec/ConversionArg.v)
            over the digit and white space classes of the running CPython, and at most 4300 digits
   Imports: Spec/ConversionArg.v (int_text, int_max_str_digits) and the MODEL file Model/ConversionArg.v for the two
   character classes py_digit_value / py_int_space (tables of Gen/UnicodeParams.v) only. *)
From Coq Require Import ZArith NArith List.
Require Import SR.Spec.ConversionArg SR.Model.ConversionArg.
Open Scope Z_scope.

Definition int_ok (s : list N) : Prop :=
  exists negative ds, int_text py_digit_value py_int_space s negative ds /\ Z.of_nat (length ds) <= int_max_str_digits.
