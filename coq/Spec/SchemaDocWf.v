(* Spec/SchemaDocWf.v - two functions that occur in the statements of Props/C08c.v and used to be defined beside the lemmas
   of Proofs/SchemaDocP.v (audit item G1).  DEFINITIONS ONLY, moved textually.
   is_decimal_kw   the keyword triple of an item says "decimal" (the extended vocabulary)
   atom_keys       the $anchor keys of the elementary sub-schemas of a structure tree
   Imports: the MODEL file Model/Layout.v (js, props, jalts, key: the structure tree build_json_schema produces). *)
From Coq Require Import NArith List.
Import ListNotations.
Require Import SR.Model.Layout.
Local Open Scope nat_scope.

(* the extended vocabulary: a simple type, or the vocabulary's decimal *)
Definition is_decimal_kw (k : N * N * N) : bool := (fst (fst k) =? 4)%N.

(* the $anchor keys of the elementary sub-schemas *)
Fixpoint atom_keys (s : js) : list key :=
  match s with
  | JAtom (Some k) _ => [k]
  | JAtom None _ => []
  | JArr _ _ its => atom_keys its
  | JOdo _ _ its => atom_keys its
  | JObj _ ps => atom_keys_props ps
  | JOne _ alts => atom_keys_alts alts
  | JRef _ => []
  end
with atom_keys_props (ps : props) : list key :=
  match ps with PNil => [] | PCons _ s r => atom_keys s ++ atom_keys_props r end
with atom_keys_alts (alts : jalts) : list key :=
  match alts with ANil => [] | ACons s r => atom_keys s ++ atom_keys_alts r end.
