(* Spec/OneDigitLevelWitness.v - the witness copybook of finding 6 (level numbers written with one digit) and the
   predicate of its theorems (Props/C07.v); they used to be defined beside the lemmas of Proofs/OneDigitLevelP.v
   (audit item G1).  DEFINITIONS ONLY, moved textually.
   digit_pair               some two adjacent characters of the text are both digits
   w6_line1..3, witness6    the copybook with levels 1, 5, 10;  w6_line1', w6_line2' the same with 01 and 05
   Imports: the MODEL file Model/RefFormat.v (line = list N, is_digit). *)
From Coq Require Import NArith List.
Import ListNotations.
Require Import SR.Model.RefFormat.
Local Open Scope N_scope.

(* some two adjacent characters of s are both digits *)
Fixpoint digit_pair (s : line) : bool :=
  match s with
  | d1 :: t => match t with
               | d2 :: _ => (is_digit d1 && is_digit d2) || digit_pair t
               | [] => false
               end
  | [] => false
  end.

(* ------------------------------------------------------------------ the witness
          1 R.
             5 A PIC X.
             10 B PIC X.                                                            *)
Definition w6_line1 : line := [32; 32; 32; 32; 32; 32; 32; 49; 32; 82; 46; 10].

Definition w6_line2 : line := [32; 32; 32; 32; 32; 32; 32; 32; 32; 32; 53; 32; 65; 32; 80; 73; 67; 32; 88; 46; 10].

Definition w6_line3 : line := [32; 32; 32; 32; 32; 32; 32; 32; 32; 32; 49; 48; 32; 66; 32; 80; 73; 67; 32; 88; 46; 10].

Definition witness6 : list line := [w6_line1; w6_line2; w6_line3].

(* the same with the levels written 01 and 05 *)
Definition w6_line1' : line := [32; 32; 32; 32; 32; 32; 32; 48; 49; 32; 82; 46; 10].

Definition w6_line2' : line := [32; 32; 32; 32; 32; 32; 32; 32; 32; 32; 48; 53; 32; 65; 32; 80; 73; 67; 32; 88; 46; 10].
