(* Spec/OdoWf.v - the hypothesis predicates of the layout theorem with OCCURS DEPENDING ON (Props/C06.v, C06c.v, C06d.v,
   C01b.v, C10c.v) that used to be defined beside their lemmas in Proofs/LayoutOdoP.v (audit item G1).
   DEFINITIONS ONLY, moved textually (the two Sections keep the Variables the definitions were written under, so the
   constants have the same arguments as before: wfo e avail x and Holds B dcount r e x st).
   no_targets, member   REDEFINES helpers: no union among these children / x belongs to a union among its siblings
   new_counters         the counters an item makes available to what follows it
   wfo / wfo_kids       a record description WITH ODO tables is well formed (counter earlier, elementary, outside unions/tables)
   Holds / HoldsKids    the record r carries the count vector e at the place of every potential counter
   Imports: Spec/Layout.v (item, env, kid_starts, slice), Spec/LayoutWf.v (wf, wf_kids, unions_ok, assoc) and the MODEL file
   Model/Layout.v for redef_targets only (used by no_targets and member). *)
From Coq Require Import List NArith.
Import ListNotations.
Require Import SR.Spec.Layout SR.Model.Layout SR.Spec.LayoutWf.

Definition no_targets (ks : items) : bool := match redef_targets ks with [] => true | _ => false end.

(* x belongs to a REDEFINES union among its siblings: it redefines, or a LATER sibling redefines it *)
Definition member (x : item) (xs : items) : bool :=
  match item_redef x with
  | Some _ => true
  | None => existsb (N.eqb (item_id x)) (redef_targets xs)
  end.

(* the counters an item makes available to what follows it *)
Fixpoint new_counters (x : item) : list id :=
  match x with
  | Elem i _ Once _ => [i]
  | Group _ Once _ ks => kids_counters ks
  | _ => []
  end
with kids_counters (ks : items) : list id :=
  match ks with
  | INil => []
  | ICons x xs => (if member x xs then [] else new_counters x) ++ kids_counters xs
  end.

Section Odo.
  Variable e : env.

  Fixpoint wfo (avail : list id) (x : item) : bool :=
    match x with
    | Elem _ _ (Odo c) None => existsb (N.eqb c) avail
    | Elem _ _ (Odo _) (Some _) => false
    | Elem _ _ _ _ => true
    | Group _ (Odo c) None ks => existsb (N.eqb c) avail && wf_kids e ks && no_targets ks
    | Group _ (Odo _) (Some _) _ => false
    | Group _ (Times _) _ ks => wf_kids e ks && no_targets ks
    | Group _ Once _ ks => wfo_kids avail ks && unions_ok e [] ks
    end
  with wfo_kids (avail : list id) (ks : items) : bool :=
    match ks with
    | INil => true
    | ICons x xs =>
        if member x xs then wf e x && wfo_kids avail xs
        else wfo avail x && wfo_kids (avail ++ new_counters x) xs
    end.
End Odo.

Section MainOdo.
  Variable B : Type.
  Variable dcount : list B -> nat.
  Variable r : list B.
  Variable e : env.

  (* the record carries the count vector at the place of every potential counter *)
  Fixpoint Holds (x : item) (st : nat) {struct x} : Prop :=
    match x with
    | Elem i sz Once _ => dcount (slice r st (st + sz)) = e i
    | Group _ Once _ ks => HoldsKids (kid_starts e ks st []) ks
    | _ => True
    end
  with HoldsKids (starts : list (id * nat)) (ks : items) {struct ks} : Prop :=
    match ks with
    | INil => True
    | ICons x xs =>
        (if member x xs then True else exists o, assoc (item_id x) starts = Some o /\ Holds x o)
        /\ HoldsKids starts xs
    end.
End MainOdo.
