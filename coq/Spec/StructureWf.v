(* Spec/StructureWf.v - the predicates and functions that occur in the statements of Props/C07.v, C07b.v, C12c.v and used to
   be defined beside the lemmas of Proofs/StructureP.v (audit item G1).  DEFINITIONS ONLY, moved textually.
   users          the names the copybook's author wrote (entries that are not FILLER)
   not_generated  a name that is not one of the generated FILLER-n names
   no01           an entry whose level is not 01
   levels_of      the level numbers of a list of DDE objects
   kept_of        the DDE objects the structure pass keeps (the first entry, then every entry not of level 66/77/88)
   Imports: Spec/Dde.v (lvl_num) and the MODEL file Model/Structure.v (the entry and dde records, mk_ddes, keep, gen_name,
   is_filler, lvl_eqb, L01: the records and the object constructor are the model's). *)
From Coq Require Import NArith List.
Import ListNotations.
Require Import SR.Spec.Dde SR.Model.Structure.
Local Open Scope nat_scope.

Definition users (l : list entry) : list str := map dde_name (filter (fun e => negb (is_filler e)) l).

Definition not_generated (u : str) : Prop := forall n, u <> gen_name n.

Definition no01 (e : entry) : Prop := lvl_eqb (elv e) L01 = false.

Definition levels_of (K : list dde) : list N := map (fun d => lvl_num (dlv d)) K.

Definition kept_of (l : list entry) : list dde :=
  match mk_ddes 0 l with
  | [] => []
  | d :: r => d :: filter keep r
  end.
