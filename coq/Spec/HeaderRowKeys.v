(* Spec/HeaderRowKeys.v - the four JSON Schema keywords that occur in the statements of Props/C17c.v; they used to be
   defined beside the lemmas of Proofs/HeaderRowP.v (audit item G1).  DEFINITIONS ONLY, moved textually.
   k_title = "title", k_anchor = "$anchor", k_type = "type", k_string = "string" (as lists of code points)
   Imports: the MODEL file Model/HeaderRow.v for the type name key (= list of code points). *)
From Coq Require Import NArith List.
Import ListNotations.
Require Import SR.Model.HeaderRow.

Definition k_title : key := [116; 105; 116; 108; 101]%N.

Definition k_anchor : key := [36; 97; 110; 99; 104; 111; 114]%N.

Definition k_type : key := [116; 121; 112; 101]%N.

Definition k_string : key := [115; 116; 114; 105; 110; 103]%N.
