(* Spec/LayoutWf.v - the hypothesis predicates and functions of the C01 layout theorems (Props/C01*.v, C06*.v, C10*.v)
   that used to be defined beside their lemmas in Proofs/LayoutP.v (audit item G1).  DEFINITIONS ONLY, moved textually.
   ids / ids_kids   the data names of a record description, in document order (NoDup (ids t) = all names distinct)
   unions_ok        REDEFINES among the children of one group is legal
   wf / wf_kids     a record description without OCCURS DEPENDING ON is well formed
   alts_red, assemble_d   the flattened children loop of build_json_schema (the statement of C01_assemble)
   kid_ids, assoc   helpers of the above (used by Spec/OdoWf.v and Spec/LayoutNamesWf.v)
   Imports: Spec/Layout.v (item, items, env, extent ...) and the MODEL file Model/Layout.v - for redef_targets (the list of
   names redefined among some children; the model owns that function) and, in alts_red / assemble_d only, for build_alt and
   the structure-tree constructors (assemble_d describes what the model's children loop produces). *)
From Coq Require Import List Arith NArith.
Import ListNotations.
Require Import SR.Spec.Layout SR.Model.Layout.

Fixpoint ids (x : item) : list id :=
  item_id x :: match x with Elem _ _ _ _ => [] | Group _ _ _ ks => ids_kids ks end
with ids_kids (ks : items) : list id :=
  match ks with INil => [] | ICons x xs => ids x ++ ids_kids xs end.

Definition elem_table (x : item) : bool :=
  match x with Elem _ _ Once _ => false | Elem _ _ _ _ => true | Group _ _ _ _ => false end.

Definition no_odo (o : occ) : bool := match o with Odo _ => false | _ => true end.

(* REDEFINES among the children of one group: a redefiner names an EARLIER sibling that is not itself
   a redefiner, is no longer than it, and neither is an elementary OCCURS item *)
Fixpoint unions_ok (e : env) (bases : list (id * nat)) (ks : items) : bool :=
  match ks with
  | INil => true
  | ICons x xs =>
      match item_redef x with
      | Some u =>
          negb (elem_table x)
          && match find (fun p => N.eqb (fst p) u) bases with
             | Some (_, ext_u) => extent e x <=? ext_u
             | None => false
             end
          && unions_ok e bases xs
      | None =>
          (* an elementary OCCURS item may not be redefined *)
          (negb (elem_table x) || negb (existsb (N.eqb (item_id x)) (redef_targets xs)))
          && unions_ok e ((item_id x, extent e x) :: bases) xs
      end
  end.

Fixpoint wf (e : env) (x : item) : bool :=
  no_odo (item_oc x) &&
  match x with
  | Elem _ _ _ _ => true
  | Group _ oc _ ks =>
      wf_kids e ks &&
      match oc with
      | Once => unions_ok e [] ks
      | _ => match redef_targets ks with [] => true | _ => false end
      end
  end
with wf_kids (e : env) (ks : items) : bool :=
  match ks with INil => true | ICons x xs => wf e x && wf_kids e xs end.

(* alternatives contributed by the redefiners of u among xs *)
Fixpoint alts_red (u : id) (xs : items) : jalts :=
  match xs with
  | INil => ANil
  | ICons y ys =>
      match item_redef y with
      | Some u' => if N.eqb u u' then ACons (build_alt y) (alts_red u ys) else alts_red u ys
      | None => alts_red u ys
      end
  end.

(* direct description: at the redefined item x: REDEFINES-x -> oneOf [x, its redefiners in order]
   then x -> $ref; at a redefiner y: y -> $ref; otherwise k -> build k *)
Fixpoint assemble_d (ks : items) : props :=
  match ks with
  | INil => PNil
  | ICons x xs =>
      match item_redef x with
      | Some _ => PCons (KName (item_id x)) (JRef (KName (item_id x))) (assemble_d xs)
      | None =>
          if existsb (N.eqb (item_id x)) (redef_targets xs)
          then PCons (KRedef (item_id x))
                 (JOne (Some (KRedef (item_id x))) (ACons (build_alt x) (alts_red (item_id x) xs)))
                 (PCons (KName (item_id x)) (JRef (KName (item_id x))) (assemble_d xs))
          else PCons (KName (item_id x)) (build_alt x) (assemble_d xs)
      end
  end.

Fixpoint kid_ids (ks : items) : list id :=
  match ks with INil => [] | ICons x xs => item_id x :: kid_ids xs end.

Fixpoint assoc (i : id) (l : list (id * nat)) : option nat :=
  match l with [] => None | (j, v) :: r => if N.eqb j i then Some v else assoc i r end.
