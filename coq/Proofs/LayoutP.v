(* Proofs for C01: the Location tree built from a well-formed record description puts every item
   at the bytes the COBOL rules assign it.  Trees here have no OCCURS DEPENDING ON (that is C06's
   theorem); REDEFINES anywhere among the children of a non-repeated group. *)
From Coq Require Import List Arith NArith Bool Lia.
Import ListNotations.
Require Import SR.Base.Res SR.Spec.Layout SR.Model.Layout.
(* The definitions of this development that occur in theorem statements (Props/) live in Spec/LayoutWf.v (audit item G1).
   The abbreviations keep the qualified names LayoutP.name of other files resolving; they are parsing-only aliases. *)
Require Export SR.Spec.LayoutWf.
Notation ids := SR.Spec.LayoutWf.ids (only parsing).
Notation ids_kids := SR.Spec.LayoutWf.ids_kids (only parsing).
Notation elem_table := SR.Spec.LayoutWf.elem_table (only parsing).
Notation no_odo := SR.Spec.LayoutWf.no_odo (only parsing).
Notation unions_ok := SR.Spec.LayoutWf.unions_ok (only parsing).
Notation wf := SR.Spec.LayoutWf.wf (only parsing).
Notation wf_kids := SR.Spec.LayoutWf.wf_kids (only parsing).
Notation alts_red := SR.Spec.LayoutWf.alts_red (only parsing).
Notation assemble_d := SR.Spec.LayoutWf.assemble_d (only parsing).
Notation kid_ids := SR.Spec.LayoutWf.kid_ids (only parsing).
Notation assoc := SR.Spec.LayoutWf.assoc (only parsing).

(* ------------------------------------------------------------------ keys and lookups *)
Lemma key_eqb_eq a b : key_eqb a b = true <-> a = b.
Proof.
  destruct a as [x|x], b as [y|y]; simpl; split; intros H; try discriminate;
    try (apply N.eqb_eq in H; subst; reflexivity); try (injection H as ->; apply N.eqb_refl).
Qed.
Lemma key_eqb_refl a : key_eqb a a = true.
Proof. apply key_eqb_eq. reflexivity. Qed.
Lemma key_eqb_neq a b : a <> b -> key_eqb a b = false.
Proof. intros H. destruct (key_eqb a b) eqn:E; [apply key_eqb_eq in E; contradiction|reflexivity]. Qed.

Lemma lookup_app k d an :
  lookup k (d ++ an) = match lookup k d with Some l => Some l | None => lookup k an end.
Proof.
  induction d as [|[k' l] d IH]; simpl; [reflexivity|].
  destruct (key_eqb k k'); [reflexivity|exact IH].
Qed.

Lemma lookup_none k d : ~ In k (map fst d) -> lookup k d = None.
Proof.
  induction d as [|[k' l] d IH]; simpl; intros H; [reflexivity|].
  rewrite key_eqb_neq by (intros ->; apply H; left; reflexivity). apply IH. tauto.
Qed.

Lemma lookup_skip k d an : ~ In k (map fst d) -> lookup k (d ++ an) = lookup k an.
Proof. intros H. rewrite lookup_app, lookup_none by exact H. reflexivity. Qed.

Definition opt_list {T} (o : option T) : list T := match o with Some x => [x] | None => [] end.

(* every key a walk of s may register *)
Fixpoint keys_js (s : js) : list key :=
  opt_list (js_anchor s) ++
  match s with
  | JArr _ _ its | JOdo _ _ its => keys_js its
  | JObj _ ps => keys_props ps
  | JOne _ alts => keys_alts alts
  | _ => []
  end
with keys_props (ps : props) : list key :=
  match ps with PNil => [] | PCons _ s r => keys_js s ++ keys_props r end
with keys_alts (alts : jalts) : list key :=
  match alts with ANil => [] | ACons s r => keys_js s ++ keys_alts r end.

Lemma reg_app a l an : reg a l an = map (fun k => (k, l)) (opt_list a) ++ an.
Proof. destruct a; reflexivity. Qed.

(* ------------------------------------------------------------------ Location.__init__ under the current rules *)
Lemma loc_start_eq s e : loc_start s e = s.
Proof. reflexivity. Qed.
(* a constructor called with (start, start + z) stores the size z *)
Lemma loc_size_plus s z : loc_size s (s + z) = z.
Proof.
  change (loc_size s (s + z)) with (if s + z =? 0 then 0 else s + z - s).
  destruct (s + z =? 0) eqn:E; [apply Nat.eqb_eq in E|]; lia.
Qed.
(* the model keeps (start, size) and takes start + size for the end (lend): that is the end the constructor stores *)
Lemma loc_end_consistent s e : s <= e -> loc_end s e = loc_start s e + loc_size s e.
Proof.
  intros H.
  change (loc_end s e) with (if e =? 0 then s else e).
  change (loc_size s e) with (if e =? 0 then 0 else e - s). rewrite loc_start_eq.
  destruct (e =? 0) eqn:E; [apply Nat.eqb_eq in E|]; lia.
Qed.
(* a $ref placeholder takes no room *)
Lemma ref_size_0 s : ref_size s = 0.
Proof. reflexivity. Qed.
Lemma lsize_ref s k : lsize (LRef s k) = 0.
Proof. reflexivity. Qed.

Section Walk.
  Variable B : Type.
  Variable dcount : list B -> nat.
  Variable r : list B.
  Notation walk := (Layout.walk dcount r).
  Notation walk_props := (Layout.walk_props dcount r).
  Notation walk_alts := (Layout.walk_alts dcount r).


  (* unfolding equations (cbn does not refold the mutual fixpoint).  Model/Layout.v evaluates the rules that
     harness/t1_layout.py read in the source (Gen/LayoutParams.v); the equations below state what the walk is under
     the rules as they are NOW, in the form every later proof uses, and each is proved by computation from the
     generated parameters (plus loc_size_plus).  A source edit that changes a parameter makes them fail. *)
  Lemma walk_atom a sz st an : walk (JAtom a sz) st an = Ok (LAtom st sz, reg a (LAtom st sz) an).
  Proof.
    change (walk (JAtom a sz) st an)
      with (Ok (LAtom st (loc_size st (st + sz)), reg a (LAtom st (loc_size st (st + sz))) an) : res (loc * anchors)).
    rewrite loc_size_plus. reflexivity.
  Qed.
  Lemma walk_arr a n its st an :
    walk (JArr a n its) st an =
    match walk its st an with
    | Err e => Err e
    | Ok (sub, an1) => Ok (LArr st (lsize sub * n) (lsize sub) n sub its, reg a (LArr st (lsize sub * n) (lsize sub) n sub its) an1)
    end.
  Proof.
    change (walk (JArr a n its) st an)
      with (match walk its st an with
            | Err e => Err e
            | Ok (sub, an1) =>
                Ok (LArr st (loc_size st (st + lsize sub * n)) (lsize sub) n sub its,
                    reg a (LArr st (loc_size st (st + lsize sub * n)) (lsize sub) n sub its) an1)
            end).
    destruct (walk its st an) as [[sub an1]|ex]; [|reflexivity]. rewrite loc_size_plus. reflexivity.
  Qed.
  Lemma walk_odo a c its st an :
    walk (JOdo a c its) st an =
    match lookup (KName c) an with
    | None => Err KeyError
    | Some (LAtom cst csz) =>
        match walk its st an with
        | Err e => Err e
        | Ok (sub, an1) =>
            Ok (LArr st (lsize sub * dcount (slice r cst (cst + csz))) (lsize sub) (dcount (slice r cst (cst + csz))) sub its,
                reg a (LArr st (lsize sub * dcount (slice r cst (cst + csz))) (lsize sub) (dcount (slice r cst (cst + csz))) sub its) an1)
        end
    | Some _ => Err TypeError
    end.
  Proof.
    change (walk (JOdo a c its) st an)
      with (match odo_count dcount r c an with
            | Err e => Err e
            | Ok cnt =>
                match walk its st an with
                | Err e => Err e
                | Ok (sub, an1) =>
                    Ok (LArr st (loc_size st (st + lsize sub * cnt)) (lsize sub) cnt sub its,
                        reg a (LArr st (loc_size st (st + lsize sub * cnt)) (lsize sub) cnt sub its) an1)
                end
            end).
    change (odo_count dcount r c an)
      with (match lookup (KName c) an with
            | None => Err KeyError
            | Some (LAtom cst csz) => Ok (dcount (slice r cst (cst + csz)))
            | Some _ => Err TypeError
            end).
    destruct (lookup (KName c) an) as [[cst csz| | | |]|]; try reflexivity.
    destruct (walk its st an) as [[sub an1]|ex]; [|reflexivity]. rewrite loc_size_plus. reflexivity.
  Qed.
  Lemma walk_ref k st an : walk (JRef k) st an = Ok (LRef st k, an).
  Proof. reflexivity. Qed.
  Lemma walk_props_nil off an : walk_props PNil off an = Ok (LPNil, off, an).
  Proof. reflexivity. Qed.
  Lemma walk_props_cons k p rest off an :
    walk_props (PCons k p rest) off an =
    match walk p off an with
    | Err e => Err e
    | Ok (pl, an1) =>
        match walk_props rest (off + lsize pl) (reg (js_anchor p) pl an1) with
        | Err e => Err e
        | Ok (rl, off', an2) => Ok (LPCons k pl rl, off', an2)
        end
    end.
  Proof. reflexivity. Qed.
  Lemma walk_alts_nil st an : walk_alts ANil st an = Ok (LANil, an).
  Proof. reflexivity. Qed.
  Lemma walk_alts_cons s rest st an :
    walk_alts (ACons s rest) st an =
    match walk s st an with
    | Err e => Err e
    | Ok (l, an1) =>
        match walk_alts rest st an1 with
        | Err e => Err e
        | Ok (ls, an2) => Ok (LACons l ls, an2)
        end
    end.
  Proof. reflexivity. Qed.

  (* the running offset of the ObjectSchema loop ends at start + the sum of the property sizes, which is the size
     ObjectLocation.__init__ stores (obj_size_override); the proofs below use it as  off - st *)
  Lemma walk_props_offset :
    forall ps off an pls off' an', walk_props ps off an = Ok (pls, off', an') -> off' = off + sum_props pls.
  Proof.
    induction ps as [|k p rest IH]; intros off an pls off' an' H.
    - rewrite walk_props_nil in H. injection H as <- <- <-. cbn [sum_props]. lia.
    - rewrite walk_props_cons in H. destruct (walk p off an) as [[pl an1]|ex]; [|discriminate].
      destruct (walk_props rest (off + lsize pl) (reg (js_anchor p) pl an1)) as [[[rl o2] an2]|ex] eqn:E; [|discriminate].
      injection H as <- <- <-. apply IH in E. cbn [sum_props]. lia.
  Qed.
  (* ObjectLocation(schema, property_locations, start, offset) stores the size offset - start: either because
     ObjectLocation.__init__ sets self.size to the sum over the properties (as it does now), or, without that
     statement, because Location.__init__ computes end - start; the proof accepts both spellings of the source *)
  Lemma obj_size_eq ps st an pls off an1 :
    walk_props ps st an = Ok (pls, off, an1) -> obj_size st off pls = off - st.
  Proof.
    intros E. apply walk_props_offset in E.
    first
      [ change (obj_size st off pls) with (sum_props pls); lia
      | change (obj_size st off pls) with (loc_size st off); subst off; rewrite loc_size_plus; lia ].
  Qed.
  Lemma walk_obj a ps st an :
    walk (JObj a ps) st an =
    match walk_props ps st an with
    | Err e => Err e
    | Ok (pls, off, an1) => Ok (LObj st (off - st) pls, reg a (LObj st (off - st) pls) an1)
    end.
  Proof.
    change (walk (JObj a ps) st an)
      with (match walk_props ps st an with
            | Err e => Err e
            | Ok (pls, off, an1) => Ok (LObj st (obj_size st off pls) pls, reg a (LObj st (obj_size st off pls) pls) an1)
            end).
    destruct (walk_props ps st an) as [[[pls off] an1]|ex] eqn:E; [|reflexivity].
    rewrite (obj_size_eq _ _ _ _ _ _ E). reflexivity.
  Qed.
  Lemma walk_one a s0 rest st an :
    walk (JOne a (ACons s0 rest)) st an =
    match walk_alts (ACons s0 rest) st an with
    | Err e => Err e
    | Ok (als, an1) => Ok (LOne st (max_size als) als, reg a (LOne st (max_size als) als) an1)
    end.
  Proof.
    change (walk (JOne a (ACons s0 rest)) st an)
      with (match walk_alts (ACons s0 rest) st an with
            | Err e => Err e
            | Ok (als, an1) =>
                Ok (LOne st (loc_size st (st + max_size als)) als, reg a (LOne st (loc_size st (st + max_size als)) als) an1)
            end).
    destruct (walk_alts (ACons s0 rest) st an) as [[als an1]|ex]; [|reflexivity]. rewrite loc_size_plus. reflexivity.
  Qed.
  Lemma walk_one_nil a st an : walk (JOne a ANil) st an = Err ValueError.
  Proof. reflexivity. Qed.

  (* NDNav under the current rules: from_instance starts at the start it is given (0 by default); name resolves a
     $ref placeholder through its referent; index refuses index >= item_count and re-walks one occurrence from
     start + item_size * index with a fresh LocationMaker; raw is instance[start : end] *)
  Lemma nav_of_unf s :
    nav_of dcount r s = match walk s 0 [] with Ok (l, an) => Ok (mknav l an) | Err e => Err e end.
  Proof. reflexivity. Qed.
  Lemma nav_name_unf v k :
    nav_name v k =
    match n_loc v with
    | LObj _ _ ps =>
        match find_prop k ps with
        | None => Err KeyError
        | Some (LRef _ t) => match lookup t (n_an v) with Some l => Ok (mknav l (n_an v)) | None => Err KeyError end
        | Some l => Ok (mknav l (n_an v))
        end
    | _ => Err TypeError
    end.
  Proof. reflexivity. Qed.
  Lemma nav_index_unf v i :
    nav_index dcount r v i =
    match n_loc v with
    | LArr st _ isz cnt _ sch =>
        if cnt <=? i then Err IndexError
        else match walk sch (st + isz * i) [] with
             | Ok (l, an) => Ok (mknav l an)
             | Err e => Err e
             end
    | _ => Err TypeError
    end.
  Proof. reflexivity. Qed.
  Lemma nav_raw_unf v : nav_raw r v = slice r (lstart (n_loc v)) (lend (n_loc v)).
  Proof. reflexivity. Qed.

  (* a walk only ever PREPENDS registrations, and only under keys that occur in the schema *)
  Definition extends (ks : list key) (an an' : anchors) : Prop :=
    exists d, an' = d ++ an /\ forall k, In k (map fst d) -> In k ks.

  Lemma extends_refl ks an : extends ks an an.
  Proof. exists []. split; [reflexivity|intros k []]. Qed.

  Lemma extends_trans ks1 ks2 ks a b c :
    extends ks1 a b -> extends ks2 b c -> incl ks1 ks -> incl ks2 ks -> extends ks a c.
  Proof.
    intros (d1 & -> & H1) (d2 & -> & H2) I1 I2. exists (d2 ++ d1). split; [rewrite app_assoc; reflexivity|].
    intros k Hk. rewrite map_app in Hk. apply in_app_or in Hk. destruct Hk as [Hk|Hk]; auto.
  Qed.

  Lemma extends_mono ks ks' a b : extends ks a b -> incl ks ks' -> extends ks' a b.
  Proof. intros (d & -> & H) I. exists d. split; [reflexivity|]. intros k Hk. apply I, H, Hk. Qed.
  Lemma extends_chain ks a b c : extends ks a b -> extends ks b c -> extends ks a c.
  Proof. intros H1 H2. eapply extends_trans; [exact H1|exact H2| |]; apply incl_refl. Qed.

  Lemma extends_reg a l ks an : incl (opt_list a) ks -> extends ks an (reg a l an).
  Proof.
    intros H. rewrite reg_app. eexists. split; [reflexivity|].
    intros k Hk. rewrite map_map in Hk. simpl in Hk. rewrite map_id in Hk. auto.
  Qed.

  Lemma extends_lookup ks an an' k : extends ks an an' -> ~ In k ks -> lookup k an' = lookup k an.
  Proof. intros (d & -> & H) Hk. apply lookup_skip. intros Hin. apply Hk, H, Hin. Qed.

  Lemma walk_extends :
    (forall s st an l an', walk s st an = Ok (l, an') -> extends (keys_js s) an an') /\
    (forall ps off an pls off' an', walk_props ps off an = Ok (pls, off', an') -> extends (keys_props ps) an an') /\
    (forall alts st an als an', walk_alts alts st an = Ok (als, an') -> extends (keys_alts alts) an an').
  Proof.
    apply js_props_alts_ind.
    - intros a sz st an l an' H. rewrite walk_atom in H. injection H as <- <-.
      apply extends_reg. cbn. rewrite app_nil_r. apply incl_refl.
    - intros a n its IH st an l an' H. rewrite walk_arr in H.
      destruct (walk its st an) as [[sub an1]|] eqn:E; [|discriminate]. cbv beta iota zeta in H. injection H as <- <-.
      eapply extends_trans; [eapply IH; exact E|apply extends_reg; apply incl_refl| |]; cbn [keys_js];
        [apply incl_appr, incl_refl|apply incl_appl, incl_refl].
    - intros a c its IH st an l an' H. rewrite walk_odo in H.
      destruct (lookup (KName c) an) as [[cst csz| | | |]|]; try discriminate.
      destruct (walk its st an) as [[sub an1]|] eqn:E; [|discriminate]. cbv beta iota zeta in H. injection H as <- <-.
      eapply extends_trans; [eapply IH; exact E|apply extends_reg; apply incl_refl| |]; cbn [keys_js];
        [apply incl_appr, incl_refl|apply incl_appl, incl_refl].
    - intros a ps IH st an l an' H. rewrite walk_obj in H.
      destruct (walk_props ps st an) as [[[pls off] an1]|] eqn:E; [|discriminate]. cbv beta iota zeta in H. injection H as <- <-.
      eapply extends_trans; [eapply IH; exact E|apply extends_reg; apply incl_refl| |]; cbn [keys_js];
        [apply incl_appr, incl_refl|apply incl_appl, incl_refl].
    - intros a alts IH st an l an' H.
      destruct alts as [|s0 rest]; [rewrite walk_one_nil in H; discriminate|]. rewrite walk_one in H.
      destruct (walk_alts (ACons s0 rest) st an) as [[als an1]|] eqn:E; [|discriminate]. cbv beta iota zeta in H. injection H as <- <-.
      eapply extends_trans; [eapply IH; exact E|apply extends_reg; apply incl_refl| |]; cbn [keys_js];
        [apply incl_appr, incl_refl|apply incl_appl, incl_refl].
    - intros t st an l an' H. rewrite walk_ref in H. injection H as <- <-. apply extends_refl.
    - intros off an pls off' an' H. rewrite walk_props_nil in H. injection H as <- <- <-. apply extends_refl.
    - intros k s IHs rest IHr off an pls off' an' H. rewrite walk_props_cons in H.
      destruct (walk s off an) as [[pl an1]|] eqn:E1; [|discriminate].
      destruct (walk_props rest (off + lsize pl) (reg (js_anchor s) pl an1)) as [[[rl o2] an2]|] eqn:E2; [|discriminate].
      cbv beta iota zeta in H. injection H as <- <- <-.
      assert (Hs : extends (keys_js s) an (reg (js_anchor s) pl an1)).
      { eapply extends_trans; [eapply IHs; exact E1|apply extends_reg; apply incl_refl|apply incl_refl|].
        destruct s; cbn; try (apply incl_appl, incl_refl). intros x []. }
      eapply extends_trans; [exact Hs|eapply IHr; exact E2| |]; cbn [keys_props];
        [apply incl_appl, incl_refl|apply incl_appr, incl_refl].
    - intros st an als an' H. rewrite walk_alts_nil in H. injection H as <- <-. apply extends_refl.
    - intros s IHs rest IHr st an als an' H. rewrite walk_alts_cons in H.
      destruct (walk s st an) as [[l an1]|] eqn:E1; [|discriminate].
      destruct (walk_alts rest st an1) as [[ls an2]|] eqn:E2; [|discriminate].
      cbv beta iota zeta in H. injection H as <- <-.
      eapply extends_trans; [eapply IHs; exact E1|eapply IHr; exact E2| |]; cbn [keys_alts];
        [apply incl_appl, incl_refl|apply incl_appr, incl_refl].
  Qed.
End Walk.

(* ------------------------------------------------------------------ ids and well-formedness *)

Fixpoint in_kids (x : item) (ks : items) : Prop :=
  match ks with INil => False | ICons y ys => x = y \/ in_kids x ys end.

(* ------------------------------------------------------------------ build_json_schema's children loop, flattened *)

Fixpoint app_items (a b : items) : items :=
  match a with INil => b | ICons x xs => ICons x (app_items xs b) end.

Lemma kid_alts_app tg a b : kid_alts tg (app_items a b) = kid_alts tg a ++ kid_alts tg b.
Proof. induction a as [|x xs IH]; cbn [app_items kid_alts app]; [reflexivity|]. rewrite IH. reflexivity. Qed.

Lemma kid_alts_cons tg x xs :
  kid_alts tg (ICons x xs) = (item_id x, union_of tg x, build_alt x) :: kid_alts tg xs.
Proof. reflexivity. Qed.

(* union_of (Model/Layout.v: a redefined item heads the union named after itself, any other redefiner belongs to the union
   it names) case by case *)
Lemma union_of_unf tg x :
  union_of tg x =
  match item_redef x with
  | Some t => if existsb (N.eqb (item_id x)) tg then Some (item_id x) else Some t
  | None => if existsb (N.eqb (item_id x)) tg then Some (item_id x) else None
  end.
Proof. unfold union_of. destruct (item_redef x), (existsb (N.eqb (item_id x)) tg); reflexivity. Qed.

Lemma alts_of_app u a b : alts_of u (a ++ b) =
  (fix cat (p q : jalts) : jalts := match p with ANil => q | ACons s r => ACons s (cat r q) end)
    (alts_of u a) (alts_of u b).
Proof.
  induction a as [|[[i o] s] a IH]; cbn [alts_of app]; [reflexivity|].
  destruct o as [u'|]; [destruct (N.eqb u u')|]; rewrite IH; reflexivity.
Qed.

(* no member of union u among a *)
Definition no_member (tg : list id) (u : id) (a : items) : Prop :=
  forall y, in_kids y a -> union_of tg y <> Some u.

Lemma alts_of_no_member tg u a : no_member tg u a -> alts_of u (kid_alts tg a) = ANil.
Proof.
  induction a as [|x xs IH]; intros H; [reflexivity|].
  rewrite kid_alts_cons. cbn [alts_of].
  assert (Hx : union_of tg x <> Some u) by (apply H; left; reflexivity).
  assert (Hxs : no_member tg u xs) by (intros y Hy; apply H; right; exact Hy).
  destruct (union_of tg x) as [u'|]; [|apply IH; exact Hxs].
  destruct (N.eqb u u') eqn:E; [apply N.eqb_eq in E; subst; contradiction|apply IH; exact Hxs].
Qed.

(* the redefiners of u in xs, when xs holds no other member of union u *)
Lemma alts_of_redefiners tg u xs :
  (forall y, in_kids y xs -> item_redef y = None -> item_id y <> u) ->
  (forall y, in_kids y xs -> item_redef y <> None -> existsb (N.eqb (item_id y)) tg = false) ->
  alts_of u (kid_alts tg xs) = alts_red u xs.
Proof.
  induction xs as [|y ys IH]; intros H Hnt; [reflexivity|].
  rewrite kid_alts_cons. cbn [alts_of alts_red]. rewrite union_of_unf.
  assert (Hys : forall z, in_kids z ys -> item_redef z = None -> item_id z <> u)
    by (intros z Hz; apply H; right; exact Hz).
  assert (Hnts : forall z, in_kids z ys -> item_redef z <> None -> existsb (N.eqb (item_id z)) tg = false)
    by (intros z Hz; apply Hnt; right; exact Hz).
  specialize (IH Hys Hnts).
  destruct (item_redef y) as [u'|] eqn:Er.
  - rewrite (Hnt y) by (try (left; reflexivity); rewrite Er; discriminate).
    destruct (N.eqb u u'); rewrite IH; reflexivity.
  - assert (Hy : item_id y <> u) by (apply H; [left; reflexivity|exact Er]).
    destruct (existsb (N.eqb (item_id y)) tg); [|exact IH].
    destruct (N.eqb u (item_id y)) eqn:E; [apply N.eqb_eq in E; subst; contradiction|exact IH].
Qed.

Lemma kid_ids_app a b : kid_ids (app_items a b) = kid_ids a ++ kid_ids b.
Proof. induction a as [|x xs IH]; cbn [app_items kid_ids app]; [reflexivity|]. rewrite IH. reflexivity. Qed.

Lemma in_kids_ids y ks : in_kids y ks -> In (item_id y) (kid_ids ks).
Proof.
  induction ks as [|x xs IH]; cbn [in_kids kid_ids]; [tauto|].
  intros [ -> |H]; [left; reflexivity|right; apply IH; exact H].
Qed.

(* the sibling structure alone: every redefiner names an earlier non-redefining sibling *)
Fixpoint sib_ok (bases : list id) (ks : items) : bool :=
  match ks with
  | INil => true
  | ICons x xs =>
      match item_redef x with
      | Some u => existsb (N.eqb u) bases && sib_ok bases xs
      | None => sib_ok (item_id x :: bases) xs
      end
  end.

Lemma NoDup_app_r {T} (a b : list T) : NoDup (a ++ b) -> NoDup b.
Proof. induction a as [|x a IH]; simpl; intros H; [exact H|]. apply IH. inversion H; assumption. Qed.
Lemma NoDup_app_l {T} (a b : list T) : NoDup (a ++ b) -> NoDup a.
Proof.
  induction a as [|x a IH]; simpl; intros H; [constructor|]. inversion H as [|? ? Hx Hr]; subst.
  constructor; [intros Hin; apply Hx; apply in_or_app; left; exact Hin|apply IH; exact Hr].
Qed.
Lemma NoDup_app_disj {T} (a b : list T) x : NoDup (a ++ b) -> In x a -> In x b -> False.
Proof.
  induction a as [|y a IH]; simpl; intros H Ha Hb; [contradiction|]. inversion H as [|? ? Hy Hr]; subst.
  destruct Ha as [ -> |Ha]; [apply Hy; apply in_or_app; right; exact Hb|apply IH; assumption].
Qed.

Lemma existsb_eqb_In u l : existsb (N.eqb u) l = true <-> In u l.
Proof.
  rewrite existsb_exists. split.
  - intros (x & Hx & E). apply N.eqb_eq in E. subst. exact Hx.
  - intros H. exists u. split; [exact H|apply N.eqb_refl].
Qed.

Lemma find_fst_In {T} u (l : list (id * T)) p :
  find (fun q => N.eqb (fst q) u) l = Some p -> In (fst p) (map fst l) /\ fst p = u.
Proof.
  induction l as [|[a b] l IH]; simpl; [discriminate|].
  destruct (N.eqb a u) eqn:E.
  - intros H. injection H as <-. apply N.eqb_eq in E. split; [left; reflexivity|exact E].
  - intros H. destruct (IH H) as [H1 H2]. split; [right; exact H1|exact H2].
Qed.

Lemma unions_sib_ok e bases ks : unions_ok e bases ks = true -> sib_ok (map fst bases) ks = true.
Proof.
  revert bases. induction ks as [|x xs IH]; intros bases H; [reflexivity|].
  cbn [unions_ok sib_ok] in *. destruct (item_redef x) as [u|].
  - apply andb_true_iff in H. destruct H as [H Hxs]. apply andb_true_iff in H. destruct H as [_ Hf].
    destruct (find (fun p => N.eqb (fst p) u) bases) as [[u' ext]|] eqn:Ef; [|discriminate].
    destruct (find_fst_In u bases _ Ef) as [Hin Heq]. cbn [fst] in *. subst u'.
    apply andb_true_iff. split; [apply existsb_eqb_In; exact Hin|apply IH; exact Hxs].
  - apply andb_true_iff in H. destruct H as [_ Hxs]. apply (IH _ Hxs).
Qed.

Lemma assemble_cons all em i o s rest :
  assemble all em ((i, o, s) :: rest) =
  match o with
  | None => PCons (KName i) s (assemble all em rest)
  | Some u =>
      if existsb (N.eqb u) em
      then PCons (KName i) (JRef (KName i)) (assemble all em rest)
      else PCons (KRedef u) (JOne (Some (KRedef u)) (alts_of u all))
             (PCons (KName i) (JRef (KName i)) (assemble all (u :: em) rest))
  end.
Proof. destruct o; reflexivity. Qed.

Lemma redef_targets_spec ks y u : in_kids y ks -> item_redef y = Some u -> In u (redef_targets ks).
Proof.
  induction ks as [|x xs IH]; cbn [in_kids redef_targets]; [tauto|].
  intros [ -> |H] E.
  - rewrite E. left. reflexivity.
  - destruct (item_redef x); [right|]; apply IH; assumption.
Qed.

(* among well-formed siblings no redefiner is itself redefined *)
Lemma sib_ok_targets : forall ks bases, sib_ok bases ks = true -> forall u, In u (redef_targets ks) ->
  In u bases \/ exists z, in_kids z ks /\ item_redef z = None /\ item_id z = u.
Proof.
  induction ks as [|x xs IH]; intros bases H u Hu; [destruct Hu|].
  cbn [sib_ok redef_targets] in *. destruct (item_redef x) as [t|] eqn:Er.
  - apply andb_true_iff in H. destruct H as [Ht Hxs]. destruct Hu as [ <- |Hu].
    + left. apply existsb_eqb_In. exact Ht.
    + destruct (IH bases Hxs u Hu) as [Hb|(z & Hz & Ez & Ei)]; [left; exact Hb|].
      right. exists z. split; [right; exact Hz|split; assumption].
  - destruct (IH _ H u Hu) as [[ <- |Hb]|(z & Hz & Ez & Ei)].
    + right. exists x. split; [left; reflexivity|split; [exact Er|reflexivity]].
    + left. exact Hb.
    + right. exists z. split; [right; exact Hz|split; assumption].
Qed.

Lemma in_kids_id_inj : forall ks y z, NoDup (kid_ids ks) -> in_kids y ks -> in_kids z ks -> item_id y = item_id z -> y = z.
Proof.
  induction ks as [|x xs IH]; intros y z Hnd Hy Hz E; [destruct Hy|].
  cbn [kid_ids in_kids] in *. apply NoDup_cons_iff in Hnd. destruct Hnd as [Hx Hnd].
  destruct Hy as [ -> |Hy], Hz as [ -> |Hz].
  - reflexivity.
  - exfalso. apply Hx. rewrite E. apply in_kids_ids. exact Hz.
  - exfalso. apply Hx. rewrite <- E. apply in_kids_ids. exact Hy.
  - apply IH; assumption.
Qed.

Lemma redefiner_not_target ks : sib_ok [] ks = true -> NoDup (kid_ids ks) ->
  forall y, in_kids y ks -> item_redef y <> None -> ~ In (item_id y) (redef_targets ks).
Proof.
  intros Hs Hnd y Hy Hr Hin. destruct (sib_ok_targets ks [] Hs _ Hin) as [[]|(z & Hz & Ez & Ei)].
  assert (z = y) by (apply (in_kids_id_inj ks); assumption). subst z. contradiction.
Qed.

Lemma in_kids_app_r y a b : in_kids y b -> in_kids y (app_items a b).
Proof. induction a as [|p ps IHp]; cbn [app_items in_kids]; intros H; [exact H|right; apply IHp; exact H]. Qed.

(* L1: the side effect on the parent's ordered properties, flattened *)
Lemma assemble_flat_gen tg : forall rem pre bases em,
  (forall u, In u em <-> (In u bases /\ In u tg)) ->
  (forall y, in_kids y pre -> match item_redef y with Some u => In u bases | None => In (item_id y) bases end) ->
  (forall u, In u bases -> In u (kid_ids pre)) ->
  NoDup (kid_ids (app_items pre rem)) ->
  sib_ok bases rem = true ->
  (forall y u, in_kids y rem -> item_redef y = Some u -> In u tg) ->
  (forall u, In u tg -> exists y, in_kids y (app_items pre rem) /\ item_redef y = Some u) ->
  (forall y, in_kids y (app_items pre rem) -> item_redef y <> None -> ~ In (item_id y) tg) ->
  assemble (kid_alts tg (app_items pre rem)) em (kid_alts tg rem) = assemble_d rem.
Proof.
  induction rem as [|x xs IH]; intros pre bases em Hem Hpre Hbases Hnd Hsib Htg Hsrc Hnr; [reflexivity|].
  rewrite kid_alts_cons, assemble_cons. cbn [assemble_d]. cbn [sib_ok] in Hsib.
  (* moving x from rem to pre *)
  assert (Happ : app_items pre (ICons x xs) = app_items (app_items pre (ICons x INil)) xs).
  { clear. induction pre as [|p ps IHp]; cbn [app_items]; [reflexivity|]. rewrite IHp. reflexivity. }
  assert (Hidspre : kid_ids (app_items pre (ICons x INil)) = kid_ids pre ++ [item_id x]).
  { rewrite kid_ids_app. reflexivity. }
  assert (Hinpre : forall y, in_kids y (app_items pre (ICons x INil)) -> in_kids y pre \/ y = x).
  { clear. induction pre as [|p ps IHp]; cbn [app_items in_kids]; intros y H.
    - destruct H as [ -> |[]]. right. reflexivity.
    - destruct H as [ -> |H]; [left; left; reflexivity|]. destruct (IHp y H) as [H'|H']; [left; right; exact H'|right; exact H']. }
  assert (Hxnotpre : ~ In (item_id x) (kid_ids pre)).
  { rewrite kid_ids_app in Hnd. cbn [kid_ids] in Hnd. apply NoDup_remove_2 in Hnd.
    intros Hin. apply Hnd. apply in_or_app. left. exact Hin. }
  assert (Htgxs : forall y u, in_kids y xs -> item_redef y = Some u -> In u tg)
    by (intros y u Hy; apply Htg; right; exact Hy).
  assert (Hinapp : forall y, in_kids y (app_items pre (ICons x xs)) -> in_kids y pre \/ y = x \/ in_kids y xs).
  { clear. induction pre as [|p ps IHp]; cbn [app_items in_kids]; intros y H.
    - destruct H as [ -> |H]; [right; left; reflexivity|right; right; exact H].
    - destruct H as [ -> |H]; [left; left; reflexivity|]. destruct (IHp y H) as [H'|H']; [left; right; exact H'|right; exact H']. }
  assert (Hsrc' : forall u, In u tg -> exists y, in_kids y (app_items (app_items pre (ICons x INil)) xs) /\ item_redef y = Some u)
    by (rewrite <- Happ; exact Hsrc).
  (* x is named by a redefiner iff a LATER sibling names it *)
  assert (Hlocal : item_redef x = None -> existsb (N.eqb (item_id x)) tg = existsb (N.eqb (item_id x)) (redef_targets xs)).
  { intros Er0. destruct (existsb (N.eqb (item_id x)) (redef_targets xs)) eqn:E2.
    - apply existsb_eqb_In. apply existsb_eqb_In in E2.
      assert (exists y, in_kids y xs /\ item_redef y = Some (item_id x)) as (y & Hy & Ey).
      { clear - E2. induction xs as [|z zs IHz]; cbn [redef_targets] in E2; [contradiction|].
        destruct (item_redef z) as [t|] eqn:Ez.
        - destruct E2 as [ <- |E2]; [exists z; split; [left; reflexivity|exact Ez]|].
          destruct (IHz E2) as (y & Hy & Ey). exists y. split; [right; exact Hy|exact Ey].
        - destruct (IHz E2) as (y & Hy & Ey). exists y. split; [right; exact Hy|exact Ey]. }
      apply (Htg y); [right; exact Hy|exact Ey].
    - destruct (existsb (N.eqb (item_id x)) tg) eqn:E1; [|reflexivity].
      apply existsb_eqb_In in E1. destruct (Hsrc _ E1) as (y & Hy & Ey).
      destruct (Hinapp y Hy) as [Hp|[ -> |Hx]].
      + specialize (Hpre y Hp). rewrite Ey in Hpre. apply Hbases in Hpre. contradiction.
      + congruence.
      + assert (In (item_id x) (redef_targets xs)) by (eapply redef_targets_spec; eassumption).
        apply existsb_eqb_In in H. congruence. }
  assert (Hnrb : forall y, in_kids y (app_items pre (ICons x xs)) -> item_redef y <> None ->
                          existsb (N.eqb (item_id y)) tg = false).
  { intros y Hy Hr. destruct (existsb (N.eqb (item_id y)) tg) eqn:E; [|reflexivity].
    apply existsb_eqb_In in E. exfalso. exact (Hnr y Hy Hr E). }
  rewrite union_of_unf. destruct (item_redef x) as [u|] eqn:Er.
  - (* a redefiner: its union was emitted when the base was met *)
    rewrite (Hnrb x) by (try (apply in_kids_app_r; left; reflexivity); rewrite Er; discriminate).
    apply andb_true_iff in Hsib. destruct Hsib as [Hu Hxs]. apply existsb_eqb_In in Hu.
    assert (Hutg : In u tg) by (apply (Htg x u); [left; reflexivity|exact Er]).
    replace (existsb (N.eqb u) em) with true
      by (symmetry; apply existsb_eqb_In, Hem; split; assumption).
    f_equal. rewrite Happ. apply (IH _ bases em); try assumption.
    + intros y Hy. destruct (Hinpre y Hy) as [H| -> ]; [apply Hpre; exact H|rewrite Er; exact Hu].
    + intros v Hv. rewrite Hidspre. apply in_or_app. left. apply Hbases. exact Hv.
    + rewrite <- Happ. exact Hnd.
    + rewrite <- Happ. exact Hnr.
  - rewrite <- (Hlocal eq_refl). destruct (existsb (N.eqb (item_id x)) tg) eqn:Et.
    + (* the redefined item: first member of its union *)
      apply existsb_eqb_In in Et.
      assert (Hnotem : existsb (N.eqb (item_id x)) em = false).
      { destruct (existsb (N.eqb (item_id x)) em) eqn:E; [|reflexivity].
        apply existsb_eqb_In, Hem in E. destruct E as [E _]. apply Hbases in E. contradiction. }
      rewrite Hnotem.
      assert (Halts : alts_of (item_id x) (kid_alts tg (app_items pre (ICons x xs)))
                      = ACons (build_alt x) (alts_red (item_id x) xs)).
      { rewrite kid_alts_app, alts_of_app, alts_of_no_member.
        - rewrite kid_alts_cons. cbn [alts_of]. unfold union_of. rewrite Er.
          replace (existsb (N.eqb (item_id x)) tg) with true by (symmetry; apply existsb_eqb_In; exact Et).
          rewrite N.eqb_refl. f_equal. apply alts_of_redefiners.
          + intros y Hy _ Heq. rewrite kid_ids_app in Hnd. apply NoDup_app_r in Hnd.
            cbn [kid_ids] in Hnd. apply NoDup_cons_iff in Hnd. destruct Hnd as [Hnd _].
            apply Hnd. rewrite <- Heq. apply in_kids_ids. exact Hy.
          + intros y Hy Hr. apply Hnrb; [apply in_kids_app_r; right; exact Hy|exact Hr].
        - intros y Hy. specialize (Hpre y Hy). rewrite union_of_unf.
          assert (Hyx : Some (item_id y) <> Some (item_id x)).
          { intros E. injection E as E. apply Hxnotpre. rewrite <- E. apply in_kids_ids. exact Hy. }
          destruct (item_redef y) as [u'|].
          + destruct (existsb (N.eqb (item_id y)) tg); [exact Hyx|].
            intros E. injection E as ->. apply Hbases in Hpre. contradiction.
          + destruct (existsb (N.eqb (item_id y)) tg); [exact Hyx|discriminate]. }
      rewrite Halts. f_equal. f_equal. rewrite Happ.
      apply (IH _ (item_id x :: bases) (item_id x :: em)); try assumption.
      * intros v. cbn [In]. rewrite Hem. split.
        -- intros [ <- |[H1 H2]]; [split; [left; reflexivity|exact Et]|split; [right; exact H1|exact H2]].
        -- intros [[ <- |H1] H2]; [left; reflexivity|right; split; assumption].
      * intros y Hy. destruct (Hinpre y Hy) as [H| -> ].
        -- specialize (Hpre y H). destruct (item_redef y); right; exact Hpre.
        -- rewrite Er. left. reflexivity.
      * intros v [ <- |Hv]; rewrite Hidspre; apply in_or_app; [right; left; reflexivity|left; apply Hbases; exact Hv].
      * rewrite <- Happ. exact Hnd.
      * rewrite <- Happ. exact Hnr.
    + (* an ordinary child *)
      f_equal. rewrite Happ. apply (IH _ (item_id x :: bases) em); try assumption.
      * intros v. rewrite Hem. cbn [In]. split.
        -- intros [H1 H2]. split; [right; exact H1|exact H2].
        -- intros [[ <- |H1] H2]; [|split; assumption].
           apply existsb_eqb_In in H2. congruence.
      * intros y Hy. destruct (Hinpre y Hy) as [H| -> ].
        -- specialize (Hpre y H). destruct (item_redef y); right; exact Hpre.
        -- rewrite Er. left. reflexivity.
      * intros v [ <- |Hv]; rewrite Hidspre; apply in_or_app; [right; left; reflexivity|left; apply Hbases; exact Hv].
      * rewrite <- Happ. exact Hnd.
      * rewrite <- Happ. exact Hnr.
Qed.

Lemma assemble_flat e ks :
  NoDup (kid_ids ks) -> unions_ok e [] ks = true ->
  assemble (kid_alts (redef_targets ks) ks) [] (kid_alts (redef_targets ks) ks) = assemble_d ks.
Proof.
  intros Hnd Hu.
  apply (assemble_flat_gen (redef_targets ks) ks INil [] []).
  - intros u. cbn. tauto.
  - intros y [].
  - intros u [].
  - exact Hnd.
  - apply (unions_sib_ok e [] ks Hu).
  - intros y u. apply redef_targets_spec.
  - intros u Hu'. cbn [app_items]. clear - Hu'. induction ks as [|z zs IHz]; cbn [redef_targets] in Hu'; [contradiction|].
    destruct (item_redef z) as [t|] eqn:Ez.
    + destruct Hu' as [ <- |Hu']; [exists z; split; [left; reflexivity|exact Ez]|].
      destruct (IHz Hu') as (y & Hy & Ey). exists y. split; [right; exact Hy|exact Ey].
    + destruct (IHz Hu') as (y & Hy & Ey). exists y. split; [right; exact Hy|exact Ey].
  - cbn [app_items]. apply redefiner_not_target; [apply (unions_sib_ok e [] ks Hu)|exact Hnd].
Qed.

(* ------------------------------------------------------------------ keys registered by a built schema *)
Definition K (l : list id) : list key := map KName l ++ map KRedef l.

Lemma K_app a b k : In k (K (a ++ b)) <-> In k (K a) \/ In k (K b).
Proof.
  unfold K. rewrite !in_app_iff, !map_app, !in_app_iff. tauto.
Qed.
Lemma K_name l i : In (KName i) (K l) <-> In i l.
Proof.
  unfold K. rewrite in_app_iff, !in_map_iff. split.
  - intros [(x & E & H)|(x & E & H)]; [injection E as ->; exact H|discriminate].
  - intros H. left. exists i. split; [reflexivity|exact H].
Qed.
Lemma K_incl a b : incl a b -> incl (K a) (K b).
Proof.
  intros H k. unfold K. rewrite !in_app_iff, !in_map_iff.
  intros [(x & E & Hx)|(x & E & Hx)]; [left|right]; exists x; split; auto.
Qed.

Lemma in_kids_ids_incl y ks : in_kids y ks -> incl (ids y) (ids_kids ks).
Proof.
  induction ks as [|x xs IH]; cbn [in_kids ids_kids]; [tauto|].
  intros [ -> |H]; [apply incl_appl, incl_refl|apply incl_appr, IH, H].
Qed.

Lemma keys_plain tg ks :
  (forall y, in_kids y ks -> incl (keys_js (build_alt y)) (K (ids y))) ->
  incl (keys_props (plain (kid_alts tg ks))) (K (ids_kids ks)).
Proof.
  induction ks as [|x xs IH]; intros H; [intros k []|].
  rewrite kid_alts_cons. cbn [plain keys_props ids_kids]. intros k Hk. apply K_app.
  apply in_app_or in Hk. destruct Hk as [Hk|Hk].
  - left. apply (H x); [left; reflexivity|exact Hk].
  - right. apply IH; [intros y Hy; apply H; right; exact Hy|exact Hk].
Qed.

Lemma keys_alts_red u ks :
  (forall y, in_kids y ks -> incl (keys_js (build_alt y)) (K (ids y))) ->
  incl (keys_alts (alts_red u ks)) (K (ids_kids ks)).
Proof.
  induction ks as [|x xs IH]; intros H; [intros k []|].
  assert (Hxs : incl (keys_alts (alts_red u xs)) (K (ids_kids xs)))
    by (apply IH; intros y Hy; apply H; right; exact Hy).
  cbn [alts_red ids_kids]. destruct (item_redef x) as [u'|].
  - destruct (N.eqb u u').
    + cbn [keys_alts]. intros k Hk. apply K_app. apply in_app_or in Hk. destruct Hk as [Hk|Hk].
      * left. apply (H x); [left; reflexivity|exact Hk].
      * right. apply Hxs, Hk.
    + intros k Hk. apply K_app. right. apply Hxs, Hk.
  - intros k Hk. apply K_app. right. apply Hxs, Hk.
Qed.

Lemma keys_assemble_d ks :
  (forall y, in_kids y ks -> incl (keys_js (build_alt y)) (K (ids y))) ->
  incl (keys_props (assemble_d ks)) (K (ids_kids ks)).
Proof.
  induction ks as [|x xs IH]; intros H; [intros k []|].
  assert (Hx : incl (keys_js (build_alt x)) (K (ids x))) by (apply H; left; reflexivity).
  assert (Hxs : incl (keys_props (assemble_d xs)) (K (ids_kids xs)))
    by (apply IH; intros y Hy; apply H; right; exact Hy).
  assert (Hidx : In (item_id x) (ids x)) by (destruct x; left; reflexivity).
  cbn [assemble_d ids_kids]. destruct (item_redef x) as [u|].
  - cbn [keys_props keys_js js_anchor opt_list app]. intros k Hk. apply K_app. right. apply Hxs, Hk.
  - destruct (existsb (N.eqb (item_id x)) (redef_targets xs)).
    + cbn [keys_props keys_js js_anchor opt_list keys_alts app]. intros k Hk. apply K_app.
      destruct Hk as [ <- |Hk].
      * left. unfold K. apply in_or_app. right. apply in_map. exact Hidx.
      * rewrite <- app_assoc in Hk. apply in_app_or in Hk. destruct Hk as [Hk|Hk]; [left; apply Hx, Hk|].
        apply in_app_or in Hk. destruct Hk as [Hk|Hk]; [|right; apply Hxs, Hk].
        right. apply (keys_alts_red (item_id x) xs); [intros y Hy; apply H; right; exact Hy|exact Hk].
    + cbn [keys_props]. intros k Hk. apply K_app. apply in_app_or in Hk.
      destruct Hk as [Hk|Hk]; [left; apply Hx, Hk|right; apply Hxs, Hk].
Qed.

Lemma NoDup_ids_kid_ids ks : NoDup (ids_kids ks) -> NoDup (kid_ids ks).
Proof.
  induction ks as [|x xs IH]; cbn [ids_kids kid_ids]; intros H; [constructor|].
  constructor.
  - intros Hin. apply (NoDup_app_disj _ _ (item_id x) H); [destruct x; left; reflexivity|].
    clear - Hin. induction xs as [|y ys IHy]; cbn [kid_ids ids_kids] in *; [contradiction|].
    destruct Hin as [ <- |Hin]; [apply in_or_app; left; destruct y; left; reflexivity|apply in_or_app; right; apply IHy, Hin].
  - apply IH. apply NoDup_app_r in H. exact H.
Qed.

Lemma NoDup_ids_kid x ks : in_kids x ks -> NoDup (ids_kids ks) -> NoDup (ids x).
Proof.
  induction ks as [|y ys IH]; cbn [in_kids ids_kids]; [tauto|].
  intros [ -> |H] Hnd; [apply NoDup_app_l in Hnd; exact Hnd|apply IH; [exact H|apply NoDup_app_r in Hnd; exact Hnd]].
Qed.

Lemma wf_kids_in e x ks : in_kids x ks -> wf_kids e ks = true -> wf e x = true.
Proof.
  induction ks as [|y ys IH]; cbn [in_kids wf_kids]; [tauto|].
  intros [ -> |H] Hw; apply andb_true_iff in Hw; destruct Hw as [H1 H2]; [exact H1|apply IH; assumption].
Qed.

(* the group branch of build_json_schema in flattened form *)
Lemma build_group_once e i rd ks :
  NoDup (ids_kids ks) -> unions_ok e [] ks = true ->
  build_alt (Group i Once rd ks) = JObj (Some (KName i)) (assemble_d ks).
Proof.
  intros Hnd Hu. cbn [build_alt]. f_equal. apply (assemble_flat e). apply NoDup_ids_kid_ids. exact Hnd. exact Hu.
Qed.

Lemma keys_build e :
  (forall x, wf e x = true -> NoDup (ids x) -> incl (keys_js (build_alt x)) (K (ids x))) /\
  (forall ks, wf_kids e ks = true -> NoDup (ids_kids ks) ->
     forall y, in_kids y ks -> incl (keys_js (build_alt y)) (K (ids y))).
Proof.
  apply item_items_ind.
  - intros i sz oc rd _ _. destruct oc as [|n|c]; cbn [build_alt elem_items keys_js keys_props js_anchor opt_list ids app];
      intros k Hk; apply K_name || idtac.
    + destruct Hk as [ <- |[]]. apply K_name. left. reflexivity.
    + destruct Hk as [ <- |[]]. apply K_name. left. reflexivity.
    + destruct Hk as [ <- |[]]. apply K_name. left. reflexivity.
  - intros i oc rd ks IH Hw Hnd. cbn [wf] in Hw. apply andb_true_iff in Hw. destruct Hw as [Hoc Hw].
    apply andb_true_iff in Hw. destruct Hw as [Hk Hu]. cbn [ids] in Hnd.
    assert (Hndk : NoDup (ids_kids ks)) by (inversion Hnd; assumption).
    specialize (IH Hk Hndk).
    destruct oc as [|n|c]; [| |discriminate].
    + rewrite (build_group_once e) by assumption. cbn [keys_js js_anchor opt_list ids app].
      intros k [ <- |Hin]; [apply K_name; left; reflexivity|].
      apply (K_incl (ids_kids ks)); [apply incl_tl, incl_refl|]. apply keys_assemble_d; assumption.
    + cbn [build_alt keys_js js_anchor opt_list ids app].
      intros k [ <- |Hin]; [apply K_name; left; reflexivity|].
      apply (K_incl (ids_kids ks)); [apply incl_tl, incl_refl|]. apply (keys_plain [] ks); assumption.
  - intros _ _ y [].
  - intros x IHx xs IHxs Hw Hnd y Hy. cbn [wf_kids] in Hw. apply andb_true_iff in Hw. destruct Hw as [Hwx Hwxs].
    cbn [ids_kids] in Hnd. destruct Hy as [ -> |Hy].
    + apply IHx; [exact Hwx|apply NoDup_app_l in Hnd; exact Hnd].
    + apply IHxs; [exact Hwxs|apply NoDup_app_r in Hnd; exact Hnd|exact Hy].
Qed.

(* ------------------------------------------------------------------ what a correct location looks like *)
Definition is_ref (l : loc) : bool := match l with LRef _ _ => true | _ => false end.

Section Good.
  Variable B : Type.
  Variable dcount : list B -> nat.
  Variable r : list B.
  Variable e : env.
  Notation walk := (Layout.walk dcount r).
  Notation walk_props := (Layout.walk_props dcount r).
  Notation walk_alts := (Layout.walk_alts dcount r).

  (* the location NDNav.name(i) lands on: the property itself, or what its $ref resolves to *)
  Definition resolved (an : anchors) (ps : lprops) (i : id) (lk : loc) : Prop :=
    is_ref lk = false /\
    (find_prop (KName i) ps = Some lk \/
     exists s0, find_prop (KName i) ps = Some (LRef s0 (KName i)) /\ lookup (KName i) an = Some lk).

  Definition occ_schema (ks : items) : js := JObj None (plain (kid_alts [] ks)).

  (* l is the location of item x at absolute offset st, and everything below it is right too *)
  Fixpoint Good (x : item) (st : nat) (l : loc) (an : anchors) {struct x} : Prop :=
    lstart l = st /\ lsize l = extent e x /\
    match x with
    | Elem i sz Once _ => l = LAtom st sz
    | Elem i sz oc _ => exists sub, l = LArr st (sz * count e oc) sz (count e oc) sub (elem_items i sz)
    | Group i Once _ ks =>
        exists ps, l = LObj st (kids_extent e ks) ps /\ GoodKids (kid_starts e ks st []) ps an ks
    | Group i oc _ ks =>
        exists sub, l = LArr st (kids_extent e ks * count e oc) (kids_extent e ks) (count e oc) sub (occ_schema ks)
        /\ forall st', exists ps an',
             walk (occ_schema ks) st' [] = Ok (LObj st' (kids_extent e ks) ps, an')
             /\ GoodKids (kid_starts e ks st' []) ps an' ks
    end
  with GoodKids (starts : list (id * nat)) (ps : lprops) (an : anchors) (ks : items) {struct ks} : Prop :=
    match ks with
    | INil => True
    | ICons x xs =>
        (exists o lk, assoc (item_id x) starts = Some o /\ resolved an ps (item_id x) lk /\ Good x o lk an)
        /\ GoodKids starts ps an xs
    end.

  Lemma Good_size x st l an : Good x st l an -> lsize l = extent e x.
  Proof. destruct x; cbn [Good]; tauto. Qed.
  Lemma Good_start x st l an : Good x st l an -> lstart l = st.
  Proof. destruct x; cbn [Good]; tauto. Qed.

  (* Good only looks up names declared inside x *)
  Lemma Good_stable :
    (forall x st l an an', Good x st l an ->
       (forall i, In i (ids x) -> lookup (KName i) an' = lookup (KName i) an) -> Good x st l an') /\
    (forall ks starts ps an an', GoodKids starts ps an ks ->
       (forall i, In i (ids_kids ks) -> lookup (KName i) an' = lookup (KName i) an) -> GoodKids starts ps an' ks).
  Proof.
    apply item_items_ind.
    - intros i sz oc rd st l an an' H _. exact H.
    - intros i oc rd ks IH st l an an' H Hl. cbn [Good] in *. destruct H as (H1 & H2 & H3).
      split; [exact H1|]. split; [exact H2|]. destruct oc as [|n|c].
      + destruct H3 as (ps & Hps & Hk). exists ps. split; [exact Hps|].
        eapply IH; [exact Hk|]. intros j Hj. apply Hl. cbn [ids]. right. exact Hj.
      + exact H3.
      + exact H3.
    - intros starts ps an an' _ _. exact I.
    - intros x IHx xs IHxs starts ps an an' H Hl. cbn [GoodKids] in *. destruct H as ((o & lk & Ho & Hr & Hg) & Hrest).
      split.
      + exists o, lk. split; [exact Ho|]. split.
        * destruct Hr as (Hnr & [Hf|(s0 & Hf & Hlk)]); split; try exact Hnr; [left; exact Hf|].
          right. exists s0. split; [exact Hf|]. rewrite Hl; [exact Hlk|].
          cbn [ids_kids]. apply in_or_app. left. destruct x; left; reflexivity.
        * eapply IHx; [exact Hg|]. intros j Hj. apply Hl. cbn [ids_kids]. apply in_or_app. left. exact Hj.
      + eapply IHxs; [exact Hrest|]. intros j Hj. apply Hl. cbn [ids_kids]. apply in_or_app. right. exact Hj.
  Qed.

  (* registrations under keys foreign to x do not disturb Good x *)
  Lemma Good_extends x st l an an' ks :
    Good x st l an -> extends ks an an' -> (forall i, In i (ids x) -> ~ In (KName i) ks) -> Good x st l an'.
  Proof.
    intros Hg He Hd. eapply (proj1 Good_stable); [exact Hg|].
    intros i Hi. eapply extends_lookup; [exact He|apply Hd, Hi].
  Qed.

  Lemma GoodKids_weaken starts ps an ks k0 l0 :
    GoodKids starts ps an ks -> ~ In k0 (map KName (kid_ids ks)) ->
    GoodKids starts (LPCons k0 l0 ps) an ks.
  Proof.
    induction ks as [|x xs IH]; cbn [GoodKids kid_ids map]; intros H Hk; [exact I|].
    destruct H as ((o & lk & Ho & Hr & Hg) & Hrest). split.
    - exists o, lk. split; [exact Ho|]. split; [|exact Hg].
      assert (Hne : key_eqb (KName (item_id x)) k0 = false)
        by (apply key_eqb_neq; intros E; apply Hk; left; exact E).
      destruct Hr as (Hnr & [Hf|(s0 & Hf & Hlk)]); split; try exact Hnr.
      + left. cbn [find_prop]. rewrite Hne. exact Hf.
      + right. exists s0. split; [cbn [find_prop]; rewrite Hne; exact Hf|exact Hlk].
    - apply IH; [exact Hrest|]. intros Hin. apply Hk. right. exact Hin.
  Qed.

  Lemma GoodKids_starts starts starts' ps an ks :
    GoodKids starts ps an ks -> (forall x, in_kids x ks -> assoc (item_id x) starts' = assoc (item_id x) starts) ->
    GoodKids starts' ps an ks.
  Proof.
    induction ks as [|x xs IH]; cbn [GoodKids]; intros H Hs; [exact I|].
    destruct H as ((o & lk & Ho & Hr & Hg) & Hrest). split.
    - exists o, lk. split; [rewrite Hs; [exact Ho|left; reflexivity]|]. split; assumption.
    - apply IH; [exact Hrest|]. intros y Hy. apply Hs. right. exact Hy.
  Qed.
End Good.

(* ------------------------------------------------------------------ small facts used by the main induction *)
Lemma assoc_find t (seen : list (id * nat)) off :
  match find (fun p => N.eqb (fst p) t) seen with Some p => snd p | None => off end
  = match assoc t seen with Some v => v | None => off end.
Proof.
  induction seen as [|[j v] seen IH]; simpl; [reflexivity|].
  destruct (N.eqb j t); [reflexivity|exact IH].
Qed.

Lemma assoc_find_pair u (bases : list (id * nat)) :
  match find (fun p => N.eqb (fst p) u) bases with Some (_, ext) => Some ext | None => None end = assoc u bases.
Proof.
  induction bases as [|[j v] bases IH]; simpl; [reflexivity|].
  destruct (N.eqb j u); [reflexivity|exact IH].
Qed.

Lemma assoc_cons_eq i v l : assoc i ((i, v) :: l) = Some v.
Proof. cbn [assoc]. rewrite N.eqb_refl. reflexivity. Qed.
Lemma assoc_cons_neq i j v l : j <> i -> assoc i ((j, v) :: l) = assoc i l.
Proof. intros H. cbn [assoc]. destruct (N.eqb j i) eqn:E; [apply N.eqb_eq in E; contradiction|reflexivity]. Qed.

Lemma lookup_cons_redef i u l an : lookup (KName i) ((KRedef u, l) :: an) = lookup (KName i) an.
Proof. reflexivity. Qed.
Lemma lookup_cons_same k l an : lookup k ((k, l) :: an) = Some l.
Proof. cbn [lookup]. rewrite key_eqb_refl. reflexivity. Qed.

Lemma item_id_in_ids x : In (item_id x) (ids x).
Proof. destruct x; left; reflexivity. Qed.

Lemma kid_ids_incl ks : incl (kid_ids ks) (ids_kids ks).
Proof.
  induction ks as [|x xs IH]; cbn [kid_ids ids_kids]; intros i Hi; [contradiction|].
  destruct Hi as [ <- |Hi]; apply in_or_app; [left; apply item_id_in_ids|right; apply IH, Hi].
Qed.

(* ids of the redefiners of u among xs *)
Fixpoint red_ids (u : id) (xs : items) : list id :=
  match xs with
  | INil => []
  | ICons y ys =>
      match item_redef y with
      | Some u' => if N.eqb u u' then ids y ++ red_ids u ys else red_ids u ys
      | None => red_ids u ys
      end
  end.

Lemma red_ids_incl u xs : incl (red_ids u xs) (ids_kids xs).
Proof.
  induction xs as [|y ys IH]; cbn [red_ids ids_kids]; [intros i []|].
  destruct (item_redef y) as [u'|]; [destruct (N.eqb u u')|]; intros i Hi;
    try (apply in_or_app; right; apply IH, Hi).
  apply in_app_or in Hi. apply in_or_app. destruct Hi as [Hi|Hi]; [left; exact Hi|right; apply IH, Hi].
Qed.

Lemma red_ids_other u xs y i :
  in_kids y xs -> item_redef y <> Some u -> NoDup (ids_kids xs) -> In i (ids y) -> ~ In i (red_ids u xs).
Proof.
  induction xs as [|z zs IH]; cbn [in_kids red_ids ids_kids]; [tauto|].
  intros Hy Hne Hnd Hi.
  assert (Hndz : NoDup (ids_kids zs)) by (apply NoDup_app_r in Hnd; exact Hnd).
  destruct Hy as [ -> |Hy].
  - assert (Htail : ~ In i (red_ids u zs))
      by (intros H; apply red_ids_incl in H; exact (NoDup_app_disj _ _ i Hnd Hi H)).
    destruct (item_redef z) as [u'|] eqn:Ez; [|exact Htail].
    destruct (N.eqb u u') eqn:E; [apply N.eqb_eq in E; subst; contradiction|exact Htail].
  - assert (Hiz : In i (ids_kids zs)) by (eapply in_kids_ids_incl; eassumption).
    assert (Htail : ~ In i (red_ids u zs)) by (apply IH; assumption).
    destruct (item_redef z) as [u'|]; [|exact Htail].
    destruct (N.eqb u u'); [|exact Htail].
    intros H. apply in_app_or in H. destruct H as [H|H]; [exact (NoDup_app_disj _ _ i Hnd H Hiz)|exact (Htail H)].
Qed.

Lemma unions_ok_redefiner e u E : forall xs bases,
  unions_ok e bases xs = true -> assoc u bases = Some E -> ~ In u (kid_ids xs) ->
  forall y, in_kids y xs -> item_redef y = Some u -> elem_table y = false /\ extent e y <= E.
Proof.
  induction xs as [|x xs IH]; intros bases Hu Ha Hnin y Hy Er; [destruct Hy|].
  cbn [unions_ok] in Hu. cbn [kid_ids] in Hnin.
  destruct Hy as [ -> |Hy].
  - rewrite Er in Hu. apply andb_true_iff in Hu. destruct Hu as [Hu _]. apply andb_true_iff in Hu. destruct Hu as [Het Hf].
    pose proof (assoc_find_pair u bases) as Hp. rewrite Ha in Hp.
    destruct (find (fun p => N.eqb (fst p) u) bases) as [[j ext]|]; [|discriminate].
    injection Hp as ->. split; [apply negb_true_iff; exact Het|apply Nat.leb_le; exact Hf].
  - destruct (item_redef x) as [u'|].
    + apply andb_true_iff in Hu. destruct Hu as [_ Hu]. eapply IH; try eassumption. intros H'. apply Hnin. right. exact H'.
    + apply andb_true_iff in Hu. destruct Hu as [_ Hu].
      eapply (IH ((item_id x, extent e x) :: bases)); try eassumption; [|intros H'; apply Hnin; right; exact H'].
      rewrite assoc_cons_neq; [exact Ha|]. intros E'. apply Hnin. left. exact E'.
Qed.

Lemma no_redef_assemble ks : redef_targets ks = [] -> assemble_d ks = plain (kid_alts [] ks).
Proof.
  induction ks as [|x xs IH]; intros H; [reflexivity|].
  cbn [redef_targets] in H. rewrite kid_alts_cons. cbn [assemble_d plain].
  destruct (item_redef x) as [u|]; [discriminate|]. rewrite H. cbn [existsb]. rewrite IH by exact H. reflexivity.
Qed.

Lemma no_redef_unions e ks bases : redef_targets ks = [] -> unions_ok e bases ks = true.
Proof.
  revert bases. induction ks as [|x xs IH]; intros bases H; [reflexivity|].
  cbn [redef_targets] in H. cbn [unions_ok]. destruct (item_redef x) as [u|]; [discriminate|].
  rewrite H. cbn [existsb negb]. rewrite orb_true_r. cbn [andb]. apply IH. exact H.
Qed.

(* ------------------------------------------------------------------ the walk of a built schema is Good *)
Section Main.
  Variable B : Type.
  Variable dcount : list B -> nat.
  Variable r : list B.
  Variable e : env.
  Notation walk := (Layout.walk dcount r).
  Notation walk_props := (Layout.walk_props dcount r).
  Notation walk_alts := (Layout.walk_alts dcount r).
  Notation Good := (Good B dcount r e).
  Notation GoodKids := (GoodKids B dcount r e).

  Definition W (x : item) : Prop :=
    wf e x = true -> NoDup (ids x) -> forall st an,
    exists l an', walk (build_alt x) st an = Ok (l, an') /\ Good x st l an' /\ is_ref l = false
                  /\ (elem_table x = false -> lookup (KName (item_id x)) an' = Some l).

  Lemma W_extends x st an l an' :
    wf e x = true -> NoDup (ids x) -> walk (build_alt x) st an = Ok (l, an') -> extends (K (ids x)) an an'.
  Proof.
    intros Hw Hnd H. destruct (proj1 (walk_extends B dcount r) _ _ _ _ _ H) as (d & -> & Hd).
    exists d. split; [reflexivity|]. intros k Hk. apply (proj1 (keys_build e) x Hw Hnd). apply Hd, Hk.
  Qed.

  Lemma disjoint_ids x xs i : NoDup (ids_kids (ICons x xs)) -> In i (ids x) -> ~ In (KName i) (K (ids_kids xs)).
  Proof.
    cbn [ids_kids]. intros Hnd Hi H. apply K_name in H. exact (NoDup_app_disj _ _ i Hnd Hi H).
  Qed.
  Lemma disjoint_ids' x xs i : NoDup (ids_kids (ICons x xs)) -> In i (ids_kids xs) -> ~ In (KName i) (K (ids x)).
  Proof.
    cbn [ids_kids]. intros Hnd Hi H. apply K_name in H. exact (NoDup_app_disj _ _ i Hnd H Hi).
  Qed.

  (* the alternatives contributed by the redefiners of u *)
  Lemma ALTS u E off : forall xs,
    (forall y, in_kids y xs -> W y) -> (forall y, in_kids y xs -> item_redef y = Some u -> wf e y = true) ->
    NoDup (ids_kids xs) ->
    (forall y, in_kids y xs -> item_redef y = Some u -> elem_table y = false /\ extent e y <= E) ->
    forall an, exists ls an',
      walk_alts (alts_red u xs) off an = Ok (ls, an') /\ max_size ls <= E /\ extends (K (red_ids u xs)) an an' /\
      forall y, in_kids y xs -> item_redef y = Some u ->
        exists ly, lookup (KName (item_id y)) an' = Some ly /\ Good y off ly an' /\ is_ref ly = false.
  Proof.
    induction xs as [|z zs IH]; intros HW Hwf Hnd Hok an.
    - exists LANil, an. rewrite walk_alts_nil. split; [reflexivity|]. split; [cbn; lia|]. split; [apply extends_refl|].
      intros y [].
    - assert (Hwzs : forall y, in_kids y zs -> item_redef y = Some u -> wf e y = true)
        by (intros y Hy; apply Hwf; right; exact Hy).
      assert (Hndz : NoDup (ids z)) by (cbn [ids_kids] in Hnd; apply NoDup_app_l in Hnd; exact Hnd).
      assert (Hndzs : NoDup (ids_kids zs)) by (cbn [ids_kids] in Hnd; apply NoDup_app_r in Hnd; exact Hnd).
      assert (HWzs : forall y, in_kids y zs -> W y) by (intros y Hy; apply HW; right; exact Hy).
      assert (Hokzs : forall y, in_kids y zs -> item_redef y = Some u -> elem_table y = false /\ extent e y <= E)
        by (intros y Hy; apply Hok; right; exact Hy).
      cbn [alts_red red_ids]. destruct (item_redef z) as [u'|] eqn:Ez.
      + destruct (N.eqb u u') eqn:Eu.
        * apply N.eqb_eq in Eu. subst u'.
          assert (Hwz : wf e z = true) by (apply Hwf; [left; reflexivity|exact Ez]).
          destruct (HW z (or_introl eq_refl) Hwz Hndz off an) as (lz & an1 & Hwalk & Hgz & Hrz & Hlz).
          destruct (Hok z (or_introl eq_refl) Ez) as [Hetz Hextz].
          destruct (IH HWzs Hwzs Hndzs Hokzs an1) as (ls & an2 & Hwa & Hmax & Hext & Hall).
          exists (LACons lz ls), an2. rewrite walk_alts_cons, Hwalk, Hwa.
          pose proof (W_extends z off an lz an1 Hwz Hndz Hwalk) as Hext1.
          assert (Hsz : lsize lz = extent e z) by (eapply Good_size; exact Hgz).
          split; [reflexivity|]. split; [cbn [max_size]; rewrite Hsz; lia|]. split.
          { eapply extends_trans; [exact Hext1|exact Hext| |]; apply K_incl; [apply incl_appl|apply incl_appr]; apply incl_refl. }
          intros y [ <- |Hy] Ey.
          -- exists lz. split; [|split; [|exact Hrz]].
             ++ rewrite (extends_lookup _ _ _ _ Hext); [apply Hlz, Hetz|].
                intros H. apply K_name in H. apply red_ids_incl in H.
                exact (NoDup_app_disj _ _ _ Hnd (item_id_in_ids y) H).
             ++ eapply Good_extends; [exact Hgz|exact Hext|].
                intros i Hi H. apply K_name in H. apply red_ids_incl in H. exact (NoDup_app_disj _ _ _ Hnd Hi H).
          -- apply Hall; assumption.
        * destruct (IH HWzs Hwzs Hndzs Hokzs an) as (ls & an2 & Hwa & Hmax & Hext & Hall).
          exists ls, an2. split; [exact Hwa|]. split; [exact Hmax|]. split; [exact Hext|].
          intros y [ <- |Hy] Ey; [|apply Hall; assumption].
          rewrite Ez in Ey. injection Ey as <-. rewrite N.eqb_refl in Eu. discriminate.
      + destruct (IH HWzs Hwzs Hndzs Hokzs an) as (ls & an2 & Hwa & Hmax & Hext & Hall).
        exists ls, an2. split; [exact Hwa|]. split; [exact Hmax|]. split; [exact Hext|].
        intros y [ <- |Hy] Ey; [congruence|apply Hall; assumption].
  Qed.

  (* the children loop of a non-repeated group *)
  Lemma KS : forall rem,
    (forall y, in_kids y rem -> W y) -> wf_kids e rem = true -> NoDup (ids_kids rem) ->
    forall bases off seen an,
      unions_ok e bases rem = true ->
      (forall u ext, assoc u bases = Some ext -> exists su, assoc u seen = Some su) ->
      (forall i, In i (kid_ids rem) -> assoc i seen = None) ->
      (forall y u ext, in_kids y rem -> item_redef y = Some u -> assoc u bases = Some ext ->
         exists su ly, assoc u seen = Some su /\ lookup (KName (item_id y)) an = Some ly
                       /\ Good y su ly an /\ is_ref ly = false) ->
      exists pls an',
        walk_props (assemble_d rem) off an = Ok (pls, off + kids_extent e rem, an')
        /\ GoodKids (kid_starts e rem off seen) pls an' rem
        /\ extends (K (ids_kids rem)) an an'.
  Proof.
    induction rem as [|x xs IH]; intros HW Hwf Hnd bases off seen an Hu HB Hseen INV.
    - exists LPNil, an. cbn [assemble_d kids_extent]. rewrite walk_props_nil, Nat.add_0_r.
      split; [reflexivity|]. split; [exact I|apply extends_refl].
    - cbn [wf_kids] in Hwf. apply andb_true_iff in Hwf. destruct Hwf as [Hwx Hwxs].
      assert (Hndx : NoDup (ids x)) by (cbn [ids_kids] in Hnd; apply NoDup_app_l in Hnd; exact Hnd).
      assert (Hndxs : NoDup (ids_kids xs)) by (cbn [ids_kids] in Hnd; apply NoDup_app_r in Hnd; exact Hnd).
      assert (HWxs : forall y, in_kids y xs -> W y) by (intros y Hy; apply HW; right; exact Hy).
      assert (Hkid : NoDup (kid_ids (ICons x xs))) by (apply NoDup_ids_kid_ids; exact Hnd).
      assert (Hxnot : ~ In (item_id x) (kid_ids xs)) by (cbn [kid_ids] in Hkid; inversion Hkid; assumption).
      assert (Hneq : forall y, in_kids y xs -> item_id x <> item_id y)
        by (intros y Hy E; apply Hxnot; rewrite E; apply in_kids_ids; exact Hy).
      assert (Hxseen : assoc (item_id x) seen = None) by (apply Hseen; left; reflexivity).
      assert (Hkx : ~ In (KName (item_id x)) (K (ids_kids xs)))
        by (apply (disjoint_ids x xs); [exact Hnd|apply item_id_in_ids]).
      assert (Hkeyx : ~ In (KName (item_id x)) (map KName (kid_ids xs))).
      { intros H. apply in_map_iff in H. destruct H as (j & Ej & Hj). injection Ej as ->. contradiction. }
      assert (Hstarts : forall v S y, in_kids y xs -> assoc (item_id y) ((item_id x, v) :: S) = assoc (item_id y) S)
        by (intros v S y Hy; apply assoc_cons_neq; apply Hneq; exact Hy).
      cbn [unions_ok] in Hu. cbn [assemble_d kid_starts kids_extent].
      unfold is_redefiner. destruct (item_redef x) as [u|] eqn:Er.
      + (* ---- a redefiner: only a $ref placeholder; its alternative was walked with the redefined item ---- *)
        apply andb_true_iff in Hu. destruct Hu as [Hu Huxs]. apply andb_true_iff in Hu. destruct Hu as [_ Hf].
        pose proof (assoc_find_pair u bases) as Hp.
        destruct (find (fun p => N.eqb (fst p) u) bases) as [[j extu]|]; [|discriminate]. symmetry in Hp.
        destruct (INV x u extu (or_introl eq_refl) Er Hp) as (su & lx & Hsu & Hlx & Hgx & Hrx).
        rewrite assoc_find, Hsu. rewrite walk_props_cons, walk_ref. cbn [js_anchor reg lsize]; rewrite ?ref_size_0.
        destruct (IH HWxs Hwxs Hndxs bases (off + 0) ((item_id x, su) :: seen) an Huxs) as (pls & an' & Hwp & Hgk & Hext).
        * intros u' ext' Hb. destruct (N.eqb (item_id x) u') eqn:E.
          -- apply N.eqb_eq in E. subst u'. exists su. apply assoc_cons_eq.
          -- destruct (HB u' ext' Hb) as (su' & Hs'). exists su'. rewrite assoc_cons_neq; [exact Hs'|].
             intros E'. rewrite E', N.eqb_refl in E. discriminate.
        * intros i Hi. rewrite assoc_cons_neq; [apply Hseen; right; exact Hi|]. intros E. apply Hxnot. rewrite E. exact Hi.
        * intros y u2 ext2 Hy Ey Hb2. destruct (INV y u2 ext2 (or_intror Hy) Ey Hb2) as (su2 & ly & Hs2 & Hl2 & Hg2 & Hr2).
          exists su2, ly. split; [|tauto]. rewrite assoc_cons_neq; [exact Hs2|].
          intros E. rewrite <- E in Hs2. congruence.
        * exists (LPCons (KName (item_id x)) (LRef off (KName (item_id x))) pls), an'.
          rewrite Hwp. rewrite !Nat.add_0_r, Nat.add_0_l. split; [reflexivity|]. split; [|].
          { cbn [GoodKids]. split.
            - exists su, lx. split; [apply assoc_cons_eq|]. split.
              + split; [exact Hrx|]. right. exists off. split; [cbn [find_prop]; rewrite key_eqb_refl; reflexivity|].
                rewrite (extends_lookup _ _ _ _ Hext Hkx). exact Hlx.
              + eapply Good_extends; [exact Hgx|exact Hext|]. intros i Hi. apply (disjoint_ids x xs); assumption.
            - apply GoodKids_weaken; [|exact Hkeyx]. rewrite Nat.add_0_r in Hgk.
              eapply GoodKids_starts; [exact Hgk|]. intros y Hy. apply Hstarts. exact Hy. }
          eapply extends_trans; [apply extends_refl|exact Hext| |]; apply K_incl; cbn [ids_kids];
            [apply incl_appr|apply incl_appr]; apply incl_refl.
      + apply andb_true_iff in Hu. destruct Hu as [Het Huxs].
        assert (Hextx : count e (item_oc x) * ext1 e x = extent e x) by reflexivity. rewrite Hextx.
        destruct (HW x (or_introl eq_refl) Hwx Hndx off an) as (lx & an1 & Hwalk & Hgx & Hrx & Hlx).
        pose proof (W_extends x off an lx an1 Hwx Hndx Hwalk) as Hext1.
        pose proof (Good_size _ _ _ _ _ _ _ _ Hgx) as Hszx.
        destruct (existsb (N.eqb (item_id x)) (redef_targets xs)) eqn:Etg.
        * (* ---- the redefined item: oneOf of all members first, then a $ref placeholder ---- *)
          cbn [negb] in Het. rewrite orb_false_r in Het. apply negb_true_iff in Het.
          assert (Hok : forall y, in_kids y xs -> item_redef y = Some (item_id x) -> elem_table y = false /\ extent e y <= extent e x).
          { apply (unions_ok_redefiner e (item_id x) (extent e x) xs _ Huxs); [apply assoc_cons_eq|exact Hxnot]. }
          assert (Hwred : forall y, in_kids y xs -> item_redef y = Some (item_id x) -> wf e y = true)
            by (intros y Hy _; eapply wf_kids_in; eassumption).
          destruct (ALTS (item_id x) (extent e x) off xs HWxs Hwred Hndxs Hok an1) as (ls & an2 & Hwa & Hmax & Hext2 & Hall).
          set (l1 := LOne off (max_size (LACons lx ls)) (LACons lx ls)).
          assert (Hl1 : lsize l1 = extent e x) by (unfold l1; cbn [lsize max_size]; rewrite Hszx; lia).
          set (an4 := (KRedef (item_id x), l1) :: (KRedef (item_id x), l1) :: an2).
          assert (Hlk4 : forall i, lookup (KName i) an4 = lookup (KName i) an2) by (intros i; reflexivity).
          destruct (IH HWxs Hwxs Hndxs ((item_id x, extent e x) :: bases) (off + extent e x + 0) ((item_id x, off) :: seen) an4 Huxs)
            as (pls & an' & Hwp & Hgk & Hext).
          -- intros u' ext' Hb. destruct (N.eqb (item_id x) u') eqn:E.
             ++ apply N.eqb_eq in E. subst u'. exists off. apply assoc_cons_eq.
             ++ assert (Hne : item_id x <> u') by (intros E'; rewrite E', N.eqb_refl in E; discriminate).
                rewrite assoc_cons_neq in Hb by exact Hne. destruct (HB u' ext' Hb) as (su' & Hs'). exists su'.
                rewrite assoc_cons_neq by exact Hne. exact Hs'.
          -- intros i Hi. rewrite assoc_cons_neq; [apply Hseen; right; exact Hi|]. intros E. apply Hxnot. rewrite E. exact Hi.
          -- intros y u2 ext2 Hy Ey Hb2. destruct (N.eqb (item_id x) u2) eqn:E.
             ++ apply N.eqb_eq in E. subst u2. destruct (Hall y Hy Ey) as (ly & Hl & Hg & Hr).
                exists off, ly. split; [apply assoc_cons_eq|]. split; [rewrite Hlk4; exact Hl|]. split; [|exact Hr].
                eapply (proj1 (Good_stable B dcount r e)); [exact Hg|]. intros i _. apply Hlk4.
             ++ assert (Hne : item_id x <> u2) by (intros E'; rewrite E', N.eqb_refl in E; discriminate).
                rewrite assoc_cons_neq in Hb2 by exact Hne.
                destruct (INV y u2 ext2 (or_intror Hy) Ey Hb2) as (su2 & ly & Hs2 & Hl2 & Hg2 & Hr2).
                exists su2, ly. split; [rewrite assoc_cons_neq by exact Hne; exact Hs2|].
                assert (Hpres : forall i, In i (ids y) -> lookup (KName i) an4 = lookup (KName i) an).
                { intros i Hi. rewrite Hlk4.
                  rewrite (extends_lookup _ _ _ _ Hext2).
                  - apply (extends_lookup _ _ _ _ Hext1). apply (disjoint_ids' x xs); [exact Hnd|].
                    eapply in_kids_ids_incl; eassumption.
                  - intros H. apply K_name in H. revert H. apply (red_ids_other (item_id x) xs y); try assumption.
                    intros E'. rewrite Ey in E'. injection E' as E'. congruence. }
                split; [rewrite Hpres; [exact Hl2|apply item_id_in_ids]|]. split; [|exact Hr2].
                eapply (proj1 (Good_stable B dcount r e)); [exact Hg2|exact Hpres].
          -- exists (LPCons (KRedef (item_id x)) l1 (LPCons (KName (item_id x)) (LRef (off + extent e x) (KName (item_id x))) pls)), an'.
             rewrite walk_props_cons, walk_one, walk_alts_cons, Hwalk, Hwa. fold l1. cbn [js_anchor reg]. fold an4.
             rewrite Hl1, walk_props_cons, walk_ref. cbn [js_anchor reg lsize]; rewrite ?ref_size_0. rewrite Hwp.
             rewrite !Nat.add_0_r, Nat.add_assoc. split; [reflexivity|].
             assert (Hchain : forall i, In i (ids x) -> lookup (KName i) an' = lookup (KName i) an1).
             { intros i Hi. rewrite (extends_lookup _ _ _ _ Hext); [|apply (disjoint_ids x xs); assumption].
               rewrite Hlk4. apply (extends_lookup _ _ _ _ Hext2). intros H. apply K_name in H. apply red_ids_incl in H.
               exact (NoDup_app_disj _ _ _ Hnd Hi H). }
             split.
             { cbn [GoodKids]. split.
               - exists off, lx. split; [apply assoc_cons_eq|]. split.
                 + split; [exact Hrx|]. right. exists (off + extent e x). split.
                   * cbn [find_prop key_eqb]. rewrite N.eqb_refl. reflexivity.
                   * rewrite Hchain by apply item_id_in_ids. apply Hlx. exact Het.
                 + eapply (proj1 (Good_stable B dcount r e)); [exact Hgx|exact Hchain].
               - apply GoodKids_weaken; [apply GoodKids_weaken; [|exact Hkeyx]|].
                 + rewrite Nat.add_0_r in Hgk. eapply GoodKids_starts; [exact Hgk|]. intros y Hy. apply Hstarts. exact Hy.
                 + intros H. apply in_map_iff in H. destruct H as (j & Ej & _). discriminate. }
             assert (Hk4 : extends (K (ids x)) an2 an4).
             { exists [(KRedef (item_id x), l1); (KRedef (item_id x), l1)]. split; [reflexivity|].
               intros k Hk. cbn [map fst] in Hk. unfold K. apply in_or_app. right. apply in_map_iff. exists (item_id x).
               destruct Hk as [ <- |[ <- |[]]]; (split; [reflexivity|apply item_id_in_ids]). }
             cbn [ids_kids].
             assert (I1 : incl (K (ids x)) (K (ids x ++ ids_kids xs))) by (apply K_incl, incl_appl, incl_refl).
             assert (I2 : incl (K (ids_kids xs)) (K (ids x ++ ids_kids xs))) by (apply K_incl, incl_appr, incl_refl).
             assert (I3 : incl (K (red_ids (item_id x) xs)) (K (ids x ++ ids_kids xs)))
               by (apply K_incl; eapply incl_tran; [apply red_ids_incl|apply incl_appr, incl_refl]).
             eapply extends_chain; [eapply extends_mono; [exact Hext1|exact I1]|].
             eapply extends_chain; [eapply extends_mono; [exact Hext2|exact I3]|].
             eapply extends_chain; [eapply extends_mono; [exact Hk4|exact I1]|].
             eapply extends_mono; [exact Hext|exact I2].
        * (* ---- an ordinary child ---- *)
          set (an2 := reg (js_anchor (build_alt x)) lx an1).
          assert (Hext2 : extends (K (ids x)) an1 an2).
          { unfold an2. apply extends_reg. intros k Hk. apply (proj1 (keys_build e) x Hwx Hndx).
            destruct (build_alt x); cbn [js_anchor opt_list keys_js] in *; try (apply in_or_app; left; exact Hk); destruct Hk. }
          destruct (IH HWxs Hwxs Hndxs ((item_id x, extent e x) :: bases) (off + extent e x) ((item_id x, off) :: seen) an2 Huxs)
            as (pls & an' & Hwp & Hgk & Hext).
          -- intros u' ext' Hb. destruct (N.eqb (item_id x) u') eqn:E.
             ++ apply N.eqb_eq in E. subst u'. exists off. apply assoc_cons_eq.
             ++ assert (Hne : item_id x <> u') by (intros E'; rewrite E', N.eqb_refl in E; discriminate).
                rewrite assoc_cons_neq in Hb by exact Hne. destruct (HB u' ext' Hb) as (su' & Hs'). exists su'.
                rewrite assoc_cons_neq by exact Hne. exact Hs'.
          -- intros i Hi. rewrite assoc_cons_neq; [apply Hseen; right; exact Hi|]. intros E. apply Hxnot. rewrite E. exact Hi.
          -- intros y u2 ext2 Hy Ey Hb2.
             assert (Hne : item_id x <> u2).
             { intros E'. subst u2. assert (In (item_id x) (redef_targets xs)) by (eapply redef_targets_spec; eassumption).
               apply existsb_eqb_In in H. congruence. }
             rewrite assoc_cons_neq in Hb2 by exact Hne.
             destruct (INV y u2 ext2 (or_intror Hy) Ey Hb2) as (su2 & ly & Hs2 & Hl2 & Hg2 & Hr2).
             exists su2, ly. split; [rewrite assoc_cons_neq by exact Hne; exact Hs2|].
             assert (Hpres : forall i, In i (ids y) -> lookup (KName i) an2 = lookup (KName i) an).
             { intros i Hi. assert (Hd : ~ In (KName i) (K (ids x))).
               { apply (disjoint_ids' x xs); [exact Hnd|]. eapply in_kids_ids_incl; eassumption. }
               rewrite (extends_lookup _ _ _ _ Hext2 Hd). apply (extends_lookup _ _ _ _ Hext1 Hd). }
             split; [rewrite Hpres; [exact Hl2|apply item_id_in_ids]|]. split; [|exact Hr2].
             eapply (proj1 (Good_stable B dcount r e)); [exact Hg2|exact Hpres].
          -- exists (LPCons (KName (item_id x)) lx pls), an'.
             rewrite walk_props_cons, Hwalk. fold an2. rewrite Hszx, Hwp, Nat.add_assoc. split; [reflexivity|].
             assert (Hchain : forall i, In i (ids x) -> lookup (KName i) an' = lookup (KName i) an1).
             { intros i Hi. rewrite (extends_lookup _ _ _ _ Hext); [|apply (disjoint_ids x xs); assumption].
               unfold an2. destruct (js_anchor (build_alt x)) as [k|] eqn:Ek; [|reflexivity].
               cbn [reg lookup]. destruct (key_eqb (KName i) k) eqn:Ei; [|reflexivity].
               (* re-registration of x's own anchor with the same location *)
               apply key_eqb_eq in Ei. subst k.
               assert (i = item_id x /\ elem_table x = false) as [-> Hetx].
               { destruct x as [j sz [|n|c] rd|j [|n|c] rd ks]; cbn [build_alt js_anchor elem_items] in Ek;
                   try discriminate; injection Ek as ->; split; reflexivity. }
               symmetry. apply Hlx. exact Hetx. }
             split.
             { cbn [GoodKids]. split.
               - exists off, lx. split; [apply assoc_cons_eq|]. split.
                 + split; [exact Hrx|]. left. cbn [find_prop]. rewrite key_eqb_refl. reflexivity.
                 + eapply (proj1 (Good_stable B dcount r e)); [exact Hgx|exact Hchain].
               - apply GoodKids_weaken; [|exact Hkeyx].
                 eapply GoodKids_starts; [exact Hgk|]. intros y Hy. apply Hstarts. exact Hy. }
             cbn [ids_kids].
             assert (I1 : incl (K (ids x)) (K (ids x ++ ids_kids xs))) by (apply K_incl, incl_appl, incl_refl).
             assert (I2 : incl (K (ids_kids xs)) (K (ids x ++ ids_kids xs))) by (apply K_incl, incl_appr, incl_refl).
             eapply extends_chain; [eapply extends_mono; [exact Hext1|exact I1]|].
             eapply extends_chain; [eapply extends_mono; [exact Hext2|exact I1]|].
             eapply extends_mono; [exact Hext|exact I2].
  Qed.

  Lemma sub_add_cancel a b : a + b - a = b.
  Proof. lia. Qed.

  (* the children of a repeated group: no REDEFINES there, so the loop is the ordinary one *)
  Lemma KS_plain ks :
    (forall y, in_kids y ks -> W y) -> wf_kids e ks = true -> NoDup (ids_kids ks) -> redef_targets ks = [] ->
    forall off an, exists pls an',
      walk_props (plain (kid_alts [] ks)) off an = Ok (pls, off + kids_extent e ks, an')
      /\ GoodKids (kid_starts e ks off []) pls an' ks /\ extends (K (ids_kids ks)) an an'.
  Proof.
    intros HW Hwf Hnd Hno off an. rewrite <- (no_redef_assemble ks Hno).
    apply (KS ks HW Hwf Hnd [] off [] an).
    - apply no_redef_unions. exact Hno.
    - intros u ext H. discriminate.
    - intros i _. reflexivity.
    - intros y u ext _ _ H. discriminate.
  Qed.

  Theorem W_all :
    (forall x, W x) /\ (forall ks y, in_kids y ks -> W y).
  Proof.
    apply item_items_ind.
    - (* elementary *)
      intros i sz oc rd Hw Hnd st an. cbn [wf item_oc] in Hw. destruct oc as [|n|c]; [| |discriminate].
      + exists (LAtom st sz), (reg (Some (KName i)) (LAtom st sz) an). cbn [build_alt]. rewrite walk_atom.
        split; [reflexivity|]. split; [|split; [reflexivity|]].
        * cbn [LayoutP.Good lstart lsize]. unfold extent. cbn [item_oc count ext1]. repeat split; lia.
        * intros _. cbn [item_id reg]. apply lookup_cons_same.
      + cbn [build_alt]. unfold elem_items. rewrite walk_arr, walk_obj, walk_props_cons, walk_atom, walk_props_nil.
        cbn [js_anchor reg lsize]; rewrite ?ref_size_0. rewrite sub_add_cancel.
        eexists. eexists. split; [reflexivity|]. split; [|split; [reflexivity|intros H; discriminate]].
        cbn [LayoutP.Good lstart lsize]. unfold extent. cbn [item_oc count ext1]. split; [reflexivity|]. split; [lia|].
        eexists. reflexivity.
    - (* group *)
      intros i oc rd ks IH Hw Hnd st an. cbn [wf item_oc] in Hw.
      apply andb_true_iff in Hw. destruct Hw as [Hoc Hw]. apply andb_true_iff in Hw. destruct Hw as [Hwk Hu].
      cbn [ids] in Hnd. assert (Hndk : NoDup (ids_kids ks)) by (inversion Hnd; assumption).
      assert (Hi : ~ In i (ids_kids ks)) by (inversion Hnd; assumption).
      destruct oc as [|n|c]; [| |discriminate].
      + rewrite (build_group_once e) by assumption. rewrite walk_obj.
        destruct (KS ks IH Hwk Hndk [] st [] an Hu) as (pls & an1 & Hwp & Hgk & Hext).
        * intros u ext H. discriminate.
        * intros j _. reflexivity.
        * intros y u ext _ _ H. discriminate.
        * rewrite Hwp, sub_add_cancel. eexists. eexists. split; [reflexivity|]. split; [|split; [reflexivity|]].
          -- cbn [LayoutP.Good lstart lsize]. unfold extent. cbn [item_oc count ext1]. split; [reflexivity|]. split; [lia|].
             exists pls. split; [reflexivity|].
             eapply (proj2 (Good_stable B dcount r e)); [exact Hgk|].
             intros j Hj. cbn [reg lookup]. rewrite key_eqb_neq; [reflexivity|]. intros E. injection E as ->. contradiction.
          -- intros _. cbn [item_id reg]. apply lookup_cons_same.
      + assert (Hno : redef_targets ks = []) by (destruct (redef_targets ks); [reflexivity|discriminate]).
        cbn [build_alt]. fold (occ_schema ks). rewrite walk_arr. unfold occ_schema at 1. rewrite walk_obj.
        destruct (KS_plain ks IH Hwk Hndk Hno st an) as (pls & an1 & Hwp & Hgk & Hext).
        rewrite Hwp, sub_add_cancel. cbn [lsize]. eexists. eexists. split; [reflexivity|]. split; [|split; [reflexivity|]].
        * cbn [LayoutP.Good lstart lsize]. unfold extent. cbn [item_oc count ext1]. split; [reflexivity|]. split; [lia|].
          eexists. split; [reflexivity|]. intros st'. unfold occ_schema. rewrite walk_obj.
          destruct (KS_plain ks IH Hwk Hndk Hno st' []) as (pls' & an' & Hwp' & Hgk' & _).
          rewrite Hwp', sub_add_cancel. exists pls'. eexists. split; [reflexivity|].
          eapply (proj2 (Good_stable B dcount r e)); [exact Hgk'|]. intros j Hj. reflexivity.
        * intros _. cbn [item_id reg]. apply lookup_cons_same.
    - intros y [].
    - intros x IHx xs IHxs y [ -> |Hy]; [exact IHx|apply IHxs; exact Hy].
  Qed.
End Main.

(* ------------------------------------------------------------------ navigation *)
Section Nav.
  Variable B : Type.
  Variable dcount : list B -> nat.
  Variable r : list B.
  Variable e : env.
  Notation walk := (Layout.walk dcount r).
  Notation Good := (Good B dcount r e).
  Notation GoodKids := (GoodKids B dcount r e).

  Definition shift (d : nat) (p : id * nat) : id * nat := (fst p, d + snd p).

  Lemma kid_starts_shift d : forall ks off seen,
    kid_starts e ks (d + off) (map (shift d) seen) = map (shift d) (kid_starts e ks off seen).
  Proof.
    induction ks as [|x xs IH]; intros off seen; [reflexivity|].
    cbn [kid_starts]. destruct (item_redef x) as [t|].
    - assert (Hf : match find (fun p => N.eqb (fst p) t) (map (shift d) seen) with Some p => snd p | None => d + off end
                   = d + match find (fun p => N.eqb (fst p) t) seen with Some p => snd p | None => off end).
      { clear. induction seen as [|[j v] seen IHs]; cbn [map find shift fst snd]; [reflexivity|].
        destruct (N.eqb j t); [reflexivity|exact IHs]. }
      rewrite Hf. cbn [map shift fst snd]. f_equal.
      change ((item_id x, d + match find (fun p => N.eqb (fst p) t) seen with Some p => snd p | None => off end) :: map (shift d) seen)
        with (map (shift d) ((item_id x, match find (fun p => N.eqb (fst p) t) seen with Some p => snd p | None => off end) :: seen)).
      apply IH.
    - cbn [map shift fst snd]. f_equal.
      change ((item_id x, d + off) :: map (shift d) seen) with (map (shift d) ((item_id x, off) :: seen)).
      rewrite <- IH. f_equal. lia.
  Qed.

  Lemma assoc_shift d k l : assoc k (map (shift d) l) = option_map (fun o => d + o) (assoc k l).
  Proof.
    induction l as [|[j v] l IH]; cbn [map shift assoc fst snd option_map]; [reflexivity|].
    destruct (N.eqb j k); [reflexivity|exact IH].
  Qed.

  Lemma kid_start_assoc ks k o st :
    kid_start e ks k = Some o -> assoc k (kid_starts e ks st []) = Some (st + o).
  Proof.
    unfold kid_start. intros H.
    pose proof (kid_starts_shift st ks 0 []) as Hs. cbn [map] in Hs. rewrite Nat.add_0_r in Hs. rewrite Hs, assoc_shift.
    assert (Ha : assoc k (kid_starts e ks 0 []) = Some o).
    { revert H. generalize (kid_starts e ks 0 []). intros l. induction l as [|[j v] l IHl]; cbn [find assoc option_map fst]; [discriminate|].
      destruct (N.eqb j k); [intros H; injection H as <-; reflexivity|exact IHl]. }
    rewrite Ha. reflexivity.
  Qed.

  Lemma GoodKids_find starts ps an : forall ks k x,
    GoodKids starts ps an ks -> find_kid ks k = Some x ->
    item_id x = k /\ exists o lk, assoc k starts = Some o /\ resolved an ps k lk /\ Good x o lk an.
  Proof.
    induction ks as [|y ys IH]; intros k x Hg Hf; [discriminate|].
    cbn [find_kid] in Hf. cbn [LayoutP.GoodKids] in Hg. destruct Hg as ((o & lk & Ho & Hr & Hgy) & Hrest).
    destruct (N.eqb (item_id y) k) eqn:E.
    - injection Hf as <-. apply N.eqb_eq in E. subst k. split; [reflexivity|]. exists o, lk. tauto.
    - apply IH; assumption.
  Qed.

  Lemma nav_name_resolved an ps k lk st sz :
    resolved an ps k lk -> nav_name (mknav (LObj st sz ps) an) (KName k) = Ok (mknav lk an).
  Proof.
    intros (Hnr & [Hf|(s0 & Hf & Hl)]); rewrite nav_name_unf; cbn [n_loc n_an]; rewrite Hf.
    - destruct lk; try reflexivity. discriminate.
    - rewrite Hl. reflexivity.
  Qed.

  (* what the navigator is looking at, against the specification's view *)
  Definition Rel (v : view) (st : nat) (nv : nav) : Prop :=
    match v with
    | VItem x => Good x st (n_loc nv) (n_an nv)
    | VOcc (Group _ _ _ ks) =>
        exists ps, n_loc nv = LObj st (kids_extent e ks) ps /\ GoodKids (kid_starts e ks st []) ps (n_an nv) ks
    | VOcc (Elem i sz _ _) => n_loc nv = LObj st sz (LPCons (KName i) (LAtom st sz) LPNil)
    | VAtom sz => n_loc nv = LAtom st sz
    end.

  Lemma Rel_place v st nv : Rel v st nv -> lstart (n_loc nv) = st /\ lsize (n_loc nv) = view_size e v.
  Proof.
    destruct v as [x|x|sz]; cbn [Rel view_size].
    - intros H. split; [eapply Good_start; exact H|eapply Good_size; exact H].
    - destruct x as [i sz oc rd|i oc rd ks].
      + intros ->. split; reflexivity.
      + intros (ps & -> & _). split; reflexivity.
    - intros ->. split; reflexivity.
  Qed.

  Lemma in_kids_step ks k x o st ps an sz :
    GoodKids (kid_starts e ks st []) ps an ks -> find_kid ks k = Some x -> kid_start e ks k = Some o ->
    exists nv', nav_name (mknav (LObj st sz ps) an) (KName k) = Ok nv' /\ Rel (VItem x) (st + o) nv'.
  Proof.
    intros Hg Hf Hk. destruct (GoodKids_find _ _ _ ks k x Hg Hf) as (_ & o' & lk & Ho & Hr & Hgx).
    rewrite (kid_start_assoc ks k o st Hk) in Ho. injection Ho as <-.
    exists (mknav lk an). split; [apply nav_name_resolved; exact Hr|exact Hgx].
  Qed.

  Lemma nav_step_ok v st nv s v' st' :
    Rel v st nv -> spec_step e v st s = inl (v', st') ->
    exists nv', nav_step dcount r nv s = Ok nv' /\ Rel v' st' nv'.
  Proof.
    intros HR Hs. destruct nv as [l an]. destruct s as [k|i]; cbn [spec_step nav_step] in *.
    - (* by name *)
      destruct v as [x|x|sz]; [| |discriminate].
      + destruct x as [j sz oc rd|j oc rd ks]; [discriminate|]. destruct oc as [|n|c]; try discriminate.
        cbn [Rel n_loc n_an LayoutP.Good] in HR. destruct HR as (_ & _ & ps & -> & Hg).
        destruct (find_kid ks k) as [x|] eqn:Ef; [|discriminate]. destruct (kid_start e ks k) as [o|] eqn:Ek; [|discriminate].
        injection Hs as <- <-. eapply in_kids_step; eassumption.
      + destruct x as [j sz oc rd|j oc rd ks].
        * cbn [Rel n_loc] in HR. subst l. destruct (N.eqb j k) eqn:E; [|discriminate]. injection Hs as <- <-.
          apply N.eqb_eq in E. subst k. eexists. split.
          -- rewrite nav_name_unf. cbn [n_loc n_an find_prop]. rewrite key_eqb_refl. reflexivity.
          -- reflexivity.
        * cbn [Rel n_loc n_an] in HR. destruct HR as (ps & -> & Hg).
          destruct (find_kid ks k) as [x|] eqn:Ef; [|discriminate]. destruct (kid_start e ks k) as [o|] eqn:Ek; [|discriminate].
          injection Hs as <- <-. eapply in_kids_step; eassumption.
    - (* by index *)
      destruct v as [x|x|sz]; try discriminate.
      destruct (is_table x) eqn:Et; [|discriminate].
      destruct (i <? count e (item_oc x)) eqn:Ei; [|discriminate]. injection Hs as <- <-.
      apply Nat.ltb_lt in Ei. cbn [Rel n_loc n_an] in HR.
      destruct x as [j sz oc rd|j oc rd ks]; destruct oc as [|n|c]; try discriminate; cbn [item_oc] in Ei;
        cbn [LayoutP.Good] in HR.
      + destruct HR as (_ & _ & sub & ->). rewrite nav_index_unf. cbn [n_loc].
        replace (count e (Times n) <=? i) with false by (symmetry; apply Nat.leb_gt; exact Ei).
        unfold elem_items. rewrite walk_obj, walk_props_cons, walk_atom, walk_props_nil. cbn [js_anchor reg lsize]; rewrite ?ref_size_0.
        rewrite sub_add_cancel. eexists. split; [reflexivity|]. cbn [Rel n_loc ext1]. rewrite (Nat.mul_comm i sz). reflexivity.
      + destruct HR as (_ & _ & sub & ->). rewrite nav_index_unf. cbn [n_loc].
        replace (count e (Odo c) <=? i) with false by (symmetry; apply Nat.leb_gt; exact Ei).
        unfold elem_items. rewrite walk_obj, walk_props_cons, walk_atom, walk_props_nil. cbn [js_anchor reg lsize]; rewrite ?ref_size_0.
        rewrite sub_add_cancel. eexists. split; [reflexivity|]. cbn [Rel n_loc ext1]. rewrite (Nat.mul_comm i sz). reflexivity.
      + destruct HR as (_ & _ & sub & -> & Hocc). rewrite nav_index_unf. cbn [n_loc].
        replace (count e (Times n) <=? i) with false by (symmetry; apply Nat.leb_gt; exact Ei).
        destruct (Hocc (st + kids_extent e ks * i)) as (ps & an' & Hw & Hg). rewrite Hw.
        eexists. split; [reflexivity|]. cbn [Rel n_loc n_an ext1]. rewrite (Nat.mul_comm i). exists ps. split; [reflexivity|exact Hg].
      + destruct HR as (_ & _ & sub & -> & Hocc). rewrite nav_index_unf. cbn [n_loc].
        replace (count e (Odo c) <=? i) with false by (symmetry; apply Nat.leb_gt; exact Ei).
        destruct (Hocc (st + kids_extent e ks * i)) as (ps & an' & Hw & Hg). rewrite Hw.
        eexists. split; [reflexivity|]. cbn [Rel n_loc n_an ext1]. rewrite (Nat.mul_comm i). exists ps. split; [reflexivity|exact Hg].
  Qed.

  Lemma nav_path_ok : forall p v st nv v' st',
    Rel v st nv -> spec_nav e v st p = inl (v', st') ->
    exists nv', nav_path dcount r nv p = Ok nv' /\ Rel v' st' nv'.
  Proof.
    induction p as [|s p IH]; intros v st nv v' st' HR Hs; cbn [spec_nav nav_path] in *.
    - injection Hs as <- <-. exists nv. split; [reflexivity|exact HR].
    - destruct (spec_step e v st s) as [[v1 st1]|err] eqn:E1; [|discriminate].
      destruct (nav_step_ok v st nv s v1 st1 HR E1) as (nv1 & Hn1 & HR1). rewrite Hn1.
      eapply IH; eassumption.
  Qed.

  (* C01: every item reached by name and index navigation is where the record description puts it *)
  Theorem layout_correct (t : item) :
    wf e t = true -> NoDup (ids t) ->
    exists v0, nav_of dcount r (build t) = Ok v0
      /\ lstart (n_loc v0) = 0 /\ lend (n_loc v0) = extent e t
      /\ forall p v st, spec_nav e (VItem t) 0 p = inl (v, st) ->
           exists nv, nav_path dcount r v0 p = Ok nv
             /\ lstart (n_loc nv) = st /\ lend (n_loc nv) = st + view_size e v
             /\ nav_raw r nv = slice r st (st + view_size e v).
  Proof.
    intros Hw Hnd. destruct (proj1 (W_all B dcount r e) t Hw Hnd 0 []) as (l & an & Hwalk & Hg & _ & _).
    exists (mknav l an). rewrite nav_of_unf. unfold build. rewrite Hwalk. split; [reflexivity|].
    assert (HR : Rel (VItem t) 0 (mknav l an)) by exact Hg.
    destruct (Rel_place _ _ _ HR) as [H0 Hsz]. cbn [n_loc view_size] in *. unfold lend. rewrite H0, Hsz.
    split; [reflexivity|]. split; [reflexivity|].
    intros p v st Hs. destruct (nav_path_ok p _ _ _ _ _ HR Hs) as (nv & Hn & HRn).
    exists nv. destruct (Rel_place _ _ _ HRn) as [H1 H2]. rewrite nav_raw_unf. unfold lend. rewrite H1, H2. tauto.
  Qed.

  (* an index at or beyond the number of occurrences is refused *)
  Lemma index_refused x st nv i :
    Rel (VItem x) st nv -> is_table x = true -> count e (item_oc x) <= i -> nav_index dcount r nv i = Err IndexError.
  Proof.
    intros HR Ht Hi. destruct nv as [l an]. cbn [Rel n_loc n_an] in HR. apply Nat.leb_le in Hi.
    destruct x as [j sz oc rd|j oc rd ks]; destruct oc as [|n|c]; try discriminate; cbn [LayoutP.Good item_oc] in *.
    - destruct HR as (_ & _ & sub & ->). rewrite nav_index_unf. cbn [n_loc]. rewrite Hi. reflexivity.
    - destruct HR as (_ & _ & sub & ->). rewrite nav_index_unf. cbn [n_loc]. rewrite Hi. reflexivity.
    - destruct HR as (_ & _ & sub & -> & _). rewrite nav_index_unf. cbn [n_loc]. rewrite Hi. reflexivity.
    - destruct HR as (_ & _ & sub & -> & _). rewrite nav_index_unf. cbn [n_loc]. rewrite Hi. reflexivity.
  Qed.

  Theorem layout_index_refused (t : item) :
    wf e t = true -> NoDup (ids t) ->
    forall v0, nav_of dcount r (build t) = Ok v0 ->
    forall p x st i, spec_nav e (VItem t) 0 p = inl (VItem x, st) -> is_table x = true -> count e (item_oc x) <= i ->
      exists nv, nav_path dcount r v0 p = Ok nv /\ nav_index dcount r nv i = Err IndexError.
  Proof.
    intros Hw Hnd v0 Hv0 p x st i Hs Ht Hi.
    destruct (proj1 (W_all B dcount r e) t Hw Hnd 0 []) as (l & an & Hwalk & Hg & _ & _).
    rewrite nav_of_unf in Hv0. unfold build in Hv0. rewrite Hwalk in Hv0. injection Hv0 as <-.
    assert (HR : Rel (VItem t) 0 (mknav l an)) by exact Hg.
    destruct (nav_path_ok p _ _ _ _ _ HR Hs) as (nv & Hn & HRn).
    exists nv. split; [exact Hn|]. eapply index_refused; eassumption.
  Qed.
End Nav.
