(* Lemmas of Props/C01d.v: what the well-formedness predicate wf of the layout theorems excludes, exclusion by exclusion.
     wf_exact           under the structural minimum (wf_base: no OCCURS DEPENDING ON, every REDEFINES names an earlier sibling) and
                        distinct sibling names, wf fails EXACTLY on: REDEFINES inside a repeated group (Model/Layout.v build_raises =
                        K-redef-in-occurs), an elementary OCCURS item in a union (Judge/JLayoutCommon.v occurs_elem_in_union =
                        K-occurs-elem-in-union), a REDEFINES whose target is itself a redefiner (chained_redef =
                        K-redefines-of-redefiner), a redefiner longer than its target (Spec/LayoutChainWf.v longer_redefiner)
     layout_outside_chain   hence the layout theorem (Proofs/LayoutNamesP.v layout_correct_names) for every record description that
                        shows none of the four
     chain_full_refuted the statement without the chained-redefinition exclusion is refuted by the finding's witness
     chain_facts ...    what model and specification say on the witnesses *)
From Coq Require Import List Arith NArith Bool Lia Btauto.
Import ListNotations.
Require Import SR.Base.Res SR.Spec.Layout SR.Model.Layout SR.Proofs.LayoutP SR.Proofs.LayoutNamesP.
Require Import SR.Spec.LayoutChainWf.
Require SR.Judge.JLayoutCommon.

(* ------------------------------------------------------------------ the judge's triggers: this sibling list / below it *)

Definition is_some {T} (o : option T) : bool := match o with Some _ => true | None => false end.

Fixpoint local_oeu (tg : list id) (ks : items) : bool :=
  match ks with
  | INil => false
  | ICons x xs => (elem_table x && is_some (union_of tg x)) || local_oeu tg xs
  end.
Fixpoint deep_oeu (ks : items) : bool :=
  match ks with INil => false | ICons x xs => JLayoutCommon.occurs_elem_in_union x || deep_oeu xs end.

Lemma kids_oeu_split tg : forall ks, JLayoutCommon.kids_oeu tg ks = local_oeu tg ks || deep_oeu ks.
Proof.
  induction ks as [|x xs IH]; [reflexivity|].
  cbn [JLayoutCommon.kids_oeu local_oeu deep_oeu]. rewrite IH.
  destruct x as [i sz oc rd|i oc rd ks].
  - assert (E : JLayoutCommon.occurs_elem_in_union (Elem i sz oc rd) = false) by reflexivity. rewrite E.
    destruct oc as [|n|c]; cbn [elem_table]; unfold is_some; destruct (union_of tg _); btauto.
  - cbn [elem_table]. btauto.
Qed.

Fixpoint local_ch (tg : list id) (ks : items) : bool :=
  match ks with
  | INil => false
  | ICons x xs => (is_redefiner x && existsb (N.eqb (item_id x)) tg) || local_ch tg xs
  end.
Fixpoint deep_ch (ks : items) : bool :=
  match ks with INil => false | ICons x xs => JLayoutCommon.chained_redef x || deep_ch xs end.

Lemma kids_chained_split tg : forall ks, JLayoutCommon.kids_chained tg ks = local_ch tg ks || deep_ch ks.
Proof.
  induction ks as [|x xs IH]; [reflexivity|].
  cbn [JLayoutCommon.kids_chained local_ch deep_ch]. rewrite IH. btauto.
Qed.

(* ------------------------------------------------------------------ small facts about find *)

Lemma find_none_notin {T} u (l : list (id * T)) :
  find (fun p => N.eqb (fst p) u) l = None -> ~ In u (map fst l).
Proof.
  induction l as [|[a b] l IH]; cbn [find map fst In]; intros H; [tauto|].
  destruct (N.eqb a u) eqn:E; [discriminate|]. apply N.eqb_neq in E. intros [H1|H1]; [exact (E H1)|exact (IH H H1)].
Qed.

Lemma find_unique {T} (l : list (id * T)) p :
  NoDup (map fst l) -> In p l -> find (fun q => N.eqb (fst q) (fst p)) l = Some p.
Proof.
  induction l as [|[a b] l IH]; cbn [find map fst In]; intros Hnd Hin; [contradiction|].
  inversion Hnd as [|? ? Ha Hl]; subst. destruct Hin as [ <- |Hin].
  - cbn [fst]. rewrite N.eqb_refl. reflexivity.
  - destruct (N.eqb a (fst p)) eqn:E; [|apply IH; assumption].
    apply N.eqb_eq in E. subst a. exfalso. apply Ha. apply (in_map fst _ _ Hin).
Qed.

Lemma existsb_eqb_notin (u : id) (l : list id) : existsb (N.eqb u) l = false <-> ~ In u l.
Proof.
  split.
  - intros H Hin. apply existsb_eqb_In in Hin. congruence.
  - intros H. destruct (existsb (N.eqb u) l) eqn:E; [apply existsb_eqb_In in E; contradiction|reflexivity].
Qed.

(* ------------------------------------------------------------------ from the three local conditions to unions_ok *)

Lemma unions_ok_from e tg : forall ks seen bases,
  (forall u, In u tg -> find (fun p => N.eqb (fst p) u) seen = find (fun p => N.eqb (fst p) u) bases) ->
  incl (redef_targets ks) tg ->
  redef_earlier (map fst seen) ks = true ->
  local_oeu tg ks = false -> local_ch tg ks = false -> kids_longer e seen ks = false ->
  unions_ok e bases ks = true.
Proof.
  induction ks as [|x xs IH]; intros seen bases Inv Htg Hre Ho Hc Hl; [reflexivity|].
  cbn [unions_ok redef_targets redef_earlier local_oeu local_ch kids_longer] in *.
  apply andb_true_iff in Hre. destruct Hre as [Hu Hre].
  apply orb_false_iff in Ho. destruct Ho as [Hox Ho].
  apply orb_false_iff in Hc. destruct Hc as [Hcx Hc].
  apply orb_false_iff in Hl. destruct Hl as [Hlx Hl].
  unfold is_redefiner in Hcx. rewrite union_of_unf in Hox.
  destruct (item_redef x) as [u|] eqn:Er.
  - (* a redefiner naming u *)
    assert (Hutg : In u tg) by (apply Htg; left; reflexivity).
    cbn [andb] in Hcx. rewrite Hcx in Hox. cbn [is_some] in Hox. rewrite andb_true_r in Hox.
    rewrite Hox. cbn [negb andb].
    rewrite <- (Inv u Hutg). apply existsb_eqb_In in Hu.
    destruct (find (fun p => N.eqb (fst p) u) seen) as [[u' ext]|] eqn:Ef.
    + apply Nat.ltb_ge in Hlx. rewrite (proj2 (Nat.leb_le _ _) Hlx). cbn [andb].
      apply (IH ((item_id x, extent e x) :: seen) bases); try assumption.
      * intros v Hv. cbn [find fst]. destruct (N.eqb (item_id x) v) eqn:E; [|apply Inv; exact Hv].
        apply N.eqb_eq in E. subst v. apply existsb_eqb_notin in Hcx. contradiction.
      * intros v Hv. apply Htg. right. exact Hv.
    + exfalso. exact (find_none_notin u seen Ef Hu).
  - (* not a redefiner *)
    apply andb_true_iff. split.
    + destruct (elem_table x); [|reflexivity]. cbn [andb negb orb] in *.
      destruct (existsb (N.eqb (item_id x)) tg) eqn:Et; [discriminate|].
      destruct (existsb (N.eqb (item_id x)) (redef_targets xs)) eqn:E2; [|reflexivity].
      apply existsb_eqb_In in E2. apply Htg in E2. apply existsb_eqb_In in E2. congruence.
    + apply (IH ((item_id x, extent e x) :: seen) ((item_id x, extent e x) :: bases)); try assumption.
      intros v Hv. cbn [find fst]. destruct (N.eqb (item_id x) v); [reflexivity|apply Inv; exact Hv].
Qed.

(* ------------------------------------------------------------------ from unions_ok to the three local conditions *)

Lemma local_ch_false tg : forall ks,
  (forall y, in_kids y ks -> item_redef y <> None -> ~ In (item_id y) tg) -> local_ch tg ks = false.
Proof.
  induction ks as [|x xs IH]; intros H; [reflexivity|]. cbn [local_ch].
  rewrite IH by (intros y Hy; apply H; right; exact Hy). rewrite orb_false_r.
  unfold is_redefiner. destruct (item_redef x) as [u|] eqn:Er; [|reflexivity]. cbn [andb].
  apply existsb_eqb_notin. apply (H x); [left; reflexivity|rewrite Er; discriminate].
Qed.

Lemma unions_ok_oeu e : forall ks bases tg0,
  unions_ok e bases ks = true ->
  NoDup (kid_ids ks) ->
  (forall j, In j (kid_ids ks) -> ~ In j tg0 /\ ~ In j (map fst bases)) ->
  local_oeu (tg0 ++ redef_targets ks) ks = false.
Proof.
  induction ks as [|x xs IH]; intros bases tg0 Hu Hnd Hfresh; [reflexivity|].
  cbn [unions_ok kid_ids redef_targets local_oeu] in *. inversion Hnd as [|? ? Hxnot Hndxs]; subst.
  destruct (item_redef x) as [u|] eqn:Er.
  - apply andb_true_iff in Hu. destruct Hu as [Hu Hxs]. apply andb_true_iff in Hu. destruct Hu as [Het Hf].
    apply negb_true_iff in Het. rewrite Het. cbn [andb orb].
    destruct (find (fun p => N.eqb (fst p) u) bases) as [[u' ext]|] eqn:Ef; [|discriminate].
    destruct (find_fst_In u bases _ Ef) as [Hin Heq]. cbn [fst] in *. subst u'.
    change (tg0 ++ u :: redef_targets xs) with (tg0 ++ [u] ++ redef_targets xs). rewrite app_assoc.
    apply (IH bases (tg0 ++ [u]) Hxs Hndxs).
    intros j Hj. destruct (Hfresh j (or_intror Hj)) as [H1 H2]. split; [|exact H2].
    intros H. apply in_app_or in H. destruct H as [H|[ <- |[]]]; [exact (H1 H)|exact (H2 Hin)].
  - apply andb_true_iff in Hu. destruct Hu as [Hx Hxs].
    assert (Hfx : elem_table x && is_some (union_of (tg0 ++ redef_targets xs) x) = false).
    { destruct (elem_table x); [|reflexivity]. cbn [negb orb andb] in *. apply negb_true_iff in Hx.
      assert (Ht0 : existsb (N.eqb (item_id x)) tg0 = false)
        by (apply existsb_eqb_notin; apply (Hfresh (item_id x)); left; reflexivity).
      unfold union_of. rewrite existsb_app.
      match goal with |- context [if ?a || ?b then _ else _] =>
        replace a with false by (symmetry; exact Ht0); replace b with false by (symmetry; exact Hx) end.
      cbn [orb]. rewrite Er. reflexivity. }
    rewrite Hfx. cbn [orb].
    apply (IH ((item_id x, extent e x) :: bases) tg0 Hxs Hndxs).
    intros j Hj. destruct (Hfresh j (or_intror Hj)) as [H1 H2]. split; [exact H1|].
    cbn [map fst]. intros [ <- |H]; [exact (Hxnot Hj)|exact (H2 H)].
Qed.

Lemma unions_ok_not_longer e : forall ks bases seen,
  unions_ok e bases ks = true ->
  (forall p, In p bases -> In p seen) ->
  NoDup (map fst seen) -> NoDup (kid_ids ks) ->
  (forall j, In j (kid_ids ks) -> ~ In j (map fst seen)) ->
  kids_longer e seen ks = false.
Proof.
  induction ks as [|x xs IH]; intros bases seen Hu Hsub Hnds Hnd Hdisj; [reflexivity|].
  cbn [unions_ok kid_ids kids_longer] in *. inversion Hnd as [|? ? Hxnot Hndxs]; subst.
  assert (Hnds' : NoDup (map fst ((item_id x, extent e x) :: seen))).
  { cbn [map fst]. constructor; [apply Hdisj; left; reflexivity|exact Hnds]. }
  assert (Hdisj' : forall j, In j (kid_ids xs) -> ~ In j (map fst ((item_id x, extent e x) :: seen))).
  { intros j Hj. cbn [map fst]. intros [ <- |H]; [exact (Hxnot Hj)|exact (Hdisj j (or_intror Hj) H)]. }
  destruct (item_redef x) as [u|] eqn:Er.
  - apply andb_true_iff in Hu. destruct Hu as [Hu Hxs]. apply andb_true_iff in Hu. destruct Hu as [_ Hf].
    destruct (find (fun p => N.eqb (fst p) u) bases) as [[u' ext]|] eqn:Ef; [|discriminate].
    destruct (find_fst_In u bases _ Ef) as [_ Heq]. cbn [fst] in Heq. subst u'.
    apply find_some in Ef. destruct Ef as [Hin _].
    pose proof (find_unique seen (u, ext) Hnds (Hsub _ Hin)) as Hfs. cbn [fst] in Hfs. rewrite Hfs.
    apply Nat.leb_le in Hf. rewrite (proj2 (Nat.ltb_ge _ _) Hf). cbn [orb].
    apply (IH bases ((item_id x, extent e x) :: seen) Hxs); try assumption.
    intros p Hp. right. apply Hsub. exact Hp.
  - apply andb_true_iff in Hu. destruct Hu as [_ Hxs]. cbn [orb].
    apply (IH ((item_id x, extent e x) :: bases) ((item_id x, extent e x) :: seen) Hxs); try assumption.
    intros p [ <- |Hp]; [left; reflexivity|right; apply Hsub; exact Hp].
Qed.

(* ------------------------------------------------------------------ the children of one non-repeated group *)

Lemma unions_ok_exact_local e ks : NoDup (kid_ids ks) -> redef_earlier [] ks = true ->
  unions_ok e [] ks = negb (local_oeu (redef_targets ks) ks || local_ch (redef_targets ks) ks || kids_longer e [] ks).
Proof.
  intros Hnd Hre. destruct (unions_ok e [] ks) eqn:Hu.
  - pose proof (unions_ok_oeu e ks [] [] Hu Hnd) as H1. cbn [app] in H1. rewrite H1 by (intros j _; split; intros []).
    rewrite (local_ch_false (redef_targets ks) ks)
      by (apply redefiner_not_target; [apply (unions_sib_ok e [] ks Hu)|exact Hnd]).
    assert (H3 : kids_longer e [] ks = false).
    { apply (unions_ok_not_longer e ks [] [] Hu); [intros p []|constructor|exact Hnd|intros j _ []]. }
    rewrite H3. reflexivity.
  - destruct (local_oeu (redef_targets ks) ks) eqn:Ho; [reflexivity|].
    destruct (local_ch (redef_targets ks) ks) eqn:Hc; [reflexivity|].
    destruct (kids_longer e [] ks) eqn:Hl; [reflexivity|]. exfalso.
    assert (Hu' : unions_ok e [] ks = true).
    { apply (unions_ok_from e (redef_targets ks) ks [] []); try assumption; [reflexivity|apply incl_refl]. }
    congruence.
Qed.

(* no REDEFINES among the children: none of the local conditions *)
Lemma no_targets_local e : forall ks, redef_targets ks = [] ->
  local_oeu [] ks = false /\ local_ch [] ks = false /\ forall seen, kids_longer e seen ks = false.
Proof.
  induction ks as [|x xs IH]; intros H; [repeat split|].
  cbn [redef_targets] in H. destruct (item_redef x) as [u|] eqn:Er; [discriminate|].
  destruct (IH H) as (H1 & H2 & H3). cbn [local_oeu local_ch kids_longer]. unfold union_of, is_redefiner.
  rewrite Er, H1, H2. cbn [existsb is_some andb orb]. rewrite andb_false_r. repeat split. intros seen. apply H3.
Qed.

(* ------------------------------------------------------------------ the whole record description *)

Lemma wf_exact e :
  (forall x, wf_base x = true -> siblings_distinct x = true ->
     wf e x = negb (build_raises x || JLayoutCommon.occurs_elem_in_union x || JLayoutCommon.chained_redef x
                    || longer_redefiner e x)) /\
  (forall ks, wf_base_kids ks = true -> sd_kids ks = true ->
     wf_kids e ks = negb (kids_raise ks || deep_oeu ks || deep_ch ks || kids_any_longer e ks)).
Proof.
  apply item_items_ind.
  - intros i sz oc rd Hb _. cbn [wf_base item_oc] in Hb. cbn [wf item_oc]. rewrite andb_true_r in *. rewrite Hb. reflexivity.
  - intros i oc rd ks IH Hb Hsd.
    cbn [wf_base item_oc] in Hb. apply andb_true_iff in Hb. destruct Hb as [Hoc Hb].
    apply andb_true_iff in Hb. destruct Hb as [Hre Hbk].
    cbn [siblings_distinct] in Hsd. apply andb_true_iff in Hsd. destruct Hsd as [Hnd Hsdk]. apply nodupb_NoDup in Hnd.
    cbn [wf item_oc build_raises JLayoutCommon.occurs_elem_in_union JLayoutCommon.chained_redef longer_redefiner].
    rewrite kids_oeu_split, kids_chained_split, (IH Hbk Hsdk), Hoc. cbn [andb].
    destruct oc as [|n|c]; [| |discriminate].
    + rewrite (unions_ok_exact_local e ks Hnd Hre). btauto.
    + destruct (redef_targets ks) as [|t l] eqn:Et.
      * destruct (no_targets_local e ks Et) as (H1 & H2 & H3). rewrite H1, H2, H3. btauto.
      * btauto.
  - intros _ _. reflexivity.
  - intros x IHx xs IHxs Hb Hsd. cbn [wf_base_kids] in Hb. apply andb_true_iff in Hb. destruct Hb as [Hbx Hbxs].
    cbn [sd_kids] in Hsd. apply andb_true_iff in Hsd. destruct Hsd as [Hsx Hsxs].
    cbn [wf_kids kids_raise deep_oeu deep_ch kids_any_longer]. rewrite (IHx Hbx Hsx), (IHxs Hbxs Hsxs). btauto.
Qed.

Lemma unions_ok_exact e t : wf_base t = true -> siblings_distinct t = true ->
  wf e t = negb (build_raises t || JLayoutCommon.occurs_elem_in_union t || JLayoutCommon.chained_redef t || longer_redefiner e t).
Proof. exact (proj1 (wf_exact e) t). Qed.

(* wf implies the structural minimum (so wf_base is no extra demand of the layout theorems) *)
Lemma sib_ok_earlier : forall ks bases seen, sib_ok bases ks = true -> incl bases seen -> redef_earlier seen ks = true.
Proof.
  induction ks as [|x xs IH]; intros bases seen H Hi; [reflexivity|]. cbn [sib_ok redef_earlier] in *.
  destruct (item_redef x) as [u|].
  - apply andb_true_iff in H. destruct H as [Hu Hxs]. apply andb_true_iff. split.
    + apply existsb_eqb_In. apply Hi. apply existsb_eqb_In. exact Hu.
    + apply (IH bases); [exact Hxs|]. intros v Hv. right. apply Hi. exact Hv.
  - cbn [andb]. apply (IH (item_id x :: bases)); [exact H|]. intros v [ <- |Hv]; [left; reflexivity|right; apply Hi; exact Hv].
Qed.

Lemma no_targets_earlier : forall ks seen, redef_targets ks = [] -> redef_earlier seen ks = true.
Proof.
  induction ks as [|x xs IH]; intros seen H; [reflexivity|]. cbn [redef_targets redef_earlier] in *.
  destruct (item_redef x); [discriminate|]. cbn [andb]. apply IH. exact H.
Qed.

Lemma wf_wf_base e :
  (forall x, wf e x = true -> wf_base x = true) /\ (forall ks, wf_kids e ks = true -> wf_base_kids ks = true).
Proof.
  apply item_items_ind.
  - intros i sz oc rd H. cbn [wf wf_base] in *. exact H.
  - intros i oc rd ks IH H. cbn [wf wf_base] in *. apply andb_true_iff in H. destruct H as [Hoc H].
    apply andb_true_iff in H. destruct H as [Hk Hu]. rewrite Hoc, (IH Hk), andb_true_r. cbn [andb].
    destruct oc as [|n|c].
    + apply (sib_ok_earlier ks [] []); [apply (unions_sib_ok e [] ks Hu)|apply incl_refl].
    + apply no_targets_earlier. destruct (redef_targets ks); [reflexivity|discriminate].
    + discriminate.
  - reflexivity.
  - intros x IHx xs IHxs H. cbn [wf_kids wf_base_kids] in *. apply andb_true_iff in H. destruct H as [H1 H2].
    rewrite (IHx H1), (IHxs H2). reflexivity.
Qed.

(* ------------------------------------------------------------------ the layout theorem outside the four exclusions *)

Lemma layout_outside_chain (B : Type) (dcount : list B -> nat) (r : list B) (e : env) (t : item) :
  wf_base t = true -> build_raises t = false -> JLayoutCommon.occurs_elem_in_union t = false -> longer_redefiner e t = false ->
  JLayoutCommon.chained_redef t = false ->
  siblings_distinct t = true -> anchored_names_unique t = true ->
  exists v0, nav_of dcount r (build t) = Ok v0
    /\ lstart (n_loc v0) = 0 /\ lend (n_loc v0) = extent e t
    /\ forall p v st, spec_nav e (VItem t) 0 p = inl (v, st) ->
         exists nv, nav_path dcount r v0 p = Ok nv
           /\ lstart (n_loc nv) = st /\ lend (n_loc nv) = st + view_size e v
           /\ nav_raw r nv = slice r st (st + view_size e v).
Proof.
  intros Hb H1 H2 H3 H4 Hsd Han. apply layout_correct_names; try assumption.
  rewrite (unions_ok_exact e t Hb Hsd), H1, H2, H3, H4. reflexivity.
Qed.

(* ------------------------------------------------------------------ the witnesses *)

Definition nav_range (t : item) (p : list step) : option (nat * nat) :=
  match nav_of (fun _ : list unit => 0) [] (build t) with
  | Ok v0 => match nav_path (fun _ : list unit => 0) [] v0 p with
             | Ok nv => Some (lstart (n_loc nv), lend (n_loc nv))
             | Err _ => None
             end
  | Err _ => None
  end.

Definition spec_range (t : item) (p : list step) : option (nat * nat) :=
  match spec_nav (fun _ => 0) (VItem t) 0 p with
  | inl (v, st) => Some (st, st + view_size (fun _ => 0) v)
  | inr _ => None
  end.

Lemma chain_facts :
  wf_base chain_tree = true /\ build_raises chain_tree = false /\ JLayoutCommon.occurs_elem_in_union chain_tree = false
  /\ longer_redefiner (fun _ => 0) chain_tree = false
  /\ siblings_distinct chain_tree = true /\ anchored_names_unique chain_tree = true
  /\ JLayoutCommon.chained_redef chain_tree = true /\ wf (fun _ => 0) chain_tree = false
  /\ build chain_tree =
       JObj (Some (KName 1%N))
         (PCons (KRedef 2%N) (JOne (Some (KRedef 2%N)) (ACons (JAtom (Some (KName 2%N)) 4) ANil))
         (PCons (KName 2%N) (JRef (KName 2%N))
         (PCons (KRedef 3%N) (JOne (Some (KRedef 3%N)) (ACons (JAtom (Some (KName 3%N)) 4) (ACons (JAtom (Some (KName 4%N)) 2) ANil)))
         (PCons (KName 3%N) (JRef (KName 3%N))
         (PCons (KName 4%N) (JRef (KName 4%N))
         (PCons (KName 5%N) (JAtom (Some (KName 5%N)) 1) PNil))))))
  /\ map (spec_range chain_tree) [[]; [PName 2%N]; [PName 3%N]; [PName 4%N]; [PName 5%N]]
     = [Some (0, 5); Some (0, 4); Some (0, 4); Some (0, 2); Some (4, 5)]
  /\ map (nav_range chain_tree) [[]; [PName 2%N]; [PName 3%N]; [PName 4%N]; [PName 5%N]]
     = [Some (0, 9); Some (0, 4); Some (4, 8); Some (4, 6); Some (8, 9)].
Proof. vm_compute. repeat split; reflexivity. Qed.

Lemma chain_full_refuted :
  ~ (forall (B : Type) (dcount : list B -> nat) (r : list B) (e : env) (t : item),
       wf_base t = true -> build_raises t = false -> JLayoutCommon.occurs_elem_in_union t = false -> longer_redefiner e t = false ->
       siblings_distinct t = true -> anchored_names_unique t = true ->
       exists v0, nav_of dcount r (build t) = Ok v0
         /\ lstart (n_loc v0) = 0 /\ lend (n_loc v0) = extent e t
         /\ forall p v st, spec_nav e (VItem t) 0 p = inl (v, st) ->
              exists nv, nav_path dcount r v0 p = Ok nv
                /\ lstart (n_loc nv) = st /\ lend (n_loc nv) = st + view_size e v
                /\ nav_raw r nv = slice r st (st + view_size e v)).
Proof.
  intros H.
  destruct (H unit (fun _ => 0) [] (fun _ => 0) chain_tree eq_refl eq_refl eq_refl eq_refl eq_refl eq_refl)
    as (v0 & Hnav & _ & Hend & _).
  vm_compute in Hnav. injection Hnav as <-. vm_compute in Hend. discriminate.
Qed.

Lemma chain3_facts :
  wf_base chain3_tree = true /\ JLayoutCommon.chained_redef chain3_tree = true
  /\ map (spec_range chain3_tree) [[]; [PName 2%N]; [PName 3%N]; [PName 4%N]; [PName 5%N]; [PName 6%N]]
     = [Some (0, 5); Some (0, 4); Some (0, 4); Some (0, 3); Some (0, 2); Some (4, 5)]
  /\ map (nav_range chain3_tree) [[]; [PName 2%N]; [PName 3%N]; [PName 4%N]; [PName 5%N]; [PName 6%N]]
     = [Some (0, 12); Some (0, 4); Some (4, 8); Some (8, 11); Some (8, 10); Some (11, 12)].
Proof. vm_compute. repeat split; reflexivity. Qed.

Lemma chain_nested_facts :
  wf_base chain_nested_tree = true /\ JLayoutCommon.chained_redef chain_nested_tree = true
  /\ map (spec_range chain_nested_tree)
       [[]; [PName 2%N]; [PName 3%N]; [PName 3%N; PName 4%N]; [PName 3%N; PName 4%N; PName 6%N]; [PName 3%N; PName 7%N];
        [PName 3%N; PName 8%N]; [PName 3%N; PName 9%N]; [PName 10%N]]
     = [Some (0, 7); Some (0, 1); Some (1, 6); Some (1, 5); Some (3, 5); Some (1, 5); Some (1, 3); Some (5, 6); Some (6, 7)]
  /\ map (nav_range chain_nested_tree)
       [[]; [PName 2%N]; [PName 3%N]; [PName 3%N; PName 4%N]; [PName 3%N; PName 4%N; PName 6%N]; [PName 3%N; PName 7%N];
        [PName 3%N; PName 8%N]; [PName 3%N; PName 9%N]; [PName 10%N]]
     = [Some (0, 11); Some (0, 1); Some (1, 10); Some (1, 5); Some (3, 5); Some (5, 9); Some (5, 7); Some (9, 10); Some (10, 11)].
Proof. vm_compute. repeat split; reflexivity. Qed.

(* a redefiner longer than its target: the union is as long as its LONGEST alternative (what a compiler that accepts the shape
   allocates); Spec/Layout.v, in which a redefiner adds no length, says otherwise and does not apply *)
Lemma longer_facts :
  wf_base longer_tree = true /\ longer_redefiner (fun _ => 0) longer_tree = true /\ JLayoutCommon.chained_redef longer_tree = false
  /\ wf (fun _ => 0) longer_tree = false
  /\ map (nav_range longer_tree) [[]; [PName 2%N]; [PName 3%N]; [PName 4%N]] = [Some (0, 5); Some (0, 2); Some (0, 4); Some (4, 5)]
  /\ map (spec_range longer_tree) [[]; [PName 2%N]; [PName 3%N]; [PName 4%N]] = [Some (0, 3); Some (0, 2); Some (0, 4); Some (2, 3)].
Proof. vm_compute. repeat split; reflexivity. Qed.
