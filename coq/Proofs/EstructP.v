From Coq Require Import ZArith NArith List Bool Lia Arith ZifyBool ZifyN ZifyNat.
Import ListNotations.
Require Import SR.Base.Res SR.Base.Dec SR.Gen.EstructParams SR.Gen.Cp037 SR.Gen.TextCodec SR.Spec.Encode SR.Model.Estruct.
(* The definitions of this development that occur in theorem statements (Props/) live in Spec/EstructWf.v (audit item G1).
   The abbreviations keep the qualified names EstructP.name of other files resolving; they are parsing-only aliases. *)
Require Export SR.Spec.EstructWf.
Notation is_none := SR.Spec.EstructWf.is_none (only parsing).
Open Scope N_scope.
Ltac Zify.zify_post_hook ::= Z.to_euclidean_division_equations.

(* ---------- digit lists ---------- *)
Lemma val_app ds d : val (ds ++ [d]) = 10 * val ds + d.
Proof. unfold val. rewrite fold_left_app. reflexivity. Qed.

Lemma fold_val_shift ds : forall a, fold_left (fun a d => 10 * a + d) ds a = a * 10 ^ N.of_nat (length ds) + val ds.
Proof.
  unfold val. induction ds as [|d t IH]; intros a; cbn [fold_left length].
  - change (N.of_nat 0) with 0. rewrite N.pow_0_r. lia.
  - rewrite IH. rewrite (IH (10 * 0 + d)). rewrite Nat2N.inj_succ, N.pow_succ_r'. lia.
Qed.

Lemma val_cons d ds : val (d :: ds) = d * 10 ^ N.of_nat (length ds) + val ds.
Proof. unfold val at 1. cbn [fold_left]. rewrite fold_val_shift. lia. Qed.

Lemma val_zero_cons ds : val (0 :: ds) = val ds.
Proof. rewrite val_cons. lia. Qed.

Lemma val_bound ds : forallb is_digit ds = true -> val ds < 10 ^ N.of_nat (length ds).
Proof.
  induction ds as [|d t IH] using rev_ind; intros H.
  - vm_compute. reflexivity.
  - rewrite forallb_app in H. apply andb_true_iff in H. destruct H as [Ht Hd].
    cbn [forallb] in Hd. unfold is_digit in Hd.
    rewrite val_app, app_length. cbn [length]. rewrite Nat.add_1_r, Nat2N.inj_succ, N.pow_succ_r'.
    specialize (IH Ht). lia.
Qed.

Lemma text_of_digits ds : forallb is_digit ds = true -> text_of ds = ds.
Proof.
  induction ds as [|d t IH]; intros H; [reflexivity|].
  cbn [forallb] in H. apply andb_true_iff in H. destruct H as [Hd Ht].
  unfold text_of in *. cbn [flat_map]. rewrite (IH Ht). unfold str_nibble, is_digit in *. rewrite Hd. reflexivity.
Qed.

(* ---------- decimal arithmetic without rounding ---------- *)
Lemma round_ctx_small d : coef d < limit -> round_ctx d = d.
Proof. intros H. unfold round_ctx. apply N.ltb_lt in H. rewrite H. reflexivity. Qed.

Lemma dec_mul_one_r a b : coef b = 1 -> coef a < limit ->
  dec_mul a b = mkdec (xorb (neg a) (neg b)) (coef a) (dexp a + dexp b).
Proof.
  intros Hb Ha. unfold dec_mul. rewrite Hb, N.mul_1_r. apply round_ctx_small. exact Ha.
Qed.

Lemma number_exact negative text n :
  val text < limit -> number negative text n = mkdec negative (val text) (- Z.of_nat n).
Proof.
  intros H. unfold number.
  rewrite (dec_mul_one_r (mkdec false (val text) 0) (dec_scale n)) by (try reflexivity; exact H).
  rewrite dec_mul_one_r by (try reflexivity; exact H).
  cbn [neg coef dexp dec_scale dec_sign]. f_equal; [destruct negative; reflexivity|lia].
Qed.

(* ---------- sign nibbles: the source's negative sets are the specification's ---------- *)
Lemma packed_neg_spec s : mem s packed_neg = is_neg_sign s.
Proof. unfold mem, packed_neg, is_neg_sign, neg_signs. cbn [existsb]. lia. Qed.

Lemma zoned_neg_spec s : mem s zoned_neg = is_neg_sign s.
Proof. unfold mem, zoned_neg, is_neg_sign, neg_signs. cbn [existsb]. lia. Qed.

Lemma valid_sign_lt s : valid_sign s = true -> s < 16.
Proof. unfold valid_sign, is_neg_sign, pos_signs, neg_signs. cbn [existsb]. lia. Qed.

(* ---------- nibble packing ---------- *)
Lemma hi_pack a b : a < 16 -> b < 16 -> hi (16 * a + b) = a.
Proof. intros Ha Hb. unfold hi. lia. Qed.
Lemma lo_pack a b : a < 16 -> b < 16 -> lo (16 * a + b) = b.
Proof. intros Ha Hb. unfold lo. lia. Qed.

Lemma split_pack_aux n : forall l, (length l <= n)%nat -> Nat.even (length l) = true ->
  forallb (fun x => x <? 16) l = true -> split_nibbles (pack_pairs l) = l.
Proof.
  induction n as [|n IH]; intros l Hn He Hl.
  - destruct l; [reflexivity|simpl in Hn; lia].
  - destruct l as [|a [|b t]]; [reflexivity|discriminate|].
    cbn [pack_pairs split_nibbles]. cbn [forallb] in Hl.
    apply andb_true_iff in Hl. destruct Hl as [Ha Hl]. apply andb_true_iff in Hl. destruct Hl as [Hb Hl].
    rewrite hi_pack, lo_pack by lia. f_equal. f_equal.
    apply IH; [simpl in Hn; lia| |exact Hl].
    cbn [length] in He. rewrite Nat.even_succ_succ in He. exact He.
Qed.

Lemma split_pack l : Nat.even (length l) = true -> forallb (fun x => x <? 16) l = true ->
  split_nibbles (pack_pairs l) = l.
Proof. intros. apply (split_pack_aux (length l)); auto. Qed.

Lemma digits_lt16 ds : forallb is_digit ds = true -> forallb (fun x => x <? 16) ds = true.
Proof.
  intros H. rewrite forallb_forall in *. intros x Hx. specialize (H x Hx). unfold is_digit in H. lia.
Qed.

Lemma no_bad_digit ds : forallb is_digit ds = true -> existsb (fun d => 9 <? d) ds = false.
Proof.
  induction ds as [|d t IH]; intros H; [reflexivity|].
  cbn [forallb] in H. apply andb_true_iff in H. destruct H as [Hd Ht].
  cbn [existsb]. rewrite (IH Ht). unfold is_digit in Hd. lia.
Qed.

(* ---------- packed decimal round trip ---------- *)
Lemma unpack_packed_roundtrip p ds s :
  forallb is_digit ds = true -> valid_sign s = true -> val ds < limit ->
  unpack_packed_dec p (enc_packed ds s) = Ok (VDec (mkdec (is_neg_sign s) (val ds) (- Z.of_nat (p_frac p)))).
Proof.
  intros Hd Hs Hv. pose proof (valid_sign_lt s Hs) as Hs16.
  unfold unpack_packed_dec, enc_packed.
  assert (Hall : forallb (fun x => x <? 16) (ds ++ [s]) = true).
  { rewrite forallb_app, (digits_lt16 ds Hd). cbn [forallb]. lia. }
  destruct (Nat.even (length (ds ++ [s]))) eqn:He.
  - rewrite split_pack by assumption. rewrite rev_app_distr. cbn [rev app].
    rewrite rev_involutive. replace (packed_check_digits) with true by reflexivity.
    rewrite (no_bad_digit ds Hd). cbn [andb].
    destruct ds as [|d t].
    + cbn [app length] in He. discriminate.
    + rewrite text_of_digits by assumption. rewrite packed_neg_spec, number_exact by assumption. reflexivity.
  - rewrite split_pack.
    + change (0 :: ds ++ [s]) with ((0 :: ds) ++ [s]). rewrite rev_app_distr. cbn [rev app].
      change (rev ds ++ [0]) with (rev (0 :: ds)). rewrite rev_involutive.
      replace (packed_check_digits) with true by reflexivity.
      assert (Hd0 : forallb is_digit (0 :: ds) = true) by (cbn [forallb]; rewrite Hd; reflexivity).
      rewrite (no_bad_digit _ Hd0). cbn [andb].
      rewrite text_of_digits by assumption. rewrite packed_neg_spec, number_exact; rewrite val_zero_cons; [reflexivity|assumption].
    + cbn [length]. rewrite Nat.even_succ. rewrite <- Nat.negb_even, He. reflexivity.
    + cbn [forallb]. rewrite Hall. reflexivity.
Qed.

(* ---------- zoned decimal round trip ---------- *)
Lemma enc_zoned_cons2 d e t z : enc_zoned (d :: e :: t) z = (240 + d) :: enc_zoned (e :: t) z.
Proof. reflexivity. Qed.

Lemma zoned_lo ds z : forallb is_digit ds = true -> z < 16 -> map lo (enc_zoned ds z) = ds.
Proof.
  intros Hd Hz. induction ds as [|d t IH]; [reflexivity|].
  cbn [forallb] in Hd. apply andb_true_iff in Hd. destruct Hd as [Hd Ht]. unfold is_digit in Hd.
  destruct t as [|e t'].
  - cbn [enc_zoned map]. rewrite lo_pack by lia. reflexivity.
  - rewrite enc_zoned_cons2. cbn [map]. rewrite (IH Ht).
    replace (240 + d) with (16 * 15 + d) by lia. rewrite lo_pack by lia. reflexivity.
Qed.

Lemma zoned_last ds z : ds <> [] -> forallb is_digit ds = true -> z < 16 ->
  exists rest, rev (enc_zoned ds z) = rest /\ match rest with [] => False | l :: _ => hi l = z end.
Proof.
  intros Hne Hd Hz. induction ds as [|d t IH]; [contradiction|].
  cbn [forallb] in Hd. apply andb_true_iff in Hd. destruct Hd as [Hd Ht]. unfold is_digit in Hd.
  destruct t as [|e t'].
  - eexists. split; [reflexivity|]. cbn [enc_zoned rev app]. apply hi_pack; lia.
  - rewrite enc_zoned_cons2. destruct (IH ltac:(discriminate) Ht) as (rest & Hrest & Hhi).
    eexists. split; [reflexivity|]. cbn [rev]. rewrite Hrest.
    destruct rest as [|l r]; [contradiction|]. exact Hhi.
Qed.

Lemma no_bad_zoned bs : forallb is_digit (map lo bs) = true -> existsb (fun b => 9 <? lo b) bs = false.
Proof.
  induction bs as [|b t IH]; intros H; [reflexivity|].
  cbn [map forallb] in H. apply andb_true_iff in H. destruct H as [Hd Ht].
  cbn [existsb]. rewrite (IH Ht). unfold is_digit in Hd. lia.
Qed.

Lemma unpack_zoned_roundtrip p ds z :
  ds <> [] -> forallb is_digit ds = true -> valid_sign z = true -> val ds < limit ->
  unpack_zoned p (enc_zoned ds z) = Ok (VDec (mkdec (is_neg_sign z) (val ds) (- Z.of_nat (p_frac p)))).
Proof.
  intros Hne Hd Hs Hv. pose proof (valid_sign_lt z Hs) as Hz.
  unfold unpack_zoned. replace zoned_check_digits with true by reflexivity.
  rewrite no_bad_zoned by (rewrite zoned_lo; assumption). cbn [andb].
  destruct (zoned_last ds z Hne Hd Hz) as (rest & Hrest & Hhi). rewrite Hrest.
  destruct rest as [|l r]; [contradiction|].
  rewrite zoned_lo by assumption. rewrite text_of_digits by assumption.
  rewrite Hhi, zoned_neg_spec, number_exact by assumption. reflexivity.
Qed.

(* ---------- binary round trip ---------- *)
Lemma from_be_app l b : from_be (l ++ [b]) = 256 * from_be l + b.
Proof. unfold from_be. rewrite fold_left_app. reflexivity. Qed.

Lemma length_to_be w : forall u, length (to_be w u) = w.
Proof. induction w as [|w IH]; intros u; cbn [to_be]; [reflexivity|]. rewrite app_length, IH. cbn. lia. Qed.

Lemma from_to_be w : forall u, from_be (to_be w u) = u mod 256 ^ N.of_nat w.
Proof.
  induction w as [|w IH]; intros u.
  - cbn [to_be]. change (N.of_nat 0) with 0. rewrite N.pow_0_r, N.mod_1_r. reflexivity.
  - cbn [to_be]. rewrite from_be_app, IH, Nat2N.inj_succ, N.pow_succ_r'.
    rewrite N.mod_mul_r by (try apply N.pow_nonzero; lia). lia.
Qed.

Lemma signed_roundtrip_2 v : (- 32768 <= v < 32768)%Z -> signed_be 2 (enc_be 2 v) = v.
Proof.
  intros Hv. unfold signed_be, enc_be. rewrite from_to_be.
  change (256 ^ N.of_nat 2) with 65536. change (2 ^ (8 * N.of_nat 2 - 1)) with 32768.
  change (2 ^ (8 * Z.of_nat 2))%Z with 65536%Z.
  destruct (_ <? _) eqn:E; lia.
Qed.

Lemma signed_roundtrip_4 v : (- 2147483648 <= v < 2147483648)%Z -> signed_be 4 (enc_be 4 v) = v.
Proof.
  intros Hv. unfold signed_be, enc_be. rewrite from_to_be.
  change (256 ^ N.of_nat 4) with 4294967296. change (2 ^ (8 * N.of_nat 4 - 1)) with 2147483648.
  change (2 ^ (8 * Z.of_nat 4))%Z with 4294967296%Z.
  destruct (_ <? _) eqn:E; lia.
Qed.

Lemma signed_roundtrip_8 v : (- 9223372036854775808 <= v < 9223372036854775808)%Z -> signed_be 8 (enc_be 8 v) = v.
Proof.
  intros Hv. unfold signed_be, enc_be. rewrite from_to_be.
  change (256 ^ N.of_nat 8) with 18446744073709551616. change (2 ^ (8 * N.of_nat 8 - 1)) with 9223372036854775808.
  change (2 ^ (8 * Z.of_nat 8))%Z with 18446744073709551616%Z.
  destruct (_ <? _) eqn:E; lia.
Qed.

Lemma signed_roundtrip w v : (w = 2 \/ w = 4 \/ w = 8)%nat ->
  (- 2 ^ (8 * Z.of_nat w - 1) <= v < 2 ^ (8 * Z.of_nat w - 1))%Z -> signed_be w (enc_be w v) = v.
Proof.
  intros [ -> | [ -> | -> ] ] H.
  - apply signed_roundtrip_2. exact H.
  - apply signed_roundtrip_4. exact H.
  - apply signed_roundtrip_8. exact H.
Qed.

(* the decoder's width is the width the property lists, for every picture with 1..18 digits *)
Lemma bin_width_spec p w : spec_binary_width (p_int p + p_frac p) = Some w ->
  bin_width bin_t1 bin_t2 bin_t3 bin_t3_inclusive bin_counts_fraction p = Some w.
Proof.
  unfold spec_binary_width, bin_width, bin_t1, bin_t2, bin_t3, bin_t3_inclusive, bin_counts_fraction.
  intros H.
  destruct (p_int p + p_frac p <? 1)%nat eqn:E1; [discriminate|].
  destruct (p_int p + p_frac p <=? 4)%nat eqn:E2.
  { injection H as <-. replace (N.of_nat (p_int p) + N.of_nat (p_frac p) <? 5) with true by lia. reflexivity. }
  destruct (p_int p + p_frac p <=? 9)%nat eqn:E3.
  { injection H as <-. replace (N.of_nat (p_int p) + N.of_nat (p_frac p) <? 5) with false by lia.
    replace ((5 <=? N.of_nat (p_int p) + N.of_nat (p_frac p)) && (N.of_nat (p_int p) + N.of_nat (p_frac p) <? 10)) with true by lia.
    reflexivity. }
  destruct (p_int p + p_frac p <=? 18)%nat eqn:E4; [|discriminate].
  injection H as <-. replace (N.of_nat (p_int p) + N.of_nat (p_frac p) <? 5) with false by lia.
  replace ((5 <=? N.of_nat (p_int p) + N.of_nat (p_frac p)) && (N.of_nat (p_int p) + N.of_nat (p_frac p) <? 10)) with false by lia.
  replace ((10 <=? N.of_nat (p_int p) + N.of_nat (p_frac p)) && (N.of_nat (p_int p) + N.of_nat (p_frac p) <=? 18)) with true by lia.
  reflexivity.
Qed.

Lemma spec_binary_width_cases d w : spec_binary_width d = Some w -> (w = 2 \/ w = 4 \/ w = 8)%nat.
Proof.
  unfold spec_binary_width. destruct (d <? 1)%nat; [discriminate|].
  destruct (d <=? 4)%nat; [intros H; injection H as <-; auto|].
  destruct (d <=? 9)%nat; [intros H; injection H as <-; auto|].
  destruct (d <=? 18)%nat; [intros H; injection H as <-; auto|discriminate].
Qed.

Lemma unpack_binary_roundtrip p w v :
  spec_binary_width (p_int p + p_frac p) = Some w ->
  (- 2 ^ (8 * Z.of_nat w - 1) <= v < 2 ^ (8 * Z.of_nat w - 1))%Z ->
  unpack_binary_int p (enc_be w v) = Ok (VInt v).
Proof.
  intros Hw Hv. unfold unpack_binary_int. rewrite (bin_width_spec p w Hw).
  unfold enc_be. rewrite length_to_be, Nat.eqb_refl. fold (enc_be w v).
  rewrite signed_roundtrip; [reflexivity|apply (spec_binary_width_cases _ _ Hw)|exact Hv].
Qed.

(* ---------- the usage spellings of the property reach the right decoder ---------- *)
Lemma usage_packed u : In u packed_spellings -> mem u unpack_display = false /\ mem u unpack_packed = true.
Proof. unfold packed_spellings. cbn [In]. intros [<-|[<-|[<-|[]]]]; split; reflexivity. Qed.

Lemma usage_binary u : In u binary_spellings ->
  mem u unpack_display = false /\ mem u unpack_packed = false /\ mem u unpack_binary = true.
Proof. unfold binary_spellings. cbn [In]. intros [<-|[<-|[<-|[<-|[<-|[]]]]]]; repeat split; reflexivity. Qed.

Lemma usage_display : mem display_spelling unpack_display = true.
Proof. reflexivity. Qed.

Lemma C02_packed u p ds s :
  In u packed_spellings -> forallb is_digit ds = true -> valid_sign s = true -> (length ds <= 28)%nat ->
  unpack u p (enc_packed ds s) = Ok (VDec (mkdec (is_neg_sign s) (val ds) (- Z.of_nat (p_frac p)))).
Proof.
  intros Hu Hd Hs Hl. destruct (usage_packed u Hu) as [H1 H2]. unfold unpack. rewrite H1, H2.
  apply unpack_packed_roundtrip; [assumption|assumption|].
  pose proof (val_bound ds Hd) as Hb. unfold limit, prec.
  eapply N.lt_le_trans; [exact Hb|]. apply N.pow_le_mono_r; lia.
Qed.

Lemma C02_zoned p ds z :
  ds <> [] -> forallb is_digit ds = true -> valid_sign z = true -> (length ds <= 28)%nat ->
  unpack display_spelling p (enc_zoned ds z) = Ok (VDec (mkdec (is_neg_sign z) (val ds) (- Z.of_nat (p_frac p)))).
Proof.
  intros Hne Hd Hs Hl. unfold unpack. rewrite usage_display.
  apply unpack_zoned_roundtrip; [assumption|assumption|assumption|].
  pose proof (val_bound ds Hd) as Hb. unfold limit, prec.
  eapply N.lt_le_trans; [exact Hb|]. apply N.pow_le_mono_r; lia.
Qed.

Lemma C02_binary u p w v :
  In u binary_spellings -> spec_binary_width (p_int p + p_frac p) = Some w ->
  (- 2 ^ (8 * Z.of_nat w - 1) <= v < 2 ^ (8 * Z.of_nat w - 1))%Z ->
  unpack u p (enc_be w v) = Ok (VInt v).
Proof.
  intros Hu Hw Hv. destruct (usage_binary u Hu) as (H1 & H2 & H3). unfold unpack. rewrite H1, H2, H3.
  apply unpack_binary_roundtrip; assumption.
Qed.

(* ---------- text ---------- *)
(* the codec the source names IS code page 037 *)
Lemma codec_is_cp037 : text_table = cp037_table.
Proof. vm_compute. reflexivity. Qed.

Lemma text_decode_cp037 b : text_decode b = cp037 b.
Proof. unfold text_decode, cp037. rewrite codec_is_cp037. reflexivity. Qed.

Lemma C02_text k buffer : length buffer = k ->
  unpack_x display_spelling k buffer = Ok (VStr (map cp037 buffer)).
Proof.
  intros <-. unfold unpack_x. rewrite usage_display. unfold unpack_text.
  rewrite (map_ext _ _ text_decode_cp037).
  rewrite map_length, Nat.leb_refl. replace text_dotall with true by reflexivity. reflexivity.
Qed.

Fixpoint nodupb (l : list N) : bool :=
  match l with [] => true | x :: t => negb (existsb (N.eqb x) t) && nodupb t end.

Lemma nodupb_NoDup l : nodupb l = true -> NoDup l.
Proof.
  induction l as [|x t IH]; intros H; [constructor|].
  cbn [nodupb] in H. apply andb_true_iff in H. destruct H as [Hx Ht].
  constructor; [|apply IH; exact Ht].
  intros Hin. apply negb_true_iff in Hx.
  assert (existsb (N.eqb x) t = true) by (apply existsb_exists; exists x; split; [exact Hin|apply N.eqb_refl]).
  congruence.
Qed.

Lemma cp037_table_nodup : NoDup cp037_table /\ length cp037_table = 256%nat.
Proof. split; [apply nodupb_NoDup; vm_compute; reflexivity|reflexivity]. Qed.

Lemma cp037_injective a b : a < 256 -> b < 256 -> cp037 a = cp037 b -> a = b.
Proof.
  intros Ha Hb H. unfold cp037 in H. destruct cp037_table_nodup as [Hnd Hlen].
  rewrite (NoDup_nth cp037_table 65533) in Hnd. apply N2Nat.inj. apply Hnd; [lia|lia|exact H].
Qed.

Lemma cp037_list_injective x : forall y, forallb (fun b => b <? 256) x = true -> forallb (fun b => b <? 256) y = true ->
  map cp037 x = map cp037 y -> x = y.
Proof.
  induction x as [|a t IH]; intros [|b u] Hx Hy H; try discriminate; [reflexivity|].
  cbn [map] in H. injection H as H1 H2. cbn [forallb] in Hx, Hy.
  apply andb_true_iff in Hx. destruct Hx as [Ha Ht]. apply andb_true_iff in Hy. destruct Hy as [Hb Hu].
  f_equal; [apply cp037_injective; lia|apply IH; assumption].
Qed.

(* =================== C18: any bytes of the field's width: an error or a number that fits =================== *)
Require Import SR.Spec.Fits.

Lemma split_nibbles_length bs : length (split_nibbles bs) = (2 * length bs)%nat.
Proof. induction bs as [|b t IH]; cbn [split_nibbles length]; [reflexivity|]. rewrite IH. lia. Qed.

Lemma all_digits_or_bad ds : existsb (fun d => 9 <? d) ds = false -> forallb is_digit ds = true.
Proof.
  induction ds as [|d t IH]; intros H; [reflexivity|].
  cbn [existsb] in H. apply orb_false_iff in H. destruct H as [Hd Ht].
  cbn [forallb]. rewrite (IH Ht). unfold is_digit. lia.
Qed.

Lemma existsb_map_lo bs : existsb (fun d => 9 <? d) (map lo bs) = existsb (fun b => 9 <? lo b) bs.
Proof. induction bs as [|b t IH]; [reflexivity|]. cbn [map existsb]. rewrite IH. reflexivity. Qed.

Lemma fits_number negative ds m n :
  forallb is_digit ds = true -> (length ds <= m + n)%nat -> (m + n <= 28)%nat ->
  fits m n (number negative ds n) = true.
Proof.
  intros Hd Hl Hb. pose proof (val_bound ds Hd) as Hv.
  assert (Hle : 10 ^ N.of_nat (length ds) <= 10 ^ N.of_nat (m + n)) by (apply N.pow_le_mono_r; lia).
  assert (Hlim : 10 ^ N.of_nat (m + n) <= limit) by (unfold limit, prec; apply N.pow_le_mono_r; lia).
  rewrite number_exact by lia. unfold fits. cbn [coef dexp]. rewrite Z.eqb_refl. cbn [andb]. lia.
Qed.

Lemma packed_fits_or_error p buffer :
  (1 <= p_int p + p_frac p <= 28)%nat ->
  length buffer = spec_packed_width (p_int p + p_frac p) ->
  pad_nibble_set p buffer = false ->
  match unpack_packed_dec p buffer with
  | Err _ => True
  | Ok (VDec d) => fits (p_int p) (p_frac p) d = true
  | Ok _ => False
  end.
Proof.
  intros Hmn Hlen Hpad. unfold unpack_packed_dec.
  destruct (rev (split_nibbles buffer)) as [|sign_half rdigits] eqn:Hrev; [exact I|].
  assert (Hnib : split_nibbles buffer = rev rdigits ++ [sign_half]).
  { rewrite <- (rev_involutive (split_nibbles buffer)), Hrev. reflexivity. }
  assert (Hdl : S (length (rev rdigits)) = (2 * length buffer)%nat).
  { rewrite <- split_nibbles_length, Hnib, app_length. cbn [length]. lia. }
  replace packed_check_digits with true by reflexivity. cbn [andb].
  destruct (existsb (fun d => 9 <? d) (rev rdigits)) eqn:Hbad; [exact I|].
  pose proof (all_digits_or_bad _ Hbad) as Hd.
  destruct (rev rdigits) as [|d0 dt] eqn:Hds; [exact I|].
  rewrite text_of_digits by exact Hd.
  unfold spec_packed_width in Hlen.
  destruct (Nat.even (p_int p + p_frac p)) eqn:Heven.
  - (* even digit count: the first nibble is the pad nibble and is zero outside the known family *)
    destruct buffer as [|b bt]; [cbn in Hlen; lia|].
    unfold pad_nibble_set in Hpad. rewrite Heven in Hpad. cbn [andb] in Hpad.
    apply negb_false_iff, N.eqb_eq in Hpad.
    cbn [split_nibbles] in Hnib. cbn [app] in Hnib. injection Hnib as Hd0 _. subst d0. rewrite Hpad.
    unfold number. rewrite val_zero_cons. fold (number (mem sign_half packed_neg) dt (p_frac p)).
    cbn [forallb] in Hd. apply andb_true_iff in Hd. destruct Hd as [_ Hdt].
    apply fits_number; [exact Hdt| |lia].
    apply Nat.even_spec in Heven. destruct Heven as [k Hk]. cbn [length] in Hdl, Hlen.
    lia.
  - apply fits_number; [exact Hd| |lia].
    assert (Hodd : Nat.odd (p_int p + p_frac p) = true) by (rewrite <- Nat.negb_even, Heven; reflexivity).
    apply Nat.odd_spec in Hodd. destruct Hodd as [k Hk]. lia.
Qed.

Lemma zoned_fits_or_error p buffer :
  (1 <= p_int p + p_frac p <= 27)%nat ->
  length buffer = spec_display_width (p_signed p) (p_int p + p_frac p) ->
  sign_position_set p buffer = false ->
  match unpack_zoned p buffer with
  | Err _ => True
  | Ok (VDec d) => fits (p_int p) (p_frac p) d = true
  | Ok _ => False
  end.
Proof.
  intros Hmn Hlen Hsp. unfold unpack_zoned. replace zoned_check_digits with true by reflexivity. cbn [andb].
  destruct (existsb (fun b => 9 <? lo b) buffer) eqn:Hbad; [exact I|].
  destruct (rev buffer) as [|last rest] eqn:Hrev; [exact I|].
  assert (Hd : forallb is_digit (map lo buffer) = true).
  { apply all_digits_or_bad. rewrite existsb_map_lo. exact Hbad. }
  rewrite text_of_digits by exact Hd. unfold spec_display_width in Hlen.
  destruct (p_signed p) eqn:Hs.
  - destruct buffer as [|b bt]; [cbn in Hlen; lia|].
    unfold sign_position_set in Hsp. rewrite Hs in Hsp. cbn [andb] in Hsp.
    apply negb_false_iff, N.eqb_eq in Hsp. cbn [map]. rewrite Hsp.
    unfold number. rewrite val_zero_cons. fold (number (mem (hi last) zoned_neg) (map lo bt) (p_frac p)).
    cbn [map forallb] in Hd. apply andb_true_iff in Hd. destruct Hd as [_ Hdt].
    apply fits_number; [exact Hdt| |lia]. rewrite map_length. cbn [length] in Hlen. lia.
  - apply fits_number; [exact Hd| |lia]. rewrite map_length. lia.
Qed.

Lemma C18_packed_lemma u p buffer :
  In u packed_spellings -> (1 <= p_int p + p_frac p <= 28)%nat ->
  length buffer = spec_packed_width (p_int p + p_frac p) ->
  pad_nibble_set p buffer = false ->
  (exists e, unpack u p buffer = Err e) \/
  (exists d, unpack u p buffer = Ok (VDec d) /\ fits (p_int p) (p_frac p) d = true).
Proof.
  intros Hu Hmn Hlen Hpad. destruct (usage_packed u Hu) as [H1 H2]. unfold unpack. rewrite H1, H2.
  pose proof (packed_fits_or_error p buffer Hmn Hlen Hpad) as H.
  destruct (unpack_packed_dec p buffer) as [[d|z|s]|e]; [right; exists d; auto|contradiction|contradiction|left; exists e; reflexivity].
Qed.

Lemma C18_zoned_lemma p buffer :
  (1 <= p_int p + p_frac p <= 27)%nat ->
  length buffer = spec_display_width (p_signed p) (p_int p + p_frac p) ->
  sign_position_set p buffer = false ->
  (exists e, unpack display_spelling p buffer = Err e) \/
  (exists d, unpack display_spelling p buffer = Ok (VDec d) /\ fits (p_int p) (p_frac p) d = true).
Proof.
  intros Hmn Hlen Hsp. unfold unpack. rewrite usage_display.
  pose proof (zoned_fits_or_error p buffer Hmn Hlen Hsp) as H.
  destruct (unpack_zoned p buffer) as [[d|z|s]|e]; [right; exists d; auto|contradiction|contradiction|left; exists e; reflexivity].
Qed.

(* 12 34 5C in S9(4) COMP-3 decodes to 12345: five digits in a four-digit field *)
Lemma C18_pad_nibble_witness :
  ~ (forall (u : N) (p : pic) (buffer : list N),
    (In u packed_spellings /\ length buffer = spec_packed_width (p_int p + p_frac p) \/
     u = display_spelling /\ length buffer = spec_display_width (p_signed p) (p_int p + p_frac p)) ->
    (1 <= p_int p + p_frac p <= 27)%nat ->
    (exists e, unpack u p buffer = Err e) \/
    (exists d, unpack u p buffer = Ok (VDec d) /\ fits (p_int p) (p_frac p) d = true)).
Proof.
  intros H. specialize (H 8 (mkpic true 4 0) [18; 52; 92]).
  destruct H as [[e He]|[d [Hd Hf]]]; [left; split; [cbn; auto|reflexivity]|cbn; lia| |].
  - vm_compute in He. discriminate.
  - vm_compute in Hd. injection Hd as <-. vm_compute in Hf. discriminate.
Qed.

(* F1 F2 F3 in S99 DISPLAY (three bytes because the S counts) decodes to 123 *)
Lemma C18_sign_position_witness :
  exists p buffer, length buffer = spec_display_width (p_signed p) (p_int p + p_frac p) /\
    exists d, unpack display_spelling p buffer = Ok (VDec d) /\ fits (p_int p) (p_frac p) d = false.
Proof. exists (mkpic true 2 0), [241; 242; 243]. split; [reflexivity|]. eexists. split; vm_compute; reflexivity. Qed.

(* =================== C04: complete enumeration of the finite configuration space =================== *)
Require Import SR.Spec.SizeCfg.

Lemma cfgs_count : length cfgs = 4914%nat.
Proof. vm_compute. reflexivity. Qed.

Lemma C04_enumeration : forallb (fun c => Bool.eqb (is_none (known_bad_C04 c)) (cfg_ok c)) cfgs = true.
Proof. vm_compute. reflexivity. Qed.

Lemma C04_all_lemma c : In c cfgs -> known_bad_C04 c = None -> cfg_ok c = true.
Proof.
  intros Hin Hk. pose proof C04_enumeration as H. rewrite forallb_forall in H.
  specialize (H c Hin). rewrite Hk in H. cbn [is_none] in H. apply eqb_prop in H. symmetry. exact H.
Qed.

Lemma C04_known_bad_lemma c k : In c cfgs -> known_bad_C04 c = Some k -> cfg_ok c = false.
Proof.
  intros Hin Hk. pose proof C04_enumeration as H. rewrite forallb_forall in H.
  specialize (H c Hin). rewrite Hk in H. cbn [is_none] in H. apply eqb_prop in H. symmetry. exact H.
Qed.

Lemma cfgs_complete u s m n : (u < 13)%N -> (1 <= m + n <= 18)%nat -> In (u, s, m, n) cfgs.
Proof.
  intros Hu Hmn. unfold cfgs. apply in_flat_map. exists (N.to_nat u). split; [apply in_seq; lia|].
  apply in_flat_map. exists s. split; [destruct s; cbn; auto|].
  apply in_map_iff. exists (m, n). split; [cbn [fst snd]; rewrite N2Nat.id; reflexivity|].
  unfold digit_pairs. apply in_flat_map. exists m. split; [apply in_seq; lia|].
  apply in_map_iff. exists n. split; [reflexivity|]. apply in_seq.
  destruct (m =? 0)%nat eqn:E; [apply Nat.eqb_eq in E|apply Nat.eqb_neq in E]; lia.
Qed.
