From Coq Require Import ZArith NArith List Bool Lia Arith ZifyBool ZifyN ZifyNat.
Import ListNotations.
Require Import SR.Base.Res SR.Spec.Conversion SR.Gen.ConversionParams SR.Gen.ConversionBodyParams SR.Model.Conversion.
Open Scope Z_scope.
Ltac Zify.zify_post_hook ::= Z.to_euclidean_division_equations.

(* ================= what the regenerated body parameters say =================

   Model/Conversion.v is parameterised by Gen/ConversionBodyParams.v, which harness/t1_c16.py writes
   from the bodies of digit_string and decimal_places in the source under test.  The lemmas of this
   section state the shape the rest of this file is about; they hold by computation for the
   parameter values of the unchanged source and fail to compile for any other value
   (str(value) instead of str(int(value)), another padding, another slice, another quantum exponent, a
   detour through repr/str/float, a rounding argument other than ROUND_HALF_EVEN, a context argument,
   another binding of digits_5 / decimal_2).  Nothing below this section mentions a parameter. *)

Definition zeros (n : nat) : list N := repeat 48%N n.

(* s[-size:] *)
Definition py_last (size : nat) (s : list N) : list N :=
  match size with
  | O => s
  | _ => skipn (length s - size) s
  end.

Lemma pre_text_int x : pre_text ds_pre x = str_int (int_of_dec x).
Proof. reflexivity. Qed.

Lemma padding_zeros n : padding ds_pad_char ds_pad_extra n = zeros n.
Proof. unfold padding, zeros, ds_pad_char, ds_pad_extra. rewrite Z.add_0_r, Nat2Z.id. reflexivity. Qed.

Lemma padded_left pad s : padded ds_pad_side pad s = pad ++ s.
Proof. reflexivity. Qed.

Lemma py_slice_last n s : py_slice n ds_slice_lo ds_slice_hi s = py_last n s.
Proof.
  unfold py_slice, py_last, ds_slice_lo, ds_slice_hi, py_index. rewrite firstn_all.
  destruct n; reflexivity.
Qed.

(* digit_string(size, value) = (size * "0" + str(int(value)))[-size:] *)
Lemma digit_string_shape n x :
  digit_string n x = bind (str_int (int_of_dec x)) (fun s => Ok (py_last n (zeros n ++ s))).
Proof.
  unfold digit_string, digit_string_with. rewrite pre_text_int.
  destruct (str_int (int_of_dec x)) as [s|e]; cbn [bind]; [|reflexivity].
  rewrite padded_left, padding_zeros, py_slice_last. reflexivity.
Qed.

(* decimal_places(digits, value) = Decimal(value).quantize(Decimal(1).scaleb(-digits)) *)
Lemma decimal_places_shape d x : decimal_places d x = bind (quantum_exp d) (quantize x).
Proof. reflexivity. Qed.

(* no rounding argument: the default context rounds half to even *)
Lemma round_div_default sneg c p : round_div dp_rounding sneg c p = round_half_even c p.
Proof. reflexivity. Qed.

(* Decimal(b).scaleb(-digits) for an integer literal b of at most 28 digits (today b = 1): quantize
   reads only the exponent of its argument, so the lemmas below do not depend on which b it is *)
Lemma quantum_shape : exists b : N, dp_quantum = QScaleb b (-1) 0 /\ 0 <= Z.of_N b < 10 ^ 28.
Proof. eexists. split; [reflexivity|]. split; [apply N2Z.is_nonneg|reflexivity]. Qed.

(* digits_5 = partial(digit_string, 5); decimal_2 = partial(decimal_places, 2) *)
Lemma digits_5_is x : digits_5 x = bind (digit_string 5 x) (fun s => Ok (inl s)).
Proof. reflexivity. Qed.

Lemma decimal_2_is x : decimal_2 x = bind (decimal_places 2 x) (fun r => Ok (inr r)).
Proof. reflexivity. Qed.

(* ================= digit strings ================= *)

Lemma pow10_pos k : 0 < 10 ^ k \/ 10 ^ k = 0.
Proof.
  destruct (Z_lt_le_dec k 0) as [H|H].
  - right. apply Z.pow_neg_r. exact H.
  - left. apply Z.pow_pos_nonneg; lia.
Qed.

Lemma pow10_gt0 k : 0 <= k -> 0 < 10 ^ k.
Proof. intros. apply Z.pow_pos_nonneg; lia. Qed.

Lemma pow10_S (n : nat) : 10 ^ Z.of_nat (S n) = 10 * 10 ^ Z.of_nat n.
Proof. rewrite Nat2Z.inj_succ. apply Z.pow_succ_r. lia. Qed.

Lemma fold_dstep s : forall a, fold_left dstep s a = a * 10 ^ Z.of_nat (length s) + dval s.
Proof.
  unfold dval. induction s as [|c t IH]; intros a.
  - cbn [fold_left length]. change (10 ^ Z.of_nat 0) with 1. lia.
  - cbn [fold_left length]. rewrite (IH (dstep a c)), (IH (dstep 0 c)), pow10_S.
    unfold dstep. ring.
Qed.

Lemma dval_app a b : dval (a ++ b) = dval a * 10 ^ Z.of_nat (length b) + dval b.
Proof. unfold dval at 1. rewrite fold_left_app. fold (dval a). apply fold_dstep. Qed.

Lemma dval_cons c t : dval (c :: t) = (Z.of_N c - 48) * 10 ^ Z.of_nat (length t) + dval t.
Proof. unfold dval at 1. cbn [fold_left]. rewrite fold_dstep. unfold dstep. ring. Qed.

Lemma is_digit_range c : is_digit c = true -> 0 <= Z.of_N c - 48 <= 9.
Proof. unfold is_digit. lia. Qed.

Lemma dval_range s : forallb is_digit s = true -> 0 <= dval s < 10 ^ Z.of_nat (length s).
Proof.
  induction s as [|c t IH]; intros H.
  - cbn. lia.
  - cbn [forallb] in H. apply andb_prop in H. destruct H as [Hc Ht].
    specialize (IH Ht). apply is_digit_range in Hc.
    rewrite dval_cons. cbn [length]. rewrite pow10_S.
    set (p := 10 ^ Z.of_nat (length t)) in *. nia.
Qed.

Lemma digs_S f v :
  digs (S f) v = if v <? 10 then [Z.to_N (48 + v)] else digs f (v / 10) ++ [Z.to_N (48 + v mod 10)].
Proof. reflexivity. Qed.

Lemma dval_single v : 0 <= v < 10 -> dval [Z.to_N (48 + v)] = v.
Proof. intros H. unfold dval, dstep. cbn [fold_left]. lia. Qed.

Lemma is_digit_single v : 0 <= v < 10 -> is_digit (Z.to_N (48 + v)) = true.
Proof. intros H. unfold is_digit. lia. Qed.

(* the decimal printer: all digits, the right value, no more digits than needed *)
Lemma digs_spec f : forall v, 0 <= v < 10 ^ Z.of_nat (S f) ->
  forallb is_digit (digs (S f) v) = true /\
  dval (digs (S f) v) = v /\
  (forall n : nat, (1 <= n)%nat -> v < 10 ^ Z.of_nat n -> (length (digs (S f) v) <= n)%nat).
Proof.
  induction f as [|f IH]; intros v Hv; rewrite digs_S.
  - change (10 ^ Z.of_nat 1) with 10 in Hv.
    destruct (v <? 10) eqn:E; [|lia].
    repeat split.
    + cbn [forallb]. rewrite is_digit_single; [reflexivity|lia].
    + apply dval_single. lia.
    + intros n Hn _. cbn [length]. lia.
  - destruct (v <? 10) eqn:E.
    + repeat split.
      * cbn [forallb]. rewrite is_digit_single; [reflexivity|lia].
      * apply dval_single. lia.
      * intros n Hn _. cbn [length]. lia.
    + assert (Hv10 : 10 <= v) by lia.
      rewrite pow10_S in Hv.
      assert (Hq : 0 <= v / 10 < 10 ^ Z.of_nat (S f)) by lia.
      destruct (IH (v / 10) Hq) as (Hd & Hval & Hlen).
      assert (Hm : 0 <= v mod 10 < 10) by lia.
      repeat split.
      * rewrite forallb_app, Hd. cbn [forallb]. rewrite is_digit_single; [reflexivity|exact Hm].
      * rewrite dval_app, Hval. cbn [length]. change (10 ^ Z.of_nat 1) with 10.
        rewrite dval_single; [lia|exact Hm].
      * intros n Hn Hvn. rewrite app_length. cbn [length].
        destruct n as [|[|n]]; [lia| change (10 ^ Z.of_nat 1) with 10 in Hvn; lia |].
        rewrite pow10_S in Hvn.
        assert (Hl : (length (digs (S f) (v / 10)) <= S n)%nat) by (apply Hlen; lia).
        lia.
Qed.

Lemma str_nonneg_fuel v : 0 <= v -> v < 10 ^ Z.of_nat (S (Z.to_nat (Z.log2 v))).
Proof.
  intros Hv.
  assert (Hl : 0 <= Z.log2 v) by apply Z.log2_nonneg.
  replace (Z.of_nat (S (Z.to_nat (Z.log2 v)))) with (Z.succ (Z.log2 v)) by lia.
  destruct (Z.eq_dec v 0) as [->|Hnz].
  - change (Z.log2 0) with 0. change (10 ^ Z.succ 0) with 10. lia.
  - assert (H2 : v < 2 ^ Z.succ (Z.log2 v)) by (apply Z.log2_spec; lia).
    assert (H10 : 2 ^ Z.succ (Z.log2 v) <= 10 ^ Z.succ (Z.log2 v)) by (apply Z.pow_le_mono_l; lia).
    lia.
Qed.

Lemma str_nonneg_spec v : 0 <= v ->
  forallb is_digit (str_nonneg v) = true /\
  dval (str_nonneg v) = v /\
  (forall n : nat, (1 <= n)%nat -> v < 10 ^ Z.of_nat n -> (length (str_nonneg v) <= n)%nat).
Proof.
  intros Hv. unfold str_nonneg. apply digs_spec. split; [exact Hv|apply str_nonneg_fuel; exact Hv].
Qed.

Lemma too_long_false v : 0 <= v < 10 ^ max_str_digits -> too_long v = false.
Proof.
  intros [H0 H1]. unfold too_long. rewrite (Z.abs_eq v H0).
  destruct (Z.log2 v <? 14284); [reflexivity|].
  apply Z.leb_gt. exact H1.
Qed.

(* the shortcut in [too_long] is sound: it is exactly the test for more than 4300 digits *)
Lemma too_long_exact v : too_long v = (10 ^ max_str_digits <=? Z.abs v).
Proof.
  unfold too_long. destruct (Z.log2 (Z.abs v) <? 14284) eqn:E; [|reflexivity].
  symmetry. apply Z.leb_gt.
  assert (H2 : 2 ^ 14284 <= 10 ^ max_str_digits) by (apply Z.leb_le; vm_compute; reflexivity).
  apply Z.lt_le_trans with (2 ^ 14284); [|exact H2].
  destruct (Z.eq_dec (Z.abs v) 0) as [->|Hnz].
  - apply Z.pow_pos_nonneg; [reflexivity|discriminate].
  - apply Z.log2_lt_pow2; [pose proof (Z.abs_nonneg v); lia|apply Z.ltb_lt; exact E].
Qed.

Lemma str_int_nonneg v : 0 <= v < 10 ^ max_str_digits -> str_int v = Ok (str_nonneg v).
Proof.
  intros H. unfold str_int. rewrite (too_long_false v H).
  destruct (v <? 0) eqn:E; [lia|reflexivity].
Qed.

Lemma dval_zeros n : dval (zeros n) = 0.
Proof.
  induction n as [|n IH]; [reflexivity|].
  unfold zeros in *. cbn [repeat]. rewrite dval_cons, IH. lia.
Qed.

Lemma digits_zeros n : forallb is_digit (zeros n) = true.
Proof. induction n as [|n IH]; [reflexivity|]. unfold zeros in *. cbn [repeat forallb]. rewrite IH. reflexivity. Qed.

Lemma length_zeros n : length (zeros n) = n.
Proof. apply repeat_length. Qed.

(* the last n characters of a string of at least n digits denote its value modulo 10^n *)
Lemma py_last_spec (n : nat) l : (1 <= n)%nat -> (n <= length l)%nat -> forallb is_digit l = true ->
  length (py_last n l) = n /\ forallb is_digit (py_last n l) = true /\
  dval (py_last n l) = dval l mod 10 ^ Z.of_nat n.
Proof.
  intros Hn Hlen Hd.
  assert (E : py_last n l = skipn (length l - n) l) by (destruct n; [lia|reflexivity]).
  rewrite E. set (k := (length l - n)%nat).
  assert (Hl : length (skipn k l) = n) by (rewrite skipn_length; lia).
  pose proof (firstn_skipn k l) as Hsplit.
  rewrite <- Hsplit in Hd. rewrite forallb_app in Hd. apply andb_prop in Hd. destruct Hd as [Hd1 Hd2].
  pose proof (dval_range _ Hd1) as R1. pose proof (dval_range _ Hd2) as R2. rewrite Hl in R2.
  repeat split; [exact Hl|exact Hd2|].
  rewrite <- Hsplit at 2. rewrite dval_app, Hl.
  apply Z.mod_unique_pos with (q := dval (firstn k l)); [exact R2|ring].
Qed.

(* digit_string on the integer it was given *)
Lemma digit_string_int (n : nat) (x : dec) v :
  (1 <= n)%nat -> int_of_dec x = v -> 0 <= v < 10 ^ max_str_digits ->
  exists s, digit_string n x = Ok s /\ length s = n /\ forallb is_digit s = true /\
            dval s = v mod 10 ^ Z.of_nat n.
Proof.
  intros Hn Hx Hv. rewrite digit_string_shape, Hx, (str_int_nonneg v Hv). cbn [bind].
  destruct (str_nonneg_spec v (proj1 Hv)) as (Hd & Hval & _).
  eexists. split; [reflexivity|].
  assert (Hdl : forallb is_digit (zeros n ++ str_nonneg v) = true)
    by (rewrite forallb_app, digits_zeros, Hd; reflexivity).
  assert (Hlen : (n <= length (zeros n ++ str_nonneg v))%nat)
    by (rewrite app_length, length_zeros; lia).
  destruct (py_last_spec n _ Hn Hlen Hdl) as (H1 & H2 & H3).
  repeat split; [exact H1|exact H2|].
  rewrite H3, dval_app, dval_zeros, Hval. f_equal.
Qed.

Lemma represents_int x v : represents x v -> int_of_dec x = v.
Proof.
  unfold represents, int_of_dec, sgn.
  destruct (0 <=? dexp x) eqn:E.
  - destruct (neg x); lia.
  - assert (Hp : 0 < 10 ^ (- dexp x)) by (apply pow10_gt0; lia).
    set (p := 10 ^ (- dexp x)) in *. set (c := Z.of_N (coef x)).
    destruct (neg x); intros H.
    + assert (Hc : c = (- v) * p) by lia. rewrite Hc, Z.div_mul by lia. lia.
    + assert (Hc : c = v * p) by lia. rewrite Hc, Z.div_mul by lia. lia.
Qed.

Lemma digit_string_general (n : nat) (x : dec) v :
  (1 <= n)%nat -> represents x v -> 0 <= v < 10 ^ max_str_digits ->
  exists s, digit_string n x = Ok s /\ length s = n /\ forallb is_digit s = true /\
            dval s = v mod 10 ^ Z.of_nat n.
Proof. intros Hn Hr Hv. apply digit_string_int; [exact Hn|apply represents_int; exact Hr|exact Hv]. Qed.

Lemma digit_string_ok (n : nat) (x : dec) v :
  (1 <= n <= 4300)%nat -> represents x v -> 0 <= v < 10 ^ Z.of_nat n ->
  exists s, digit_string n x = Ok s /\ digits_ok n v s = true.
Proof.
  intros Hn Hr Hv.
  assert (Hmax : 10 ^ Z.of_nat n <= 10 ^ max_str_digits)
    by (apply Z.pow_le_mono_r; [lia|unfold max_str_digits; lia]).
  destruct (digit_string_general n x v) as (s & Hs & Hl & Hd & Hval); [lia|exact Hr|lia|].
  exists s. split; [exact Hs|].
  unfold digits_ok. rewrite Hd, Hl, Nat.eqb_refl. cbn [andb].
  apply Z.eqb_eq. rewrite Hval. apply Z.mod_small. exact Hv.
Qed.

Lemma integer_of_represents x v : integer_of x = Some v <-> represents x v.
Proof.
  unfold integer_of, represents, sgn.
  destruct (0 <=? dexp x) eqn:E.
  - split; [intros H; injection H as <-; reflexivity|intros <-; reflexivity].
  - assert (Hp : 0 < 10 ^ (- dexp x)) by (apply pow10_gt0; lia).
    set (p := 10 ^ (- dexp x)) in *. set (c := Z.of_N (coef x)).
    split.
    + destruct (c mod p =? 0) eqn:Em; [|discriminate].
      intros H. injection H as <-.
      assert (Hc : c = p * (c / p)) by (pose proof (Z.div_mod c p); lia).
      destruct (neg x); lia.
    + intros H.
      assert (Hc : c = (if neg x then - v else v) * p) by (destruct (neg x); lia).
      rewrite Hc, Z.mod_mul, Z.div_mul by lia. cbn [Z.eqb]. destruct (neg x); f_equal; lia.
Qed.

(* ================= decimal places ================= *)

Lemma round_half_even_spec c p : 0 <= c -> 0 < p ->
  let q := round_half_even c p in
  0 <= q /\ 2 * (q * p) <= 2 * c + p /\ 2 * c <= 2 * (q * p) + p.
Proof.
  intros Hc Hp. unfold round_half_even.
  assert (Hq : 0 <= c / p) by (apply Z.div_pos; lia).
  pose proof (Z.div_mod c p ltac:(lia)) as Hdm.
  pose proof (Z.mod_pos_bound c p Hp) as Hr.
  set (q0 := c / p) in *. set (r := c mod p) in *.
  assert (Hqp : q0 * p = c - r) by lia.
  destruct (2 * r <? p) eqn:E1; [lia|].
  destruct (p <? 2 * r) eqn:E2.
  - replace ((q0 + 1) * p) with (q0 * p + p) by ring. lia.
  - destruct (Z.even q0).
    + lia.
    + replace ((q0 + 1) * p) with (q0 * p + p) by ring. lia.
Qed.

Lemma ndigits_le c (n : nat) : 0 <= c < 10 ^ Z.of_nat n -> (1 <= n)%nat -> 1 <= ndigits c <= Z.of_nat n.
Proof.
  intros Hc Hn. unfold ndigits.
  destruct (str_nonneg_spec c (proj1 Hc)) as (_ & _ & Hlen).
  specialize (Hlen n Hn (proj2 Hc)).
  assert (H1 : (1 <= length (str_nonneg c))%nat).
  { unfold str_nonneg. rewrite digs_S. destruct (c <? 10); [cbn [length]; lia|].
    rewrite app_length. cbn [length]. lia. }
  lia.
Qed.

Lemma quantum_exp_ok d : 0 <= d <= - etiny -> quantum_exp d = Ok (- d).
Proof.
  intros H. destruct quantum_shape as (b & Hq & Hb).
  unfold quantum_exp. rewrite Hq. unfold quantum_exp_with.
  pose proof (ndigits_le (Z.of_N b) 28 Hb ltac:(lia)) as Hn. change (Z.of_nat 28) with 28 in Hn.
  unfold etiny, emax, prec in *.
  destruct ((-1 * d + 0 <? - (2 * (999999 + 28))) || (2 * (999999 + 28) <? -1 * d + 0)) eqn:E1; [lia|].
  destruct (999999 <? -1 * d + 0 + ndigits (Z.of_N b) - 1) eqn:E2; [lia|].
  f_equal. lia.
Qed.

(* for a negative digits argument the number of digits of the literal matters: Decimal(1) has one *)
Lemma quantum_one_digit : exists b : N, dp_quantum = QScaleb b (-1) 0 /\ ndigits (Z.of_N b) = 1.
Proof. eexists. split; reflexivity. Qed.

Lemma quantum_exp_range d : - emax <= d <= - etiny -> quantum_exp d = Ok (- d).
Proof.
  intros H. destruct quantum_one_digit as (b & Hq & Hb).
  unfold quantum_exp. rewrite Hq. unfold quantum_exp_with. rewrite Hb.
  unfold etiny, emax, prec in *.
  destruct ((-1 * d + 0 <? - (2 * (999999 + 28))) || (2 * (999999 + 28) <? -1 * d + 0)) eqn:E1; [lia|].
  destruct (999999 <? -1 * d + 0 + 1 - 1) eqn:E2; [lia|].
  f_equal. lia.
Qed.

(* below -Emax the quantum itself overflows (decimal.Overflow, trapped by the default context), beyond twice
   the exponent range scaleb refuses its argument *)
Lemma quantum_exp_overflow d : - (2 * (emax + prec)) <= d < - emax -> quantum_exp d = Err OtherError.
Proof.
  intros H. destruct quantum_one_digit as (b & Hq & Hb).
  unfold quantum_exp. rewrite Hq. unfold quantum_exp_with. rewrite Hb.
  unfold etiny, emax, prec in *.
  destruct ((-1 * d + 0 <? - (2 * (999999 + 28))) || (2 * (999999 + 28) <? -1 * d + 0)) eqn:E1; [lia|].
  destruct (999999 <? -1 * d + 0 + 1 - 1) eqn:E2; [reflexivity|lia].
Qed.

Lemma quantum_exp_invalid d : d < - (2 * (emax + prec)) \/ 2 * (emax + prec) < d -> quantum_exp d = Err DecimalInvalid.
Proof.
  intros H. destruct quantum_shape as (b & Hq & _).
  unfold quantum_exp. rewrite Hq. unfold quantum_exp_with.
  unfold etiny, emax, prec in *.
  destruct ((-1 * d + 0 <? - (2 * (999999 + 28))) || (2 * (999999 + 28) <? -1 * d + 0)) eqn:E1; [reflexivity|lia].
Qed.

(* above -Etiny the quantum underflows to exponent Etiny: the result has 1000026 fractional digits, not d *)
Lemma quantum_exp_underflow d : - etiny <= d <= 2 * (emax + prec) -> quantum_exp d = Ok etiny.
Proof.
  intros H. destruct quantum_shape as (b & Hq & Hb).
  unfold quantum_exp. rewrite Hq. unfold quantum_exp_with.
  pose proof (ndigits_le (Z.of_N b) 28 Hb ltac:(lia)) as Hn. change (Z.of_nat 28) with 28 in Hn.
  unfold etiny, emax, prec in *.
  destruct ((-1 * d + 0 <? - (2 * (999999 + 28))) || (2 * (999999 + 28) <? -1 * d + 0)) eqn:E1; [lia|].
  destruct (999999 <? -1 * d + 0 + ndigits (Z.of_N b) - 1) eqn:E2; [lia|].
  f_equal. lia.
Qed.

(* number of digits and size *)
Lemma ndigits_gt c : 0 <= c -> c < 10 ^ ndigits c.
Proof.
  intros Hc. unfold ndigits.
  destruct (str_nonneg_spec c Hc) as (Hd & Hval & _).
  pose proof (dval_range _ Hd) as R. rewrite Hval in R. lia.
Qed.

Lemma ndigits_lt_iff c n : 0 <= c -> 1 <= n -> (ndigits c <= n <-> c < 10 ^ n).
Proof.
  intros Hc Hn. split; intros H.
  - apply Z.lt_le_trans with (10 ^ ndigits c); [apply ndigits_gt; exact Hc|].
    apply Z.pow_le_mono_r; [lia|exact H].
  - pose proof (ndigits_le c (Z.to_nat n)) as L. rewrite Z2Nat.id in L by lia.
    apply L; [lia|lia].
Qed.

(* the two last tests of quantize amount to one bound B = 10^p on the coefficient,
   p = min(precision, Emax + 1 - exponent) *)
Lemma tail_ok s q e p : p = Z.min prec (emax + 1 - e) -> 1 <= p -> 0 <= q < 10 ^ p ->
  (if 10 ^ prec <=? q then Err DecimalInvalid else within_emax (mkdec s (Z.to_N q) e)) = Ok (mkdec s (Z.to_N q) e).
Proof.
  intros Hp H1 Hq.
  assert (Hle1 : 10 ^ p <= 10 ^ prec) by (apply Z.pow_le_mono_r; lia).
  assert (Hle2 : 10 ^ p <= 10 ^ (emax + 1 - e)) by (apply Z.pow_le_mono_r; lia).
  destruct (10 ^ prec <=? q) eqn:E1; [lia|].
  unfold within_emax. cbn [dexp coef]. rewrite Z2N.id by lia.
  assert (Hn : ndigits q <= emax + 1 - e) by (apply ndigits_lt_iff; lia).
  destruct (emax <? e + ndigits q - 1) eqn:E2; [lia|reflexivity].
Qed.

Lemma tail_err s q e p : p = Z.min prec (emax + 1 - e) -> 1 <= p -> 10 ^ p <= q ->
  (if 10 ^ prec <=? q then Err DecimalInvalid else within_emax (mkdec s (Z.to_N q) e)) = Err DecimalInvalid.
Proof.
  intros Hp H1 Hq.
  assert (H0 : 0 < 10 ^ p) by (apply pow10_gt0; lia).
  destruct (10 ^ prec <=? q) eqn:E1; [reflexivity|].
  unfold within_emax. cbn [dexp coef]. rewrite Z2N.id by lia.
  destruct (Z.min_spec prec (emax + 1 - e)) as [[_ Hm]|[_ Hm]]; [rewrite Hm in Hp; subst p; lia|].
  rewrite Hm in Hp. subst p.
  assert (Hn : ~ ndigits q <= emax + 1 - e) by (rewrite ndigits_lt_iff; lia).
  destruct (emax <? e + ndigits q - 1) eqn:E2; [reflexivity|lia].
Qed.

(* a value that already has the target exponent and fits is returned unchanged *)
Lemma quantize_fixed s q e p : etiny <= e <= emax -> p = Z.min prec (emax + 1 - e) -> 0 <= q < 10 ^ p ->
  quantize (mkdec s (Z.to_N q) e) e = Ok (mkdec s (Z.to_N q) e).
Proof.
  intros He Hp Hq. unfold quantize, quantize_with. cbn [neg coef dexp].
  assert (H1 : 1 <= p) by (unfold emax, prec in *; lia).
  destruct ((e <? etiny) || (emax <? e)) eqn:G; [lia|].
  rewrite Z2N.id by lia.
  destruct (q =? 0) eqn:E0.
  - assert (q = 0) by lia. subst q. reflexivity.
  - rewrite Z.sub_diag. change (0 <=? 0) with true. cbv iota.
    change (prec <? 0) with false. cbv iota.
    change (10 ^ 0) with 1. rewrite Z.mul_1_r.
    apply (tail_ok s q e p Hp H1 Hq).
Qed.

Lemma sgn_abs (s : bool) (a b : Z) : Z.abs ((if s then -1 else 1) * a - (if s then -1 else 1) * b) = Z.abs (a - b).
Proof. destruct s; lia. Qed.

Lemma digits_allowed_is d : digits_allowed d = Z.min prec (emax + 1 - (- d)).
Proof. unfold digits_allowed, prec, emax. f_equal. lia. Qed.

(* quantize to exponent -d, for every d the default context admits as a target exponent *)
Lemma quantize_ok d x : etiny <= - d <= emax -> fits_ctx d x = true ->
  exists r, quantize x (- d) = Ok r /\ dexp r = - d /\ closeb d x r = true /\ quantize r (- d) = Ok r.
Proof.
  intros He Hfit.
  pose proof (digits_allowed_is d) as Hp.
  set (e := - d) in *. set (p := digits_allowed d) in *.
  assert (H1 : 1 <= p) by (unfold emax, prec in *; lia).
  unfold fits_ctx, common in Hfit. fold e p in Hfit.
  unfold closeb, common, scaled, sgn. fold e.
  unfold quantize at 1. unfold quantize_with. rewrite round_div_default.
  destruct ((e <? etiny) || (emax <? e)) eqn:G; [lia|].
  set (c := Z.of_N (coef x)) in *.
  assert (Hc : 0 <= c) by (unfold c; lia).
  set (B := 10 ^ p) in *.
  assert (HB : 0 < B) by (unfold B; apply pow10_gt0; lia).
  assert (HBp : B <= 10 ^ prec) by (unfold B; apply Z.pow_le_mono_r; lia).
  destruct (c =? 0) eqn:E0.
  - (* zero *)
    eexists. split; [reflexivity|]. cbn [neg coef dexp].
    split; [reflexivity|]. split.
    + assert (c = 0) by lia. replace c with 0 by lia. change (Z.of_N 0) with 0.
      destruct (pow10_pos (e - Z.min (dexp x) e)) as [H2|H2];
        set (u := 10 ^ (e - Z.min (dexp x) e)) in *; set (w := 10 ^ (dexp x - Z.min (dexp x) e));
        destruct (neg x); lia.
    + change 0%N with (Z.to_N 0). apply (quantize_fixed _ 0 e p He Hp). fold B. lia.
  - destruct (0 <=? dexp x - e) eqn:Ek.
    + (* scaled up, exact *)
      assert (Hmin : Z.min (dexp x) e = e) by lia. rewrite Hmin in *.
      rewrite Z.sub_diag in *. change (10 ^ 0) with 1 in *.
      set (k := dexp x - e) in *.
      assert (Hpk : 0 < 10 ^ k) by (apply pow10_gt0; lia).
      assert (Hlt : c * 10 ^ k < B) by lia.
      destruct (prec <? k) eqn:Ep.
      * exfalso.
        assert (H2 : 10 ^ prec < 10 ^ k) by (apply Z.pow_lt_mono_r; unfold prec in *; lia).
        assert (H3 : 10 ^ k <= c * 10 ^ k) by nia. lia.
      * rewrite (tail_ok (neg x) (c * 10 ^ k) e p Hp H1) by (fold B; nia).
        eexists. split; [reflexivity|]. cbn [neg coef dexp].
        split; [reflexivity|]. split.
        -- rewrite Z.sub_diag. change (10 ^ 0) with 1. rewrite Z2N.id by nia. lia.
        -- apply (quantize_fixed _ _ e p He Hp). fold B. nia.
    + (* divided, rounded half to even *)
      assert (Hmin : Z.min (dexp x) e = dexp x) by lia. rewrite Hmin in *.
      rewrite Z.sub_diag in *. change (10 ^ 0) with 1 in *.
      replace (- (dexp x - e)) with (e - dexp x) by ring.
      assert (Hpp : 0 < 10 ^ (e - dexp x)) by (apply pow10_gt0; lia).
      set (pw := 10 ^ (e - dexp x)) in *.
      destruct (round_half_even_spec c pw Hc Hpp) as (Hq0 & Hlo & Hhi).
      set (q := round_half_even c pw) in *.
      assert (HqB : q < B) by nia.
      rewrite (tail_ok (neg x) q e p Hp H1) by (fold B; lia).
      eexists. split; [reflexivity|]. cbn [neg coef dexp].
      split; [reflexivity|]. split.
      * rewrite Z2N.id by lia. fold pw. rewrite <- !Z.mul_assoc, sgn_abs. lia.
      * apply (quantize_fixed _ _ e p He Hp). fold B. lia.
Qed.

(* the other direction: outside [fits_ctx] quantize raises InvalidOperation *)
Lemma round_half_even_big c p B : 0 <= c -> 0 < p -> Z.even (B - 1) = false ->
  2 * (B * p) <= 2 * c + p -> B <= round_half_even c p.
Proof.
  intros Hc Hp Hodd Hbig. unfold round_half_even.
  pose proof (Z.div_mod c p ltac:(lia)) as Hdm.
  pose proof (Z.mod_pos_bound c p Hp) as Hr.
  set (q0 := c / p) in *. set (r := c mod p) in *.
  assert (Hqp : q0 * p = c - r) by lia.
  assert (Hq0 : B - 1 <= q0).
  { destruct (Z_le_gt_dec (B - 1) q0) as [H|H]; [exact H|exfalso].
    assert (q0 * p <= (B - 2) * p) by (apply Z.mul_le_mono_nonneg_r; lia).
    replace ((B - 2) * p) with (B * p - 2 * p) in * by ring. lia. }
  destruct (Z.eq_dec q0 (B - 1)) as [E|E].
  - replace ((B - 1) * p) with (B * p - p) in * by ring.
    rewrite E in *. replace ((B - 1) * p) with (B * p - p) in Hqp by ring.
    destruct (2 * r <? p) eqn:E1; [lia|].
    destruct (p <? 2 * r) eqn:E2; [lia|].
    rewrite Hodd. lia.
  - destruct (2 * r <? p); [lia|]. destruct (p <? 2 * r); [lia|]. destruct (Z.even q0); lia.
Qed.

Lemma pow10_pred_odd p : 1 <= p -> Z.even (10 ^ p - 1) = false.
Proof.
  intros H. replace p with (Z.succ (p - 1)) by lia. rewrite Z.pow_succ_r by lia.
  replace (10 * 10 ^ (p - 1) - 1) with (1 + 2 * (5 * 10 ^ (p - 1) - 1)) by ring.
  rewrite Z.even_add_mul_2. reflexivity.
Qed.

Lemma quantize_err d x : etiny <= - d <= emax -> fits_ctx d x = false ->
  quantize x (- d) = Err DecimalInvalid.
Proof.
  intros He Hfit.
  pose proof (digits_allowed_is d) as Hp.
  set (e := - d) in *. set (p := digits_allowed d) in *.
  assert (H1 : 1 <= p) by (unfold emax, prec in *; lia).
  unfold fits_ctx, common in Hfit. fold e p in Hfit.
  unfold quantize, quantize_with. rewrite round_div_default.
  destruct ((e <? etiny) || (emax <? e)) eqn:G; [lia|].
  set (c := Z.of_N (coef x)) in *.
  assert (Hc : 0 <= c) by (unfold c; lia).
  set (B := 10 ^ p) in *.
  assert (HB : 1 <= B) by (unfold B; pose proof (pow10_gt0 p); lia).
  assert (HBp : B <= 10 ^ prec) by (unfold B; apply Z.pow_le_mono_r; lia).
  assert (Hu : 0 < 10 ^ (e - Z.min (dexp x) e)) by (apply pow10_gt0; lia).
  destruct (c =? 0) eqn:E0.
  - exfalso. assert (c = 0) by lia.
    set (u := 10 ^ (e - Z.min (dexp x) e)) in *. set (w := 10 ^ (dexp x - Z.min (dexp x) e)) in *.
    assert (u <= B * u) by nia. nia.
  - destruct (0 <=? dexp x - e) eqn:Ek.
    + assert (Hmin : Z.min (dexp x) e = e) by lia. rewrite Hmin in *.
      rewrite Z.sub_diag in *. change (10 ^ 0) with 1 in *.
      destruct (prec <? dexp x - e); [reflexivity|].
      apply (tail_err (neg x) _ e p Hp H1). fold B. lia.
    + assert (Hmin : Z.min (dexp x) e = dexp x) by lia. rewrite Hmin in *.
      rewrite Z.sub_diag in *. change (10 ^ 0) with 1 in *.
      replace (- (dexp x - e)) with (e - dexp x) by ring.
      set (pw := 10 ^ (e - dexp x)) in *.
      assert (Hbig : B <= round_half_even c pw).
      { apply round_half_even_big; [exact Hc|exact Hu|apply pow10_pred_odd; exact H1|lia]. }
      apply (tail_err (neg x) _ e p Hp H1). fold B. exact Hbig.
Qed.

(* for d >= -999972, in particular for every d >= 0, the bound is the precision alone *)
Lemma fits_ctx_fitsb d x : -999972 <= d -> fits_ctx d x = fitsb d x.
Proof.
  intros H. unfold fits_ctx, fitsb, digits_allowed.
  replace (Z.min 28 (1000000 + d)) with 28 by lia. reflexivity.
Qed.

Lemma decimal_places_ok_ctx d x : - emax <= d <= - etiny -> fits_ctx d x = true ->
  exists r, decimal_places d x = Ok r /\ dexp r = - d /\ closeb d x r = true /\
            decimal_places d r = Ok r.
Proof.
  intros Hd Hfit. rewrite !decimal_places_shape. setoid_rewrite decimal_places_shape.
  rewrite (quantum_exp_range d Hd). cbn [bind].
  apply quantize_ok; [lia|exact Hfit].
Qed.

Lemma decimal_places_err_ctx d x : - emax <= d <= - etiny -> fits_ctx d x = false ->
  decimal_places d x = Err DecimalInvalid.
Proof.
  intros Hd Hfit. rewrite decimal_places_shape, (quantum_exp_range d Hd). cbn [bind].
  apply quantize_err; [lia|exact Hfit].
Qed.

Lemma decimal_places_ok d x : 0 <= d <= - etiny -> fitsb d x = true ->
  exists r, decimal_places d x = Ok r /\ dexp r = - d /\ closeb d x r = true /\
            decimal_places d r = Ok r.
Proof.
  intros Hd Hfit. rewrite !decimal_places_shape. setoid_rewrite decimal_places_shape.
  rewrite (quantum_exp_ok d Hd). cbn [bind].
  apply quantize_ok; [unfold etiny, emax in *; lia|rewrite fits_ctx_fitsb by lia; exact Hfit].
Qed.

Lemma decimal_places_err d x : 0 <= d <= - etiny -> fitsb d x = false ->
  decimal_places d x = Err DecimalInvalid.
Proof.
  intros Hd Hfit. rewrite decimal_places_shape, (quantum_exp_ok d Hd). cbn [bind].
  apply quantize_err; [unfold etiny, emax in *; lia|rewrite fits_ctx_fitsb by lia; exact Hfit].
Qed.

(* outside the digit counts the context admits *)
Lemma decimal_places_digits_overflow d x : - (2 * (emax + prec)) <= d < - emax -> decimal_places d x = Err OtherError.
Proof. intros H. rewrite decimal_places_shape, (quantum_exp_overflow d H). reflexivity. Qed.

Lemma decimal_places_digits_invalid d x : d < - (2 * (emax + prec)) \/ 2 * (emax + prec) < d ->
  decimal_places d x = Err DecimalInvalid.
Proof. intros H. rewrite decimal_places_shape, (quantum_exp_invalid d H). reflexivity. Qed.

(* beyond 1000026 digits the quantum underflows to Etiny: the call behaves as with 1000026 *)
Lemma decimal_places_digits_underflow d x : - etiny <= d <= 2 * (emax + prec) ->
  decimal_places d x = decimal_places (- etiny) x.
Proof.
  intros H. rewrite !decimal_places_shape, (quantum_exp_underflow d H).
  rewrite (quantum_exp_ok (- etiny)) by (unfold etiny; lia). reflexivity.
Qed.

(* ================= CONVERSION ================= *)

Lemma conversion_named key arg : In key vocabulary -> conversion_type key arg = Ok (named_type key arg).
Proof.
  unfold vocabulary. cbn [In]. intros H.
  repeat (destruct H as [<-|H]; [reflexivity|]). contradiction.
Qed.

Lemma conversion_only_vocabulary : map fst conversion_table = [1; 2; 3; 4; 5; 6; 0].
Proof. reflexivity. Qed.

(* ================= statements as used in Props/C16.v ================= *)

Lemma digit_string_exact (n : nat) (x : dec) (v : Z) :
  (1 <= n <= 4300)%nat -> represents x v -> 0 <= v < 10 ^ Z.of_nat n ->
  exists s, digit_string n x = Ok s /\
            length s = n /\ forallb is_digit s = true /\ dval s = v.
Proof.
  intros Hn Hr Hv. destruct (digit_string_ok n x v Hn Hr Hv) as (s & Hs & Hok).
  exists s. split; [exact Hs|]. unfold digits_ok in Hok.
  apply andb_prop in Hok. destruct Hok as [Hok H3]. apply andb_prop in Hok. destruct Hok as [H1 H2].
  repeat split; [apply Nat.eqb_eq; exact H1|exact H2|apply Z.eqb_eq; exact H3].
Qed.

Lemma beyond_limit : digit_string 4301 (mkdec false 1 4300) = Err ValueError.
Proof. vm_compute. reflexivity. Qed.

(* ================= the partial() instances the module exports ================= *)

(* digits_5: five digits for every integer below 10^5, however it arrives *)
Lemma digits_5_exact (x : dec) (v : Z) :
  represents x v -> 0 <= v < 10 ^ 5 ->
  exists s, digits_5 x = Ok (inl s) /\
            length s = 5%nat /\ forallb is_digit s = true /\ dval s = v.
Proof.
  intros Hr Hv. rewrite digits_5_is.
  destruct (digit_string_exact 5 x v) as (s & Hs & H); [lia|exact Hr|exact Hv|].
  exists s. rewrite Hs. split; [reflexivity|exact H].
Qed.

(* decimal_2: two fractional digits, within half a cent, idempotent *)
Lemma decimal_2_ok (x : dec) :
  fitsb 2 x = true ->
  exists r, decimal_2 x = Ok (inr r) /\ dexp r = - 2 /\ closeb 2 x r = true /\
            decimal_2 r = Ok (inr r).
Proof.
  intros Hfit.
  destruct (decimal_places_ok 2 x) as (r & Hr & He & Hc & Hi); [unfold etiny; lia|exact Hfit|].
  exists r. rewrite !decimal_2_is, Hr, Hi. repeat split; assumption.
Qed.

(* the doctests: digits_5(1020), digits_5(Decimal(1.02E+3)), decimal_2(3.99) (the float), decimal_2(Decimal(0.125)) *)
Lemma partial_examples :
  digits_5 (mkdec false 1020 0) = Ok (inl [48; 49; 48; 50; 48]%N) /\
  digits_5 (mkdec false 102 1) = Ok (inl [48; 49; 48; 50; 48]%N) /\
  decimal_2 (mkdec false 39900000000000002131628207280300557613372802734375 (-49)) = Ok (inr (mkdec false 399 (-2))) /\
  decimal_2 (mkdec false 125 (-3)) = Ok (inr (mkdec false 12 (-2))).
Proof. vm_compute. repeat split; reflexivity. Qed.
