(* Proofs for C01c: the layout theorem of C01 under a weaker hypothesis on data names.

   C01_layout (Proofs/LayoutP.v, layout_correct) asks for NoDup (ids t): every data name of the record distinct.
   Real copybooks repeat names in different groups (ZIP OF BILL-TO / ZIP OF SHIP-TO).  LocationMaker.anchors is one
   flat namespace in which the last registration of a name wins, but a walk CONSULTS that map only for the $ref
   placeholders build_json_schema puts where the members of a REDEFINES union stand (the redefined item and its
   redefiners) and for OCCURS DEPENDING ON counters (not in C01's family).  So it is enough that
     - the children of every group have distinct names  (name() must be unambiguous; the ordered properties of
       the parent are a dict), and
     - every name that stands for a member of a REDEFINES union occurs once in the whole record.
   Every other name may repeat freely in different groups.

   The proof is the induction of LayoutP.v once more with the invariant made sharper:
     Good2 / GoodKids2   say for every child WHICH way name() reaches it: a member of a union through its placeholder
                         and the anchors map, every other child directly - so that Good2 depends on the anchors map
                         only under the names listed by [anchored] (Good2_stable);
     P                   the protected names: a list that contains every anchored name of the subtree and whose
                         members occur at most once in it (NoDup (pf P (ids x)));
   and Good2 implies Good, so navigation (nav_path_ok, Rel_place of LayoutP.v) is reused unchanged. *)
From Coq Require Import List Arith NArith Bool Lia.
Import ListNotations.
Require Import SR.Base.Res SR.Spec.Layout SR.Model.Layout SR.Proofs.LayoutP.
(* The definitions of this development that occur in theorem statements (Props/) live in Spec/LayoutNamesWf.v (audit item G1).
   The abbreviations keep the qualified names LayoutNamesP.name of other files resolving; they are parsing-only aliases. *)
Require Export SR.Spec.LayoutNamesWf.
Notation nodupb := SR.Spec.LayoutNamesWf.nodupb (only parsing).
Notation siblings_distinct := SR.Spec.LayoutNamesWf.siblings_distinct (only parsing).
Notation sd_kids := SR.Spec.LayoutNamesWf.sd_kids (only parsing).
Notation is_member := SR.Spec.LayoutNamesWf.is_member (only parsing).
Notation anchored := SR.Spec.LayoutNamesWf.anchored (only parsing).
Notation anchored_kids := SR.Spec.LayoutNamesWf.anchored_kids (only parsing).
Notation count_id := SR.Spec.LayoutNamesWf.count_id (only parsing).
Notation anchored_names_unique := SR.Spec.LayoutNamesWf.anchored_names_unique (only parsing).
Notation no_redefines := SR.Spec.LayoutNamesWf.no_redefines (only parsing).
Notation nr_kids := SR.Spec.LayoutNamesWf.nr_kids (only parsing).
Notation dup_tree := SR.Spec.LayoutNamesWf.dup_tree (only parsing).
Notation dup_before_tree := SR.Spec.LayoutNamesWf.dup_before_tree (only parsing).

(* ------------------------------------------------------------------ the hypotheses, decidable *)

(* ------------------------------------------------------------------ lists *)
Lemma nodupb_NoDup l : nodupb l = true -> NoDup l.
Proof.
  induction l as [|a l IH]; cbn [nodupb]; intros H; [constructor|].
  apply andb_true_iff in H. destruct H as [H1 H2]. apply negb_true_iff in H1. constructor; [|apply IH; exact H2].
  intros Hin. apply existsb_eqb_In in Hin. congruence.
Qed.

Definition inb (P : list id) (i : id) : bool := existsb (N.eqb i) P.
(* the protected names among l, in order *)
Definition pf (P : list id) (l : list id) : list id := filter (inb P) l.

Lemma pf_In P l i : In i (pf P l) <-> In i l /\ In i P.
Proof. unfold pf, inb. rewrite filter_In, existsb_eqb_In. tauto. Qed.
Lemma pf_app P a b : pf P (a ++ b) = pf P a ++ pf P b.
Proof. apply filter_app. Qed.
Lemma pf_app_l P a b : NoDup (pf P (a ++ b)) -> NoDup (pf P a).
Proof. rewrite pf_app. apply NoDup_app_l. Qed.
Lemma pf_app_r P a b : NoDup (pf P (a ++ b)) -> NoDup (pf P b).
Proof. rewrite pf_app. apply NoDup_app_r. Qed.
Lemma pf_disj P a b i : NoDup (pf P (a ++ b)) -> In i P -> In i a -> In i b -> False.
Proof.
  rewrite pf_app. intros H HP Ha Hb. apply (NoDup_app_disj _ _ i H); apply pf_In; split; assumption.
Qed.
Lemma pf_cons_tl P i l : NoDup (pf P (i :: l)) -> NoDup (pf P l).
Proof. apply (pf_app_r P [i] l). Qed.
Lemma pf_cons_hd P i l : NoDup (pf P (i :: l)) -> In i P -> ~ In i l.
Proof. intros H HP Hin. apply (pf_disj P [i] l i H HP); [left; reflexivity|exact Hin]. Qed.

Lemma count_id_cons i a l : count_id i (a :: l) = (if N.eqb i a then 1 else 0) + count_id i l.
Proof. unfold count_id. cbn [filter]. destruct (N.eqb i a); reflexivity. Qed.
Lemma count_id_In i l : In i l -> 1 <= count_id i l.
Proof.
  induction l as [|a l IH]; [intros []|]. rewrite count_id_cons. intros [ -> |H].
  - rewrite N.eqb_refl. lia.
  - specialize (IH H). lia.
Qed.

Lemma count_le1_NoDup P l : (forall i, In i P -> count_id i l <= 1) -> NoDup (pf P l).
Proof.
  induction l as [|a l IH]; intros H; [constructor|].
  assert (Hl : forall i, In i P -> count_id i l <= 1).
  { intros i Hi. specialize (H i Hi). rewrite count_id_cons in H. lia. }
  unfold pf. cbn [filter]. fold (pf P l). destruct (inb P a) eqn:Ea; [|apply IH; exact Hl].
  constructor; [|apply IH; exact Hl].
  intros Hin. apply pf_In in Hin. destruct Hin as [Hin HaP].
  specialize (H a HaP). rewrite count_id_cons, N.eqb_refl in H. apply count_id_In in Hin. lia.
Qed.

Lemma anchored_names_unique_NoDup t : anchored_names_unique t = true -> NoDup (pf (anchored t) (ids t)).
Proof.
  unfold anchored_names_unique. rewrite forallb_forall. intros H. apply count_le1_NoDup.
  intros i Hi. specialize (H i Hi). apply Nat.eqb_eq in H. lia.
Qed.

(* ------------------------------------------------------------------ anchored names *)
Lemma anchored_incl_ids :
  (forall x, incl (anchored x) (ids x)) /\ (forall ks, incl (anchored_kids ks) (ids_kids ks)).
Proof.
  apply item_items_ind.
  - intros i sz oc rd j [].
  - intros i oc rd ks IH j Hj. cbn [anchored] in Hj. cbn [ids]. right. apply IH, Hj.
  - intros j [].
  - intros x IHx xs IHxs j Hj. cbn [anchored_kids] in Hj. cbn [ids_kids]. apply in_or_app.
    apply in_app_or in Hj. destruct Hj as [Hj|Hj].
    + left. destruct (is_member x xs); [|destruct Hj]. destruct Hj as [ <- |[]]. apply item_id_in_ids.
    + apply in_app_or in Hj. destruct Hj as [Hj|Hj]; [left; apply IHx, Hj|right; apply IHxs, Hj].
Qed.

Lemma anchored_kids_hd x xs : incl (anchored x) (anchored_kids (ICons x xs)).
Proof. cbn [anchored_kids]. apply incl_appr, incl_appl, incl_refl. Qed.
Lemma anchored_kids_tl x xs : incl (anchored_kids xs) (anchored_kids (ICons x xs)).
Proof. cbn [anchored_kids]. apply incl_appr, incl_appr, incl_refl. Qed.
Lemma anchored_kids_member x xs : is_member x xs = true -> In (item_id x) (anchored_kids (ICons x xs)).
Proof. intros H. cbn [anchored_kids]. rewrite H. left. reflexivity. Qed.

Lemma member_redefiner x xs u : item_redef x = Some u -> is_member x xs = true.
Proof. intros H. unfold is_member, is_redefiner. rewrite H. reflexivity. Qed.
Lemma member_base x xs : item_redef x = None ->
  is_member x xs = existsb (N.eqb (item_id x)) (redef_targets xs).
Proof. intros H. unfold is_member, is_redefiner. rewrite H. reflexivity. Qed.

Lemma no_redefines_anchored :
  (forall x, no_redefines x = true -> anchored x = []) /\
  (forall ks, nr_kids ks = true -> redef_targets ks = [] -> anchored_kids ks = []).
Proof.
  apply item_items_ind.
  - reflexivity.
  - intros i oc rd ks IH H. cbn [no_redefines] in H. apply andb_true_iff in H. destruct H as [H1 H2].
    cbn [anchored]. apply IH; [exact H2|]. destruct (redef_targets ks); [reflexivity|discriminate].
  - reflexivity.
  - intros x IHx xs IHxs H Ht. cbn [nr_kids] in H. apply andb_true_iff in H. destruct H as [H1 H2].
    cbn [redef_targets] in Ht. destruct (item_redef x) as [u|] eqn:Er; [discriminate|].
    cbn [anchored_kids]. rewrite (member_base x xs Er), Ht. cbn [existsb]. rewrite (IHx H1), (IHxs H2 Ht). reflexivity.
Qed.

(* ------------------------------------------------------------------ keys registered by a built schema *)
Lemma build_group_once2 e i rd ks :
  NoDup (kid_ids ks) -> unions_ok e [] ks = true ->
  build_alt (Group i Once rd ks) = JObj (Some (KName i)) (assemble_d ks).
Proof. intros Hnd Hu. cbn [build_alt]. f_equal. apply (assemble_flat e); assumption. Qed.

Lemma keys_build2 e :
  (forall x, wf e x = true -> siblings_distinct x = true -> incl (keys_js (build_alt x)) (K (ids x))) /\
  (forall ks, wf_kids e ks = true -> sd_kids ks = true ->
     forall y, in_kids y ks -> incl (keys_js (build_alt y)) (K (ids y))).
Proof.
  apply item_items_ind.
  - intros i sz oc rd _ _. destruct oc as [|n|c]; cbn [build_alt elem_items keys_js keys_props js_anchor opt_list ids app];
      intros k Hk.
    + destruct Hk as [ <- |[]]. apply K_name. left. reflexivity.
    + destruct Hk as [ <- |[]]. apply K_name. left. reflexivity.
    + destruct Hk as [ <- |[]]. apply K_name. left. reflexivity.
  - intros i oc rd ks IH Hw Hsd. cbn [wf] in Hw. apply andb_true_iff in Hw. destruct Hw as [Hoc Hw].
    apply andb_true_iff in Hw. destruct Hw as [Hk Hu]. cbn [siblings_distinct] in Hsd.
    apply andb_true_iff in Hsd. destruct Hsd as [Hnd Hsdk]. apply nodupb_NoDup in Hnd.
    specialize (IH Hk Hsdk).
    destruct oc as [|n|c]; [| |discriminate].
    + rewrite (build_group_once2 e) by assumption. cbn [keys_js js_anchor opt_list ids app].
      intros k [ <- |Hin]; [apply K_name; left; reflexivity|].
      apply (K_incl (ids_kids ks)); [apply incl_tl, incl_refl|]. apply keys_assemble_d; assumption.
    + cbn [build_alt keys_js js_anchor opt_list ids app].
      intros k [ <- |Hin]; [apply K_name; left; reflexivity|].
      apply (K_incl (ids_kids ks)); [apply incl_tl, incl_refl|]. apply (keys_plain [] ks); assumption.
  - intros _ _ y [].
  - intros x IHx xs IHxs Hw Hsd y Hy. cbn [wf_kids] in Hw. apply andb_true_iff in Hw. destruct Hw as [Hwx Hwxs].
    cbn [sd_kids] in Hsd. apply andb_true_iff in Hsd. destruct Hsd as [Hsx Hsxs]. destruct Hy as [ -> |Hy].
    + apply IHx; assumption.
    + apply IHxs; assumption.
Qed.

Lemma sd_kids_in x ks : in_kids x ks -> sd_kids ks = true -> siblings_distinct x = true.
Proof.
  induction ks as [|y ys IH]; cbn [in_kids sd_kids]; [tauto|].
  intros [ -> |H] Hw; apply andb_true_iff in Hw; destruct Hw as [H1 H2]; [exact H1|apply IH; assumption].
Qed.

(* ------------------------------------------------------------------ what a correct location looks like, sharper *)
Section Good2.
  Variable B : Type.
  Variable dcount : list B -> nat.
  Variable r : list B.
  Variable e : env.
  Notation walk := (Layout.walk dcount r).

  (* the location NDNav.name(i) lands on: through the placeholder and the anchors map for a member of a union,
     the property itself otherwise *)
  Definition resolved2 (m : bool) (an : anchors) (ps : lprops) (i : id) (lk : loc) : Prop :=
    is_ref lk = false /\
    if m then exists s0, find_prop (KName i) ps = Some (LRef s0 (KName i)) /\ lookup (KName i) an = Some lk
    else find_prop (KName i) ps = Some lk.

  Fixpoint Good2 (x : item) (st : nat) (l : loc) (an : anchors) {struct x} : Prop :=
    lstart l = st /\ lsize l = extent e x /\
    match x with
    | Elem i sz Once _ => l = LAtom st sz
    | Elem i sz oc _ => exists sub, l = LArr st (sz * count e oc) sz (count e oc) sub (elem_items i sz)
    | Group i Once _ ks =>
        exists ps, l = LObj st (kids_extent e ks) ps /\ GoodKids2 (kid_starts e ks st []) ps an ks
    | Group i oc _ ks =>
        exists sub, l = LArr st (kids_extent e ks * count e oc) (kids_extent e ks) (count e oc) sub (occ_schema ks)
        /\ forall st', exists ps an',
             walk (occ_schema ks) st' [] = Ok (LObj st' (kids_extent e ks) ps, an')
             /\ GoodKids2 (kid_starts e ks st' []) ps an' ks
    end
  with GoodKids2 (starts : list (id * nat)) (ps : lprops) (an : anchors) (ks : items) {struct ks} : Prop :=
    match ks with
    | INil => True
    | ICons x xs =>
        (exists o lk, assoc (item_id x) starts = Some o /\ resolved2 (is_member x xs) an ps (item_id x) lk /\ Good2 x o lk an)
        /\ GoodKids2 starts ps an xs
    end.

  Lemma resolved2_resolved m an ps i lk : resolved2 m an ps i lk -> resolved an ps i lk.
  Proof.
    intros [H1 H2]. split; [exact H1|]. destruct m; [right; exact H2|left; exact H2].
  Qed.

  Lemma Good2_Good :
    (forall x st l an, Good2 x st l an -> Good B dcount r e x st l an) /\
    (forall ks starts ps an, GoodKids2 starts ps an ks -> GoodKids B dcount r e starts ps an ks).
  Proof.
    apply item_items_ind.
    - intros i sz oc rd st l an H. exact H.
    - intros i oc rd ks IH st l an H. cbn [Good2 Good] in *. destruct H as (H1 & H2 & H3).
      split; [exact H1|]. split; [exact H2|]. destruct oc as [|n|c].
      + destruct H3 as (ps & Hps & Hk). exists ps. split; [exact Hps|apply IH, Hk].
      + destruct H3 as (sub & Hl & Hocc). exists sub. split; [exact Hl|]. intros st'.
        destruct (Hocc st') as (ps & an' & Hw & Hg). exists ps, an'. split; [exact Hw|apply IH, Hg].
      + destruct H3 as (sub & Hl & Hocc). exists sub. split; [exact Hl|]. intros st'.
        destruct (Hocc st') as (ps & an' & Hw & Hg). exists ps, an'. split; [exact Hw|apply IH, Hg].
    - intros starts ps an _. exact I.
    - intros x IHx xs IHxs starts ps an H. cbn [GoodKids2 GoodKids] in *.
      destruct H as ((o & lk & Ho & Hr & Hg) & Hrest). split; [|apply IHxs, Hrest].
      exists o, lk. split; [exact Ho|]. split; [eapply resolved2_resolved; exact Hr|apply IHx, Hg].
  Qed.

  (* Good2 consults the anchors map only under the anchored names of x *)
  Lemma Good2_stable :
    (forall x st l an an', Good2 x st l an ->
       (forall i, In i (anchored x) -> lookup (KName i) an' = lookup (KName i) an) -> Good2 x st l an') /\
    (forall ks starts ps an an', GoodKids2 starts ps an ks ->
       (forall i, In i (anchored_kids ks) -> lookup (KName i) an' = lookup (KName i) an) -> GoodKids2 starts ps an' ks).
  Proof.
    apply item_items_ind.
    - intros i sz oc rd st l an an' H _. exact H.
    - intros i oc rd ks IH st l an an' H Hl. cbn [Good2] in *. destruct H as (H1 & H2 & H3).
      split; [exact H1|]. split; [exact H2|]. destruct oc as [|n|c].
      + destruct H3 as (ps & Hps & Hk). exists ps. split; [exact Hps|].
        eapply IH; [exact Hk|]. intros j Hj. apply Hl. exact Hj.
      + exact H3.
      + exact H3.
    - intros starts ps an an' _ _. exact I.
    - intros x IHx xs IHxs starts ps an an' H Hl. cbn [GoodKids2] in *. destruct H as ((o & lk & Ho & Hr & Hg) & Hrest).
      split.
      + exists o, lk. split; [exact Ho|]. split.
        * destruct Hr as (Hnr & Hm). split; [exact Hnr|]. destruct (is_member x xs) eqn:Em; [|exact Hm].
          destruct Hm as (s0 & Hf & Hlk). exists s0. split; [exact Hf|]. rewrite Hl; [exact Hlk|].
          apply anchored_kids_member. exact Em.
        * eapply IHx; [exact Hg|]. intros j Hj. apply Hl. apply (anchored_kids_hd x xs). exact Hj.
      + eapply IHxs; [exact Hrest|]. intros j Hj. apply Hl. apply (anchored_kids_tl x xs). exact Hj.
  Qed.

  Lemma Good2_size x st l an : Good2 x st l an -> lsize l = extent e x.
  Proof. destruct x; cbn [Good2]; tauto. Qed.

  Lemma Good2_extends x st l an an' ks :
    Good2 x st l an -> extends ks an an' -> (forall i, In i (anchored x) -> ~ In (KName i) ks) -> Good2 x st l an'.
  Proof.
    intros Hg He Hd. eapply (proj1 Good2_stable); [exact Hg|].
    intros i Hi. eapply extends_lookup; [exact He|apply Hd, Hi].
  Qed.

  Lemma GoodKids2_weaken starts ps an ks k0 l0 :
    GoodKids2 starts ps an ks -> ~ In k0 (map KName (kid_ids ks)) ->
    GoodKids2 starts (LPCons k0 l0 ps) an ks.
  Proof.
    induction ks as [|x xs IH]; cbn [GoodKids2 kid_ids map]; intros H Hk; [exact I|].
    destruct H as ((o & lk & Ho & Hr & Hg) & Hrest). split.
    - exists o, lk. split; [exact Ho|]. split; [|exact Hg].
      assert (Hne : key_eqb (KName (item_id x)) k0 = false)
        by (apply key_eqb_neq; intros E; apply Hk; left; exact E).
      destruct Hr as (Hnr & Hm). split; [exact Hnr|]. destruct (is_member x xs).
      + destruct Hm as (s0 & Hf & Hlk). exists s0. split; [cbn [find_prop]; rewrite Hne; exact Hf|exact Hlk].
      + cbn [find_prop]. rewrite Hne. exact Hm.
    - apply IH; [exact Hrest|]. intros Hin. apply Hk. right. exact Hin.
  Qed.

  Lemma GoodKids2_starts starts starts' ps an ks :
    GoodKids2 starts ps an ks -> (forall x, in_kids x ks -> assoc (item_id x) starts' = assoc (item_id x) starts) ->
    GoodKids2 starts' ps an ks.
  Proof.
    induction ks as [|x xs IH]; cbn [GoodKids2]; intros H Hs; [exact I|].
    destruct H as ((o & lk & Ho & Hr & Hg) & Hrest). split.
    - exists o, lk. split; [rewrite Hs; [exact Ho|left; reflexivity]|]. split; assumption.
    - apply IH; [exact Hrest|]. intros y Hy. apply Hs. right. exact Hy.
  Qed.
End Good2.

(* a protected name inside y, which is not a redefiner of u, is not among the names below the redefiners of u *)
Lemma red_ids_other2 P u xs y i :
  in_kids y xs -> item_redef y <> Some u -> NoDup (pf P (ids_kids xs)) -> In i P -> In i (ids y) -> ~ In i (red_ids u xs).
Proof.
  induction xs as [|z zs IH]; cbn [in_kids red_ids ids_kids]; [tauto|].
  intros Hy Hne Hnd HP Hi.
  assert (Hndz : NoDup (pf P (ids_kids zs))) by (apply pf_app_r in Hnd; exact Hnd).
  destruct Hy as [ -> |Hy].
  - assert (Htail : ~ In i (red_ids u zs))
      by (intros H; apply red_ids_incl in H; exact (pf_disj _ _ _ i Hnd HP Hi H)).
    destruct (item_redef z) as [u'|] eqn:Ez; [|exact Htail].
    destruct (N.eqb u u') eqn:E; [apply N.eqb_eq in E; subst; contradiction|exact Htail].
  - assert (Hiz : In i (ids_kids zs)) by (eapply in_kids_ids_incl; eassumption).
    assert (Htail : ~ In i (red_ids u zs)) by (apply IH; assumption).
    destruct (item_redef z) as [u'|]; [|exact Htail].
    destruct (N.eqb u u'); [|exact Htail].
    intros H. apply in_app_or in H. destruct H as [H|H]; [exact (pf_disj _ _ _ i Hnd HP H Hiz)|exact (Htail H)].
Qed.

(* ------------------------------------------------------------------ the walk of a built schema is Good2 *)
Section Main2.
  Variable B : Type.
  Variable dcount : list B -> nat.
  Variable r : list B.
  Variable e : env.
  Variable P : list id.           (* the protected names *)
  Notation walk := (Layout.walk dcount r).
  Notation walk_props := (Layout.walk_props dcount r).
  Notation walk_alts := (Layout.walk_alts dcount r).
  Notation Good2 := (Good2 B dcount r e).
  Notation GoodKids2 := (GoodKids2 B dcount r e).

  (* siblings distinct everywhere; every anchored name is protected; protected names occur at most once *)
  Definition HP (x : item) : Prop :=
    siblings_distinct x = true /\ incl (anchored x) P /\ NoDup (pf P (ids x)).

  Definition W2 (x : item) : Prop :=
    wf e x = true -> HP x -> forall st an,
    exists l an', walk (build_alt x) st an = Ok (l, an') /\ Good2 x st l an' /\ is_ref l = false
                  /\ (elem_table x = false -> lookup (KName (item_id x)) an' = Some l).

  Lemma W2_extends x st an l an' :
    wf e x = true -> siblings_distinct x = true -> walk (build_alt x) st an = Ok (l, an') -> extends (K (ids x)) an an'.
  Proof.
    intros Hw Hsd H. destruct (proj1 (walk_extends B dcount r) _ _ _ _ _ H) as (d & -> & Hd).
    exists d. split; [reflexivity|]. intros k Hk. apply (proj1 (keys_build2 e) x Hw Hsd). apply Hd, Hk.
  Qed.

  (* HP of one child from the hypotheses on the list of children *)
  Lemma HP_kid x xs :
    sd_kids (ICons x xs) = true -> incl (anchored_kids (ICons x xs)) P -> NoDup (pf P (ids_kids (ICons x xs))) -> HP x.
  Proof.
    intros Hsd Hin Hnd. cbn [sd_kids] in Hsd. apply andb_true_iff in Hsd. destruct Hsd as [Hsx _].
    split; [exact Hsx|]. split.
    - intros i Hi. apply Hin. apply (anchored_kids_hd x xs). exact Hi.
    - cbn [ids_kids] in Hnd. apply pf_app_l in Hnd. exact Hnd.
  Qed.

  (* the alternatives contributed by the redefiners of u *)
  Lemma ALTS2 u E off : forall xs,
    (forall y, in_kids y xs -> W2 y) -> (forall y, in_kids y xs -> item_redef y = Some u -> wf e y = true) ->
    sd_kids xs = true -> incl (anchored_kids xs) P -> NoDup (pf P (ids_kids xs)) ->
    (forall y, in_kids y xs -> item_redef y = Some u -> elem_table y = false /\ extent e y <= E) ->
    forall an, exists ls an',
      walk_alts (alts_red u xs) off an = Ok (ls, an') /\ max_size ls <= E /\ extends (K (red_ids u xs)) an an' /\
      forall y, in_kids y xs -> item_redef y = Some u ->
        exists ly, lookup (KName (item_id y)) an' = Some ly /\ Good2 y off ly an' /\ is_ref ly = false.
  Proof.
    induction xs as [|z zs IH]; intros HW Hwf Hsd Hin Hnd Hok an.
    - exists LANil, an. rewrite walk_alts_nil. split; [reflexivity|]. split; [cbn; lia|]. split; [apply extends_refl|].
      intros y [].
    - assert (Hwzs : forall y, in_kids y zs -> item_redef y = Some u -> wf e y = true)
        by (intros y Hy; apply Hwf; right; exact Hy).
      pose proof (HP_kid z zs Hsd Hin Hnd) as HPz.
      assert (Hsdzs : sd_kids zs = true) by (cbn [sd_kids] in Hsd; apply andb_true_iff in Hsd; tauto).
      assert (Hinzs : incl (anchored_kids zs) P) by (intros i Hi; apply Hin, (anchored_kids_tl z zs), Hi).
      assert (Hndzs : NoDup (pf P (ids_kids zs))) by (cbn [ids_kids] in Hnd; apply pf_app_r in Hnd; exact Hnd).
      assert (HWzs : forall y, in_kids y zs -> W2 y) by (intros y Hy; apply HW; right; exact Hy).
      assert (Hokzs : forall y, in_kids y zs -> item_redef y = Some u -> elem_table y = false /\ extent e y <= E)
        by (intros y Hy; apply Hok; right; exact Hy).
      cbn [alts_red red_ids]. destruct (item_redef z) as [u'|] eqn:Ez.
      + destruct (N.eqb u u') eqn:Eu.
        * apply N.eqb_eq in Eu. subst u'.
          assert (Hwz : wf e z = true) by (apply Hwf; [left; reflexivity|exact Ez]).
          destruct (HW z (or_introl eq_refl) Hwz HPz off an) as (lz & an1 & Hwalk & Hgz & Hrz & Hlz).
          destruct (Hok z (or_introl eq_refl) Ez) as [Hetz Hextz].
          destruct (IH HWzs Hwzs Hsdzs Hinzs Hndzs Hokzs an1) as (ls & an2 & Hwa & Hmax & Hext & Hall).
          exists (LACons lz ls), an2. rewrite walk_alts_cons, Hwalk, Hwa.
          pose proof (W2_extends z off an lz an1 Hwz (proj1 HPz) Hwalk) as Hext1.
          assert (Hsz : lsize lz = extent e z) by (eapply Good2_size; exact Hgz).
          (* a protected name of z does not occur among the later siblings *)
          assert (Hprot : forall i, In i P -> In i (ids z) -> ~ In (KName i) (K (red_ids u zs))).
          { intros i HiP Hi H. apply K_name in H. apply red_ids_incl in H. cbn [ids_kids] in Hnd.
            exact (pf_disj _ _ _ i Hnd HiP Hi H). }
          assert (HzP : In (item_id z) P)
            by (apply Hin, anchored_kids_member; eapply member_redefiner; exact Ez).
          split; [reflexivity|]. split; [cbn [max_size]; rewrite Hsz; lia|]. split.
          { eapply extends_trans; [exact Hext1|exact Hext| |]; apply K_incl; [apply incl_appl|apply incl_appr]; apply incl_refl. }
          intros y [ <- |Hy] Ey.
          -- exists lz. split; [|split; [|exact Hrz]].
             ++ rewrite (extends_lookup _ _ _ _ Hext); [apply Hlz, Hetz|].
                apply Hprot; [exact HzP|apply item_id_in_ids].
             ++ eapply Good2_extends; [exact Hgz|exact Hext|].
                intros i Hi. apply Hprot; [apply (proj1 (proj2 HPz)), Hi|apply (proj1 anchored_incl_ids), Hi].
          -- apply Hall; assumption.
        * destruct (IH HWzs Hwzs Hsdzs Hinzs Hndzs Hokzs an) as (ls & an2 & Hwa & Hmax & Hext & Hall).
          exists ls, an2. split; [exact Hwa|]. split; [exact Hmax|]. split; [exact Hext|].
          intros y [ <- |Hy] Ey; [|apply Hall; assumption].
          rewrite Ez in Ey. injection Ey as <-. rewrite N.eqb_refl in Eu. discriminate.
      + destruct (IH HWzs Hwzs Hsdzs Hinzs Hndzs Hokzs an) as (ls & an2 & Hwa & Hmax & Hext & Hall).
        exists ls, an2. split; [exact Hwa|]. split; [exact Hmax|]. split; [exact Hext|].
        intros y [ <- |Hy] Ey; [congruence|apply Hall; assumption].
  Qed.

  (* the children loop of a non-repeated group *)
  Lemma KS2 : forall rem,
    (forall y, in_kids y rem -> W2 y) -> wf_kids e rem = true ->
    sd_kids rem = true -> NoDup (kid_ids rem) -> incl (anchored_kids rem) P -> NoDup (pf P (ids_kids rem)) ->
    forall bases off seen an,
      unions_ok e bases rem = true ->
      (forall u ext, assoc u bases = Some ext -> exists su, assoc u seen = Some su) ->
      (forall i, In i (kid_ids rem) -> assoc i seen = None) ->
      (forall y u ext, in_kids y rem -> item_redef y = Some u -> assoc u bases = Some ext ->
         exists su ly, assoc u seen = Some su /\ lookup (KName (item_id y)) an = Some ly
                       /\ Good2 y su ly an /\ is_ref ly = false) ->
      exists pls an',
        walk_props (assemble_d rem) off an = Ok (pls, off + kids_extent e rem, an')
        /\ GoodKids2 (kid_starts e rem off seen) pls an' rem
        /\ extends (K (ids_kids rem)) an an'.
  Proof.
    induction rem as [|x xs IH]; intros HW Hwf Hsd Hkid Hin Hnd bases off seen an Hu HB Hseen INV.
    - exists LPNil, an. cbn [assemble_d kids_extent]. rewrite walk_props_nil, Nat.add_0_r.
      split; [reflexivity|]. split; [exact I|apply extends_refl].
    - cbn [wf_kids] in Hwf. apply andb_true_iff in Hwf. destruct Hwf as [Hwx Hwxs].
      pose proof (HP_kid x xs Hsd Hin Hnd) as HPx. destruct HPx as (Hsdx & Hinx & Hndx).
      assert (HPx : HP x) by (split; [exact Hsdx|split; assumption]).
      assert (Hsdxs : sd_kids xs = true) by (cbn [sd_kids] in Hsd; apply andb_true_iff in Hsd; tauto).
      assert (Hinxs : incl (anchored_kids xs) P) by (intros i Hi; apply Hin, (anchored_kids_tl x xs), Hi).
      assert (Hndxs : NoDup (pf P (ids_kids xs))) by (cbn [ids_kids] in Hnd; apply pf_app_r in Hnd; exact Hnd).
      assert (Hkidxs : NoDup (kid_ids xs)) by (cbn [kid_ids] in Hkid; inversion Hkid; assumption).
      assert (HWxs : forall y, in_kids y xs -> W2 y) by (intros y Hy; apply HW; right; exact Hy).
      assert (Hxnot : ~ In (item_id x) (kid_ids xs)) by (cbn [kid_ids] in Hkid; inversion Hkid; assumption).
      assert (Hneq : forall y, in_kids y xs -> item_id x <> item_id y)
        by (intros y Hy E; apply Hxnot; rewrite E; apply in_kids_ids; exact Hy).
      assert (Hxseen : assoc (item_id x) seen = None) by (apply Hseen; left; reflexivity).
      (* protected names: those of x do not occur among the later siblings, and the other way round *)
      assert (Hdx : forall i, In i P -> In i (ids x) -> ~ In (KName i) (K (ids_kids xs))).
      { intros i HiP Hi H. apply K_name in H. cbn [ids_kids] in Hnd. exact (pf_disj _ _ _ i Hnd HiP Hi H). }
      assert (Hdxs : forall i, In i P -> In i (ids_kids xs) -> ~ In (KName i) (K (ids x))).
      { intros i HiP Hi H. apply K_name in H. cbn [ids_kids] in Hnd. exact (pf_disj _ _ _ i Hnd HiP H Hi). }
      assert (Hax : forall i, In i (anchored x) -> In i P /\ In i (ids x))
        by (intros i Hi; split; [apply Hinx, Hi|apply (proj1 anchored_incl_ids), Hi]).
      assert (Hkeyx : ~ In (KName (item_id x)) (map KName (kid_ids xs))).
      { intros H. apply in_map_iff in H. destruct H as (j & Ej & Hj). injection Ej as ->. contradiction. }
      assert (Hstarts : forall v S y, in_kids y xs -> assoc (item_id y) ((item_id x, v) :: S) = assoc (item_id y) S)
        by (intros v S y Hy; apply assoc_cons_neq; apply Hneq; exact Hy).
      (* the names under which the invariant about a later redefiner y is stated are protected and lie in the tail *)
      assert (Hrely : forall y u2, in_kids y xs -> item_redef y = Some u2 ->
                forall i, i = item_id y \/ In i (anchored y) -> In i P /\ In i (ids y) /\ In i (ids_kids xs)).
      { intros y u2 Hy Ey i Hi.
        assert (Hiy : In i (ids y)) by (destruct Hi as [ -> |Hi]; [apply item_id_in_ids|apply (proj1 anchored_incl_ids), Hi]).
        split; [|split; [exact Hiy|eapply in_kids_ids_incl; eassumption]].
        apply Hinxs. clear - Hy Ey Hi. induction xs as [|z zs IHz]; [destruct Hy|]. destruct Hy as [ -> |Hy].
        - destruct Hi as [ -> |Hi]; [apply anchored_kids_member; eapply member_redefiner; exact Ey|apply (anchored_kids_hd z zs), Hi].
        - apply (anchored_kids_tl z zs). apply IHz. exact Hy. }
      cbn [unions_ok] in Hu. cbn [assemble_d kid_starts kids_extent GoodKids2].
      unfold is_redefiner. destruct (item_redef x) as [u|] eqn:Er.
      + (* ---- a redefiner: only a $ref placeholder; its alternative was walked with the redefined item ---- *)
        assert (Hmem : is_member x xs = true) by (eapply member_redefiner; exact Er).
        assert (HxP : In (item_id x) P) by (apply Hin, anchored_kids_member, Hmem).
        apply andb_true_iff in Hu. destruct Hu as [Hu Huxs]. apply andb_true_iff in Hu. destruct Hu as [_ Hf].
        pose proof (assoc_find_pair u bases) as Hp.
        destruct (find (fun p => N.eqb (fst p) u) bases) as [[j extu]|]; [|discriminate]. symmetry in Hp.
        destruct (INV x u extu (or_introl eq_refl) Er Hp) as (su & lx & Hsu & Hlx & Hgx & Hrx).
        rewrite assoc_find, Hsu. rewrite walk_props_cons, walk_ref. cbn [js_anchor reg lsize]; rewrite ?ref_size_0.
        destruct (IH HWxs Hwxs Hsdxs Hkidxs Hinxs Hndxs bases (off + 0) ((item_id x, su) :: seen) an Huxs) as (pls & an' & Hwp & Hgk & Hext).
        * intros u' ext' Hb. destruct (N.eqb (item_id x) u') eqn:E.
          -- apply N.eqb_eq in E. subst u'. exists su. apply assoc_cons_eq.
          -- destruct (HB u' ext' Hb) as (su' & Hs'). exists su'. rewrite assoc_cons_neq; [exact Hs'|].
             intros E'. rewrite E', N.eqb_refl in E. discriminate.
        * intros i Hi. rewrite assoc_cons_neq; [apply Hseen; right; exact Hi|]. intros E. apply Hxnot. rewrite E. exact Hi.
        * intros y u2 ext2 Hy Ey Hb2. destruct (INV y u2 ext2 (or_intror Hy) Ey Hb2) as (su2 & ly & Hs2 & Hl2 & Hg2 & Hr2).
          exists su2, ly. split; [|tauto]. rewrite assoc_cons_neq; [exact Hs2|].
          intros E. rewrite <- E in Hs2. congruence.
        * exists (LPCons (KName (item_id x)) (LRef off (KName (item_id x))) pls), an'.
          rewrite Hwp. rewrite !Nat.add_0_r, Nat.add_0_l. split; [reflexivity|]. split; [|].
          { split.
            - exists su, lx. split; [apply assoc_cons_eq|]. split.
              + split; [exact Hrx|]. rewrite Hmem. exists off. split; [cbn [find_prop]; rewrite key_eqb_refl; reflexivity|].
                rewrite (extends_lookup _ _ _ _ Hext); [exact Hlx|]. apply Hdx; [exact HxP|apply item_id_in_ids].
              + eapply Good2_extends; [exact Hgx|exact Hext|]. intros i Hi. apply Hdx; apply (Hax i Hi).
            - apply GoodKids2_weaken; [|exact Hkeyx]. rewrite Nat.add_0_r in Hgk.
              eapply GoodKids2_starts; [exact Hgk|]. intros y Hy. apply Hstarts. exact Hy. }
          eapply extends_trans; [apply extends_refl|exact Hext| |]; apply K_incl; cbn [ids_kids];
            [apply incl_appr|apply incl_appr]; apply incl_refl.
      + apply andb_true_iff in Hu. destruct Hu as [Het Huxs].
        assert (Hextx : count e (item_oc x) * ext1 e x = extent e x) by reflexivity. rewrite Hextx.
        destruct (HW x (or_introl eq_refl) Hwx HPx off an) as (lx & an1 & Hwalk & Hgx & Hrx & Hlx).
        pose proof (W2_extends x off an lx an1 Hwx Hsdx Hwalk) as Hext1.
        pose proof (Good2_size _ _ _ _ _ _ _ _ Hgx) as Hszx.
        rewrite (member_base x xs Er).
        destruct (existsb (N.eqb (item_id x)) (redef_targets xs)) eqn:Etg.
        * (* ---- the redefined item: oneOf of all members first, then a $ref placeholder ---- *)
          assert (HxP : In (item_id x) P).
          { apply Hin, anchored_kids_member. rewrite (member_base x xs Er). exact Etg. }
          cbn [negb] in Het. rewrite orb_false_r in Het. apply negb_true_iff in Het.
          assert (Hok : forall y, in_kids y xs -> item_redef y = Some (item_id x) -> elem_table y = false /\ extent e y <= extent e x).
          { apply (unions_ok_redefiner e (item_id x) (extent e x) xs _ Huxs); [apply assoc_cons_eq|exact Hxnot]. }
          assert (Hwred : forall y, in_kids y xs -> item_redef y = Some (item_id x) -> wf e y = true)
            by (intros y Hy _; eapply wf_kids_in; eassumption).
          destruct (ALTS2 (item_id x) (extent e x) off xs HWxs Hwred Hsdxs Hinxs Hndxs Hok an1) as (ls & an2 & Hwa & Hmax & Hext2 & Hall).
          set (l1 := LOne off (max_size (LACons lx ls)) (LACons lx ls)).
          assert (Hl1 : lsize l1 = extent e x) by (unfold l1; cbn [lsize max_size]; rewrite Hszx; lia).
          set (an4 := (KRedef (item_id x), l1) :: (KRedef (item_id x), l1) :: an2).
          assert (Hlk4 : forall i, lookup (KName i) an4 = lookup (KName i) an2) by (intros i; reflexivity).
          destruct (IH HWxs Hwxs Hsdxs Hkidxs Hinxs Hndxs ((item_id x, extent e x) :: bases) (off + extent e x + 0) ((item_id x, off) :: seen) an4 Huxs)
            as (pls & an' & Hwp & Hgk & Hext).
          -- intros u' ext' Hb. destruct (N.eqb (item_id x) u') eqn:E.
             ++ apply N.eqb_eq in E. subst u'. exists off. apply assoc_cons_eq.
             ++ assert (Hne : item_id x <> u') by (intros E'; rewrite E', N.eqb_refl in E; discriminate).
                rewrite assoc_cons_neq in Hb by exact Hne. destruct (HB u' ext' Hb) as (su' & Hs'). exists su'.
                rewrite assoc_cons_neq by exact Hne. exact Hs'.
          -- intros i Hi. rewrite assoc_cons_neq; [apply Hseen; right; exact Hi|]. intros E. apply Hxnot. rewrite E. exact Hi.
          -- intros y u2 ext2 Hy Ey Hb2. destruct (N.eqb (item_id x) u2) eqn:E.
             ++ apply N.eqb_eq in E. subst u2. destruct (Hall y Hy Ey) as (ly & Hl & Hg & Hr).
                exists off, ly. split; [apply assoc_cons_eq|]. split; [rewrite Hlk4; exact Hl|]. split; [|exact Hr].
                eapply (proj1 (Good2_stable B dcount r e)); [exact Hg|]. intros i _. apply Hlk4.
             ++ assert (Hne : item_id x <> u2) by (intros E'; rewrite E', N.eqb_refl in E; discriminate).
                rewrite assoc_cons_neq in Hb2 by exact Hne.
                destruct (INV y u2 ext2 (or_intror Hy) Ey Hb2) as (su2 & ly & Hs2 & Hl2 & Hg2 & Hr2).
                exists su2, ly. split; [rewrite assoc_cons_neq by exact Hne; exact Hs2|].
                assert (Hpres : forall i, i = item_id y \/ In i (anchored y) -> lookup (KName i) an4 = lookup (KName i) an).
                { intros i Hi. destruct (Hrely y u2 Hy Ey i Hi) as (HiP & Hiy & Hixs). rewrite Hlk4.
                  rewrite (extends_lookup _ _ _ _ Hext2).
                  - apply (extends_lookup _ _ _ _ Hext1). apply Hdxs; assumption.
                  - intros H. apply K_name in H. revert H. apply (red_ids_other2 P (item_id x) xs y); try assumption.
                    intros E'. rewrite Ey in E'. injection E' as E'. congruence. }
                split; [rewrite Hpres; [exact Hl2|left; reflexivity]|]. split; [|exact Hr2].
                eapply (proj1 (Good2_stable B dcount r e)); [exact Hg2|]. intros i Hi. apply Hpres. right. exact Hi.
          -- exists (LPCons (KRedef (item_id x)) l1 (LPCons (KName (item_id x)) (LRef (off + extent e x) (KName (item_id x))) pls)), an'.
             rewrite walk_props_cons, walk_one, walk_alts_cons, Hwalk, Hwa. fold l1. cbn [js_anchor reg]. fold an4.
             rewrite Hl1, walk_props_cons, walk_ref. cbn [js_anchor reg lsize]; rewrite ?ref_size_0. rewrite Hwp.
             rewrite !Nat.add_0_r, Nat.add_assoc. split; [reflexivity|].
             assert (Hchain : forall i, In i P -> In i (ids x) -> lookup (KName i) an' = lookup (KName i) an1).
             { intros i HiP Hi. rewrite (extends_lookup _ _ _ _ Hext); [|apply Hdx; assumption].
               rewrite Hlk4. apply (extends_lookup _ _ _ _ Hext2). intros H. apply K_name in H. apply red_ids_incl in H.
               cbn [ids_kids] in Hnd. exact (pf_disj _ _ _ i Hnd HiP Hi H). }
             split.
             { split.
               - exists off, lx. split; [apply assoc_cons_eq|]. split.
                 + split; [exact Hrx|]. exists (off + extent e x). split.
                   * cbn [find_prop key_eqb]. rewrite N.eqb_refl. reflexivity.
                   * rewrite Hchain; [apply Hlx; exact Het|exact HxP|apply item_id_in_ids].
                 + eapply (proj1 (Good2_stable B dcount r e)); [exact Hgx|]. intros i Hi. apply Hchain; apply (Hax i Hi).
               - apply GoodKids2_weaken; [apply GoodKids2_weaken; [|exact Hkeyx]|].
                 + rewrite Nat.add_0_r in Hgk. eapply GoodKids2_starts; [exact Hgk|]. intros y Hy. apply Hstarts. exact Hy.
                 + intros H. apply in_map_iff in H. destruct H as (j & Ej & _). discriminate. }
             assert (Hk4 : extends (K (ids x)) an2 an4).
             { exists [(KRedef (item_id x), l1); (KRedef (item_id x), l1)]. split; [reflexivity|].
               intros k Hk. cbn [map fst] in Hk. unfold K. apply in_or_app. right. apply in_map_iff. exists (item_id x).
               destruct Hk as [ <- |[ <- |[]]]; (split; [reflexivity|apply item_id_in_ids]). }
             cbn [ids_kids].
             assert (I1 : incl (K (ids x)) (K (ids x ++ ids_kids xs))) by (apply K_incl, incl_appl, incl_refl).
             assert (I2 : incl (K (ids_kids xs)) (K (ids x ++ ids_kids xs))) by (apply K_incl, incl_appr, incl_refl).
             assert (I3 : incl (K (red_ids (item_id x) xs)) (K (ids x ++ ids_kids xs)))
               by (apply K_incl; eapply incl_tran; [apply red_ids_incl|apply incl_appr, incl_refl]).
             eapply extends_chain; [eapply extends_mono; [exact Hext1|exact I1]|].
             eapply extends_chain; [eapply extends_mono; [exact Hext2|exact I3]|].
             eapply extends_chain; [eapply extends_mono; [exact Hk4|exact I1]|].
             eapply extends_mono; [exact Hext|exact I2].
        * (* ---- an ordinary child ---- *)
          set (an2 := reg (js_anchor (build_alt x)) lx an1).
          assert (Hext2 : extends (K (ids x)) an1 an2).
          { unfold an2. apply extends_reg. intros k Hk. apply (proj1 (keys_build2 e) x Hwx Hsdx).
            destruct (build_alt x); cbn [js_anchor opt_list keys_js] in *; try (apply in_or_app; left; exact Hk); destruct Hk. }
          destruct (IH HWxs Hwxs Hsdxs Hkidxs Hinxs Hndxs ((item_id x, extent e x) :: bases) (off + extent e x) ((item_id x, off) :: seen) an2 Huxs)
            as (pls & an' & Hwp & Hgk & Hext).
          -- intros u' ext' Hb. destruct (N.eqb (item_id x) u') eqn:E.
             ++ apply N.eqb_eq in E. subst u'. exists off. apply assoc_cons_eq.
             ++ assert (Hne : item_id x <> u') by (intros E'; rewrite E', N.eqb_refl in E; discriminate).
                rewrite assoc_cons_neq in Hb by exact Hne. destruct (HB u' ext' Hb) as (su' & Hs'). exists su'.
                rewrite assoc_cons_neq by exact Hne. exact Hs'.
          -- intros i Hi. rewrite assoc_cons_neq; [apply Hseen; right; exact Hi|]. intros E. apply Hxnot. rewrite E. exact Hi.
          -- intros y u2 ext2 Hy Ey Hb2.
             assert (Hne : item_id x <> u2).
             { intros E'. subst u2. assert (In (item_id x) (redef_targets xs)) by (eapply redef_targets_spec; eassumption).
               apply existsb_eqb_In in H. congruence. }
             rewrite assoc_cons_neq in Hb2 by exact Hne.
             destruct (INV y u2 ext2 (or_intror Hy) Ey Hb2) as (su2 & ly & Hs2 & Hl2 & Hg2 & Hr2).
             exists su2, ly. split; [rewrite assoc_cons_neq by exact Hne; exact Hs2|].
             assert (Hpres : forall i, i = item_id y \/ In i (anchored y) -> lookup (KName i) an2 = lookup (KName i) an).
             { intros i Hi. destruct (Hrely y u2 Hy Ey i Hi) as (HiP & Hiy & Hixs).
               assert (Hd : ~ In (KName i) (K (ids x))) by (apply Hdxs; assumption).
               rewrite (extends_lookup _ _ _ _ Hext2 Hd). apply (extends_lookup _ _ _ _ Hext1 Hd). }
             split; [rewrite Hpres; [exact Hl2|left; reflexivity]|]. split; [|exact Hr2].
             eapply (proj1 (Good2_stable B dcount r e)); [exact Hg2|]. intros i Hi. apply Hpres. right. exact Hi.
          -- exists (LPCons (KName (item_id x)) lx pls), an'.
             rewrite walk_props_cons, Hwalk. fold an2. rewrite Hszx, Hwp, Nat.add_assoc. split; [reflexivity|].
             assert (Hchain : forall i, In i P -> In i (ids x) -> lookup (KName i) an' = lookup (KName i) an1).
             { intros i HiP Hi. rewrite (extends_lookup _ _ _ _ Hext); [|apply Hdx; assumption].
               unfold an2. destruct (js_anchor (build_alt x)) as [k|] eqn:Ek; [|reflexivity].
               cbn [reg lookup]. destruct (key_eqb (KName i) k) eqn:Ei; [|reflexivity].
               (* re-registration of x's own anchor with the same location *)
               apply key_eqb_eq in Ei. subst k.
               assert (i = item_id x /\ elem_table x = false) as [-> Hetx].
               { destruct x as [j sz [|n|c] rd|j [|n|c] rd ks]; cbn [build_alt js_anchor elem_items] in Ek;
                   try discriminate; injection Ek as ->; split; reflexivity. }
               symmetry. apply Hlx. exact Hetx. }
             split.
             { split.
               - exists off, lx. split; [apply assoc_cons_eq|]. split.
                 + split; [exact Hrx|]. cbn [find_prop]. rewrite key_eqb_refl. reflexivity.
                 + eapply (proj1 (Good2_stable B dcount r e)); [exact Hgx|]. intros i Hi. apply Hchain; apply (Hax i Hi).
               - apply GoodKids2_weaken; [|exact Hkeyx].
                 eapply GoodKids2_starts; [exact Hgk|]. intros y Hy. apply Hstarts. exact Hy. }
             cbn [ids_kids].
             assert (I1 : incl (K (ids x)) (K (ids x ++ ids_kids xs))) by (apply K_incl, incl_appl, incl_refl).
             assert (I2 : incl (K (ids_kids xs)) (K (ids x ++ ids_kids xs))) by (apply K_incl, incl_appr, incl_refl).
             eapply extends_chain; [eapply extends_mono; [exact Hext1|exact I1]|].
             eapply extends_chain; [eapply extends_mono; [exact Hext2|exact I1]|].
             eapply extends_mono; [exact Hext|exact I2].
  Qed.

  (* the children of a repeated group: no REDEFINES there, so the loop is the ordinary one *)
  Lemma KS_plain2 ks :
    (forall y, in_kids y ks -> W2 y) -> wf_kids e ks = true ->
    sd_kids ks = true -> NoDup (kid_ids ks) -> incl (anchored_kids ks) P -> NoDup (pf P (ids_kids ks)) ->
    redef_targets ks = [] ->
    forall off an, exists pls an',
      walk_props (plain (kid_alts [] ks)) off an = Ok (pls, off + kids_extent e ks, an')
      /\ GoodKids2 (kid_starts e ks off []) pls an' ks /\ extends (K (ids_kids ks)) an an'.
  Proof.
    intros HW Hwf Hsd Hkid Hin Hnd Hno off an. rewrite <- (no_redef_assemble ks Hno).
    apply (KS2 ks HW Hwf Hsd Hkid Hin Hnd [] off [] an).
    - apply no_redef_unions. exact Hno.
    - intros u ext H. discriminate.
    - intros i _. reflexivity.
    - intros y u ext _ _ H. discriminate.
  Qed.

  Theorem W2_all :
    (forall x, W2 x) /\ (forall ks y, in_kids y ks -> W2 y).
  Proof.
    apply item_items_ind.
    - (* elementary *)
      intros i sz oc rd Hw _ st an. cbn [wf item_oc] in Hw. destruct oc as [|n|c]; [| |discriminate].
      + exists (LAtom st sz), (reg (Some (KName i)) (LAtom st sz) an). cbn [build_alt]. rewrite walk_atom.
        split; [reflexivity|]. split; [|split; [reflexivity|]].
        * cbn [LayoutNamesP.Good2 lstart lsize]. unfold extent. cbn [item_oc count ext1]. repeat split; lia.
        * intros _. cbn [item_id reg]. apply lookup_cons_same.
      + cbn [build_alt]. unfold elem_items. rewrite walk_arr, walk_obj, walk_props_cons, walk_atom, walk_props_nil.
        cbn [js_anchor reg lsize]; rewrite ?ref_size_0. rewrite sub_add_cancel.
        eexists. eexists. split; [reflexivity|]. split; [|split; [reflexivity|intros H; discriminate]].
        cbn [LayoutNamesP.Good2 lstart lsize]. unfold extent. cbn [item_oc count ext1]. split; [reflexivity|]. split; [lia|].
        eexists. reflexivity.
    - (* group *)
      intros i oc rd ks IH Hw (Hsd & Hin & Hnd) st an. cbn [wf item_oc] in Hw.
      apply andb_true_iff in Hw. destruct Hw as [Hoc Hw]. apply andb_true_iff in Hw. destruct Hw as [Hwk Hu].
      cbn [siblings_distinct] in Hsd. apply andb_true_iff in Hsd. destruct Hsd as [Hkid Hsdk]. apply nodupb_NoDup in Hkid.
      cbn [anchored] in Hin. cbn [ids] in Hnd.
      assert (Hndk : NoDup (pf P (ids_kids ks))) by (apply pf_cons_tl in Hnd; exact Hnd).
      (* the group's own name is not one of the anchored names below it *)
      assert (Hi : forall j, In j (anchored_kids ks) -> KName j <> KName i).
      { intros j Hj E. injection E as ->. apply (pf_cons_hd P i (ids_kids ks) Hnd); [apply Hin, Hj|].
        apply (proj2 anchored_incl_ids), Hj. }
      destruct oc as [|n|c]; [| |discriminate].
      + rewrite (build_group_once2 e) by assumption. rewrite walk_obj.
        destruct (KS2 ks IH Hwk Hsdk Hkid Hin Hndk [] st [] an Hu) as (pls & an1 & Hwp & Hgk & Hext).
        * intros u ext H. discriminate.
        * intros j _. reflexivity.
        * intros y u ext _ _ H. discriminate.
        * rewrite Hwp, sub_add_cancel. eexists. eexists. split; [reflexivity|]. split; [|split; [reflexivity|]].
          -- cbn [LayoutNamesP.Good2 lstart lsize]. unfold extent. cbn [item_oc count ext1]. split; [reflexivity|]. split; [lia|].
             exists pls. split; [reflexivity|].
             eapply (proj2 (Good2_stable B dcount r e)); [exact Hgk|].
             intros j Hj. cbn [reg lookup]. rewrite key_eqb_neq; [reflexivity|]. apply Hi, Hj.
          -- intros _. cbn [item_id reg]. apply lookup_cons_same.
      + assert (Hno : redef_targets ks = []) by (destruct (redef_targets ks); [reflexivity|discriminate]).
        cbn [build_alt]. fold (occ_schema ks). rewrite walk_arr. unfold occ_schema at 1. rewrite walk_obj.
        destruct (KS_plain2 ks IH Hwk Hsdk Hkid Hin Hndk Hno st an) as (pls & an1 & Hwp & Hgk & Hext).
        rewrite Hwp, sub_add_cancel. cbn [lsize]. eexists. eexists. split; [reflexivity|]. split; [|split; [reflexivity|]].
        * cbn [LayoutNamesP.Good2 lstart lsize]. unfold extent. cbn [item_oc count ext1]. split; [reflexivity|]. split; [lia|].
          eexists. split; [reflexivity|]. intros st'. unfold occ_schema. rewrite walk_obj.
          destruct (KS_plain2 ks IH Hwk Hsdk Hkid Hin Hndk Hno st' []) as (pls' & an' & Hwp' & Hgk' & _).
          rewrite Hwp', sub_add_cancel. exists pls'. eexists. split; [reflexivity|].
          eapply (proj2 (Good2_stable B dcount r e)); [exact Hgk'|]. intros j Hj. reflexivity.
        * intros _. cbn [item_id reg]. apply lookup_cons_same.
    - intros y [].
    - intros x IHx xs IHxs y [ -> |Hy]; [exact IHx|apply IHxs; exact Hy].
  Qed.
End Main2.

(* ------------------------------------------------------------------ the theorems *)
Section Names.
  Variable B : Type.
  Variable dcount : list B -> nat.
  Variable r : list B.
  Variable e : env.
  Notation walk := (Layout.walk dcount r).

  (* the root of the walk is the location of the record, in the sense of LayoutP.v *)
  Lemma root_good (t : item) :
    wf e t = true -> siblings_distinct t = true -> anchored_names_unique t = true ->
    exists l an, walk (build_alt t) 0 [] = Ok (l, an) /\ Good B dcount r e t 0 l an.
  Proof.
    intros Hw Hsd Hu.
    assert (HPt : HP (anchored t) t).
    { split; [exact Hsd|]. split; [apply incl_refl|apply anchored_names_unique_NoDup; exact Hu]. }
    destruct (proj1 (W2_all B dcount r e (anchored t)) t Hw HPt 0 []) as (l & an & Hwalk & Hg & _ & _).
    exists l, an. split; [exact Hwalk|]. apply (proj1 (Good2_Good B dcount r e)). exact Hg.
  Qed.

  (* C01 under the weaker hypothesis on names *)
  Theorem layout_correct_names (t : item) :
    wf e t = true -> siblings_distinct t = true -> anchored_names_unique t = true ->
    exists v0, nav_of dcount r (build t) = Ok v0
      /\ lstart (n_loc v0) = 0 /\ lend (n_loc v0) = extent e t
      /\ forall p v st, spec_nav e (VItem t) 0 p = inl (v, st) ->
           exists nv, nav_path dcount r v0 p = Ok nv
             /\ lstart (n_loc nv) = st /\ lend (n_loc nv) = st + view_size e v
             /\ nav_raw r nv = slice r st (st + view_size e v).
  Proof.
    intros Hw Hsd Hu. destruct (root_good t Hw Hsd Hu) as (l & an & Hwalk & Hg).
    exists (mknav l an). rewrite nav_of_unf. unfold build. rewrite Hwalk. split; [reflexivity|].
    assert (HR : Rel B dcount r e (VItem t) 0 (mknav l an)) by exact Hg.
    destruct (Rel_place _ _ _ _ _ _ _ HR) as [H0 Hsz]. cbn [n_loc view_size] in *. unfold lend. rewrite H0, Hsz.
    split; [reflexivity|]. split; [reflexivity|].
    intros p v st Hs. destruct (nav_path_ok _ _ _ _ p _ _ _ _ _ HR Hs) as (nv & Hn & HRn).
    exists nv. destruct (Rel_place _ _ _ _ _ _ _ HRn) as [H1 H2]. rewrite nav_raw_unf. unfold lend. rewrite H1, H2. tauto.
  Qed.

  Theorem layout_index_refused_names (t : item) :
    wf e t = true -> siblings_distinct t = true -> anchored_names_unique t = true ->
    forall v0, nav_of dcount r (build t) = Ok v0 ->
    forall p x st i, spec_nav e (VItem t) 0 p = inl (VItem x, st) -> is_table x = true -> count e (item_oc x) <= i ->
      exists nv, nav_path dcount r v0 p = Ok nv /\ nav_index dcount r nv i = Err IndexError.
  Proof.
    intros Hw Hsd Hu v0 Hv0 p x st i Hs Ht Hi.
    destruct (root_good t Hw Hsd Hu) as (l & an & Hwalk & Hg).
    rewrite nav_of_unf in Hv0. unfold build in Hv0. rewrite Hwalk in Hv0. injection Hv0 as <-.
    assert (HR : Rel B dcount r e (VItem t) 0 (mknav l an)) by exact Hg.
    destruct (nav_path_ok _ _ _ _ p _ _ _ _ _ HR Hs) as (nv & Hn & HRn).
    exists nv. split; [exact Hn|]. eapply index_refused; eassumption.
  Qed.

  (* without REDEFINES no name is looked up through the anchors map: siblings distinct is all that is needed *)
  Lemma no_redefines_unique (t : item) : no_redefines t = true -> anchored_names_unique t = true.
  Proof.
    intros H. unfold anchored_names_unique. rewrite (proj1 no_redefines_anchored t H). reflexivity.
  Qed.

  Theorem layout_correct_no_redefines (t : item) :
    wf e t = true -> no_redefines t = true -> siblings_distinct t = true ->
    exists v0, nav_of dcount r (build t) = Ok v0
      /\ lstart (n_loc v0) = 0 /\ lend (n_loc v0) = extent e t
      /\ forall p v st, spec_nav e (VItem t) 0 p = inl (v, st) ->
           exists nv, nav_path dcount r v0 p = Ok nv
             /\ lstart (n_loc nv) = st /\ lend (n_loc nv) = st + view_size e v
             /\ nav_raw r nv = slice r st (st + view_size e v).
  Proof.
    intros Hw Hn Hsd. apply layout_correct_names; [exact Hw|exact Hsd|apply no_redefines_unique; exact Hn].
  Qed.
End Names.

(* the old hypothesis is a special case of the new ones *)
Lemma NoDup_nodupb l : NoDup l -> nodupb l = true.
Proof.
  induction l as [|a l IH]; intros H; [reflexivity|]. inversion H as [|? ? Ha Hl]; subst. cbn [nodupb].
  rewrite (IH Hl), andb_true_r. apply negb_true_iff. destruct (existsb (N.eqb a) l) eqn:E; [|reflexivity].
  apply existsb_eqb_In in E. contradiction.
Qed.

Lemma NoDup_siblings_distinct :
  (forall x, NoDup (ids x) -> siblings_distinct x = true) /\
  (forall ks, NoDup (ids_kids ks) -> sd_kids ks = true).
Proof.
  apply item_items_ind.
  - reflexivity.
  - intros i oc rd ks IH H. cbn [ids] in H. inversion H as [|? ? _ Hk]; subst. cbn [siblings_distinct].
    rewrite (IH Hk), andb_true_r. apply NoDup_nodupb, NoDup_ids_kid_ids, Hk.
  - reflexivity.
  - intros x IHx xs IHxs H. cbn [ids_kids] in H. cbn [sd_kids].
    rewrite (IHx (NoDup_app_l _ _ H)), (IHxs (NoDup_app_r _ _ H)). reflexivity.
Qed.

Lemma count_id_NoDup i l : NoDup l -> In i l -> count_id i l = 1.
Proof.
  induction l as [|a l IH]; intros Hnd Hin; [destruct Hin|]. inversion Hnd as [|? ? Ha Hl]; subst.
  rewrite count_id_cons. destruct (N.eqb i a) eqn:E.
  - apply N.eqb_eq in E. subst a. destruct (count_id i l) eqn:Ec; [reflexivity|].
    exfalso. apply Ha. clear - Ec. unfold count_id in Ec.
    destruct (filter (N.eqb i) l) as [|b f] eqn:Ef; [discriminate|].
    assert (Hb : In b (filter (N.eqb i) l)) by (rewrite Ef; left; reflexivity).
    apply filter_In in Hb. destruct Hb as [Hb E]. apply N.eqb_eq in E. subst b. exact Hb.
  - destruct Hin as [ -> |Hin]; [rewrite N.eqb_refl in E; discriminate|]. apply IH; assumption.
Qed.

Lemma NoDup_anchored_names_unique t : NoDup (ids t) -> anchored_names_unique t = true.
Proof.
  intros H. unfold anchored_names_unique. apply forallb_forall. intros i Hi. apply Nat.eqb_eq.
  apply count_id_NoDup; [exact H|apply (proj1 anchored_incl_ids), Hi].
Qed.

(* ------------------------------------------------------------------ the boundary is the judge's trigger
   JC01 reports K-duplicate-name-union on the trees for which Judge/JLayoutCommon.v dup_union_name holds.  On the
   well-formed trees with distinct siblings that is exactly the complement of anchored_names_unique. *)
Require SR.Judge.JLayoutCommon.

Lemma all_ids_ids :
  (forall x, JLayoutCommon.all_ids x = ids x) /\ (forall ks, JLayoutCommon.all_ids_kids ks = ids_kids ks).
Proof.
  apply item_items_ind.
  - reflexivity.
  - intros i oc rd ks IH. cbn [JLayoutCommon.all_ids ids]. rewrite IH. reflexivity.
  - reflexivity.
  - intros x IHx xs IHxs. cbn [JLayoutCommon.all_ids_kids ids_kids]. rewrite IHx, IHxs. reflexivity.
Qed.

Lemma existsb_eqb_false (u : id) (l : list id) : ~ In u l -> @existsb id (N.eqb u) l = false.
Proof. intros H. destruct (@existsb id (N.eqb u) l) eqn:E; [apply existsb_eqb_In in E; contradiction|reflexivity]. Qed.

Lemma union_ids_anchored e :
  (forall x, wf e x = true -> siblings_distinct x = true -> JLayoutCommon.union_member_ids x = anchored x) /\
  (forall ks, wf_kids e ks = true -> sd_kids ks = true ->
     forall bases tg0, sib_ok bases ks = true -> NoDup (kid_ids ks) ->
       (forall j, In j (kid_ids ks) -> ~ In j bases /\ ~ In j tg0) ->
       JLayoutCommon.kids_union_ids (tg0 ++ redef_targets ks) ks = anchored_kids ks).
Proof.
  apply item_items_ind.
  - reflexivity.
  - intros i oc rd ks IH Hw Hsd. cbn [wf] in Hw. apply andb_true_iff in Hw. destruct Hw as [Hoc Hw].
    apply andb_true_iff in Hw. destruct Hw as [Hk Hu]. cbn [siblings_distinct] in Hsd.
    apply andb_true_iff in Hsd. destruct Hsd as [Hnd Hsdk]. apply nodupb_NoDup in Hnd.
    cbn [JLayoutCommon.union_member_ids anchored].
    assert (Hsib : sib_ok [] ks = true).
    { apply (unions_sib_ok e [] ks). destruct oc as [|n|c]; [exact Hu| |discriminate].
      apply no_redef_unions. destruct (redef_targets ks); [reflexivity|discriminate]. }
    apply (IH Hk Hsdk [] [] Hsib Hnd). intros j _. split; intros [].
  - reflexivity.
  - intros x IHx xs IHxs Hw Hsd bases tg0 Hsib Hnd Hfresh.
    cbn [wf_kids] in Hw. apply andb_true_iff in Hw. destruct Hw as [Hwx Hwxs].
    cbn [sd_kids] in Hsd. apply andb_true_iff in Hsd. destruct Hsd as [Hsx Hsxs].
    cbn [kid_ids] in Hnd, Hfresh. inversion Hnd as [|? ? Hxnot Hndxs]; subst.
    cbn [JLayoutCommon.kids_union_ids anchored_kids redef_targets sib_ok] in *. rewrite (IHx Hwx Hsx).
    rewrite union_of_unf. unfold is_member, is_redefiner. destruct (item_redef x) as [u|] eqn:Er.
    + assert (Hb : forall (b : bool) (p q : list id),
                match (if b then Some (item_id x) else Some u) with Some _ => p | None => q end = p)
        by (intros []; reflexivity).
      rewrite Hb. clear Hb.
      apply andb_true_iff in Hsib. destruct Hsib as [Hub Hsib]. apply existsb_eqb_In in Hub.
      cbn [orb]. f_equal. f_equal.
      change (tg0 ++ u :: redef_targets xs) with (tg0 ++ [u] ++ redef_targets xs). rewrite app_assoc.
      apply (IHxs Hwxs Hsxs bases (tg0 ++ [u]) Hsib Hndxs).
      intros j Hj. destruct (Hfresh j (or_intror Hj)) as [H1 H2]. split; [exact H1|].
      intros H. apply in_app_or in H. destruct H as [H|[ <- |[]]]; [exact (H2 H)|exact (H1 Hub)].
    + cbn [orb]. rewrite existsb_app. change (@existsb N) with (@existsb id).
      rewrite (existsb_eqb_false (item_id x) tg0) by (apply (Hfresh (item_id x)); left; reflexivity). cbn [orb].
      rewrite (IHxs Hwxs Hsxs (item_id x :: bases) tg0 Hsib Hndxs);
        [destruct (@existsb id (N.eqb (item_id x)) (redef_targets xs)); reflexivity|].
      intros j Hj. destruct (Hfresh j (or_intror Hj)) as [H1 H2]. split; [|exact H2].
      intros [ <- |H]; [exact (Hxnot Hj)|exact (H1 H)].
Qed.

Lemma forallb_one_negb_two (L l : list id) :
  incl l L -> forallb (fun i => count_id i L =? 1) l = negb (existsb (fun i => 2 <=? count_id i L) l).
Proof.
  induction l as [|a l IH]; intros H; [reflexivity|]. cbn [forallb existsb].
  rewrite IH by (intros i Hi; apply H; right; exact Hi). rewrite negb_orb. f_equal.
  assert (Ha : 1 <= count_id a L) by (apply count_id_In, H; left; reflexivity).
  destruct (count_id a L =? 1) eqn:E1; destruct (2 <=? count_id a L) eqn:E2; try reflexivity.
  - apply Nat.eqb_eq in E1. apply Nat.leb_le in E2. lia.
  - apply Nat.eqb_neq in E1. apply Nat.leb_gt in E2. lia.
Qed.

Lemma unique_iff_not_known e t :
  wf e t = true -> siblings_distinct t = true ->
  anchored_names_unique t = negb (JLayoutCommon.dup_union_name t).
Proof.
  intros Hw Hsd. unfold anchored_names_unique, JLayoutCommon.dup_union_name.
  rewrite (proj1 all_ids_ids t), (proj1 (union_ids_anchored e) t Hw Hsd).
  apply forallb_one_negb_two. apply (proj1 anchored_incl_ids).
Qed.

Lemma dup_tree_facts :
  wf (fun _ => 0) dup_tree = true /\ siblings_distinct dup_tree = true /\ anchored_names_unique dup_tree = false
  /\ JLayoutCommon.dup_union_name dup_tree = true
  /\ spec_nav (fun _ => 0) (VItem dup_tree) 0 [PName 2%N] = inl (VItem (Elem 2%N 4 Once None), 0)
  /\ exists v0 nv, nav_of (fun _ : list unit => 0) [] (build dup_tree) = Ok v0
       /\ nav_path (fun _ : list unit => 0) [] v0 [PName 2%N] = Ok nv
       /\ lstart (n_loc nv) = 4 /\ lend (n_loc nv) = 6.
Proof.
  split; [reflexivity|]. split; [reflexivity|]. split; [reflexivity|]. split; [vm_compute; reflexivity|].
  split; [reflexivity|].
  destruct (nav_of (fun _ : list unit => 0) [] (build dup_tree)) as [v0|ex] eqn:E0; [|vm_compute in E0; discriminate].
  exists v0. destruct (nav_path (fun _ : list unit => 0) [] v0 [PName 2%N]) as [nv|ex] eqn:E1.
  - exists nv. split; [reflexivity|]. split; [reflexivity|].
    vm_compute in E0. injection E0 as <-. vm_compute in E1. injection E1 as <-. split; reflexivity.
  - vm_compute in E0. injection E0 as <-. vm_compute in E1. discriminate.
Qed.

(* distinct siblings alone are not enough *)
Lemma layout_siblings_only_refuted :
  ~ (forall (B : Type) (dcount : list B -> nat) (r : list B) (e : env) (t : item),
       wf e t = true -> siblings_distinct t = true ->
       exists v0, nav_of dcount r (build t) = Ok v0
         /\ lstart (n_loc v0) = 0 /\ lend (n_loc v0) = extent e t
         /\ forall p v st, spec_nav e (VItem t) 0 p = inl (v, st) ->
              exists nv, nav_path dcount r v0 p = Ok nv
                /\ lstart (n_loc nv) = st /\ lend (n_loc nv) = st + view_size e v
                /\ nav_raw r nv = slice r st (st + view_size e v)).
Proof.
  intros H.
  destruct (H unit (fun _ => 0) [] (fun _ => 0) dup_tree eq_refl eq_refl) as (v0 & Hnav & _ & _ & Hp).
  destruct dup_tree_facts as (_ & _ & _ & _ & Hs & v0' & nv' & Hnav' & Hpath' & Hst' & _).
  destruct (Hp _ _ _ Hs) as (nv & Hpath & Hst & _).
  rewrite Hnav in Hnav'. injection Hnav' as <-. rewrite Hpath in Hpath'. injection Hpath' as <-.
  rewrite Hst in Hst'. discriminate.
Qed.

Lemma dup_before_facts :
  wf (fun _ => 0) dup_before_tree = true /\ siblings_distinct dup_before_tree = true
  /\ anchored_names_unique dup_before_tree = false
  /\ exists v0 a b c, nav_of (fun _ : list unit => 0) [] (build dup_before_tree) = Ok v0
       /\ nav_path (fun _ : list unit => 0) [] v0 [PName 2%N] = Ok a /\ lstart (n_loc a) = 2 /\ lend (n_loc a) = 6
       /\ nav_path (fun _ : list unit => 0) [] v0 [PName 4%N] = Ok b /\ lstart (n_loc b) = 2 /\ lend (n_loc b) = 3
       /\ nav_path (fun _ : list unit => 0) [] v0 [PName 3%N; PName 2%N] = Ok c /\ lstart (n_loc c) = 0 /\ lend (n_loc c) = 2.
Proof.
  split; [reflexivity|]. split; [reflexivity|]. split; [reflexivity|].
  destruct (nav_of (fun _ : list unit => 0) [] (build dup_before_tree)) as [v0|ex] eqn:E0; [|vm_compute in E0; discriminate].
  vm_compute in E0. injection E0 as <-.
  eexists. eexists. eexists. eexists. split; [reflexivity|].
  split; [vm_compute; reflexivity|]. split; [reflexivity|]. split; [reflexivity|].
  split; [vm_compute; reflexivity|]. split; [reflexivity|]. split; [reflexivity|].
  split; [vm_compute; reflexivity|]. split; reflexivity.
Qed.
