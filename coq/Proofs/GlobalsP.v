(* Lemmas for C11: with the modes of the repaired tree every output of the state machine of
   Model/Globals.v is the same from every reachable state; with either old mode it is not. *)
From Coq Require Import NArith List Bool Arith Lia.
Import ListNotations.
Require Import SR.Base.Res SR.Model.Globals.
Require SR.Model.Structure.
(* The definitions of this development that occur in theorem statements (Props/) live in Spec/GlobalsWf.v (audit item G1).
   The abbreviations keep the qualified names GlobalsP.name of other files resolving; they are parsing-only aliases. *)
Require Export SR.Spec.GlobalsWf.
Notation history_independent_for := SR.Spec.GlobalsWf.history_independent_for (only parsing).
Notation L05 := SR.Spec.GlobalsWf.L05 (only parsing).
Notation text_05_filler := SR.Spec.GlobalsWf.text_05_filler (only parsing).
Notation filler_entry := SR.Spec.GlobalsWf.filler_entry (only parsing).
Notation fragment := SR.Spec.GlobalsWf.fragment (only parsing).
Notation fname := SR.Spec.GlobalsWf.fname (only parsing).

(* ------------------------------------------------------------------ repaired modes *)

(* what every reachable state satisfies: nobody has put decimal into SchemaMaker.ATOMIC *)
Definition inv (g : globals) : Prop := atomic_has_decimal g = false.

Lemma inv_init : inv init.
Proof. reflexivity. Qed.

Lemma inv_step : forall g o, inv g -> inv (fst (step_m fixed_modes g o)).
Proof.
  intros g o H. unfold inv in *.
  destruct o; cbn [step_m fst ext_made fixed_modes m_ext_mutates m_reset set_count set_decimal set_navs
                   atomic_has_decimal]; try assumption.
  destruct keep; cbn [set_navs atomic_has_decimal]; assumption.
Qed.

Lemma inv_run : forall h g, inv g -> inv (run_m fixed_modes g h).
Proof.
  induction h as [|o h IH]; intros g H; cbn [run_m]; [assumption|].
  apply IH. apply inv_step. assumption.
Qed.

(* the output of one call does not depend on the state it is made in *)
Lemma out_indep : forall g1 g2 o, inv g1 -> inv g2 ->
  snd (step_m fixed_modes g1 o) = snd (step_m fixed_modes g2 o).
Proof.
  intros g1 g2 o H1 H2. unfold inv in *.
  destruct o; cbn [step_m snd start_count fixed_modes m_reset m_ext_mutates]; try reflexivity.
  rewrite H1, H2. reflexivity.
Qed.

Lemma outs_indep : forall qs g1 g2, inv g1 -> inv g2 ->
  outs_m fixed_modes g1 qs = outs_m fixed_modes g2 qs.
Proof.
  induction qs as [|o qs IH]; intros g1 g2 H1 H2; cbn [outs_m]; [reflexivity|].
  rewrite (out_indep g1 g2 o H1 H2). f_equal.
  apply IH; apply inv_step; assumption.
Qed.

Lemma fixed_independent : history_independent_for fixed_modes.
Proof.
  intros h qs. apply outs_indep; [apply inv_run|]; apply inv_init.
Qed.

(* the tree under test has the repaired modes: this is where a change of Gen/GlobalsParams.v breaks the proof *)
Lemma gen_is_fixed : gen_modes = fixed_modes.
Proof. reflexivity. Qed.

Lemma gen_independent : forall (h qs : list op), outs (run init h) qs = outs init qs.
Proof.
  unfold outs, run. rewrite gen_is_fixed. exact fixed_independent.
Qed.

Lemma gen_independent_one : forall (h : list op) (q : op), out_of (run init h) q = out_of init q.
Proof.
  intros h q. pose proof (gen_independent h [q]) as H. unfold outs in H. cbn [outs_m] in H.
  unfold out_of, step. injection H as H. exact H.
Qed.

Lemma gen_deterministic_parse : forall (h1 h2 : list op) (es : list entry),
  out_of (run init (h1 ++ ParseCopybook es :: h2)) (ParseCopybook es)
  = out_of (run init h1) (ParseCopybook es).
Proof.
  intros. rewrite !gen_independent_one. reflexivity.
Qed.

(* the names a parse assigns are those of a counter that starts at zero *)
Lemma gen_parse_names : forall (h : list op) (es : list entry),
  out_of (run init h) (ParseCopybook es) = ONames (names_of 0 es).
Proof.
  intros. rewrite gen_independent_one. unfold out_of, step. rewrite gen_is_fixed. reflexivity.
Qed.

(* the standard loader rejects decimal whatever happened before *)
Lemma gen_load_decimal : forall (h : list op) (ts : list str),
  out_of (run init h) (LoadSchema ts) = OLoad (load false ts).
Proof.
  intros. rewrite gen_independent_one. unfold out_of, step. rewrite gen_is_fixed. reflexivity.
Qed.

(* ------------------------------------------------------------------ the old modes *)

Lemma fragment_twice_old : forall ext,
  outs_m {| m_reset := false; m_ext_mutates := ext |} init [ParseCopybook fragment; ParseCopybook fragment]
  = [ONames (Ok [fname 1; fname 2]); ONames (Ok [fname 3; fname 4])].
Proof. intros ext. vm_compute. reflexivity. Qed.

Lemma fragment_once_any : forall m,
  outs_m m init [ParseCopybook fragment] = [ONames (Ok [fname 1; fname 2])].
Proof. intros [r e]. destruct r; vm_compute; reflexivity. Qed.

Lemma decimal_after_ext_old : forall rs,
  outs_m {| m_reset := rs; m_ext_mutates := true |} init [MakeExtendedMaker; LoadSchema [decimal_name]]
  = [OUnit; OLoad (Ok tt)].
Proof. intros rs. destruct rs; vm_compute; reflexivity. Qed.

Lemma decimal_alone_any : forall m,
  outs_m m init [LoadSchema [decimal_name]] = [OLoad (Err ValueError)].
Proof. intros [r e]. vm_compute. reflexivity. Qed.

Lemma no_reset_refuted : forall ext, ~ history_independent_for {| m_reset := false; m_ext_mutates := ext |}.
Proof.
  intros ext H.
  specialize (H [ParseCopybook fragment] [ParseCopybook fragment]).
  destruct ext; vm_compute in H; discriminate H.
Qed.

Lemma ext_mutates_refuted : forall rs, ~ history_independent_for {| m_reset := rs; m_ext_mutates := true |}.
Proof.
  intros rs H.
  specialize (H [MakeExtendedMaker] [LoadSchema [decimal_name]]).
  destruct rs; vm_compute in H; discriminate H.
Qed.

Lemma independent_iff : forall m,
  history_independent_for m <-> (m_reset m = true /\ m_ext_mutates m = false).
Proof.
  intros [r e]; split.
  - intros H. destruct r.
    + destruct e; [exfalso; exact (ext_mutates_refuted true H) | split; reflexivity].
    + exfalso. exact (no_reset_refuted e H).
  - cbn. intros [Hr He]. subst. exact fixed_independent.
Qed.
