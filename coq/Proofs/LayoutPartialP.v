(* Lemmas for C10d: the navigator constructor with a PARTIAL counter decoder (Model/LayoutPartial.v).

   (1) walkvp_prepass   the res-valued copy of the walk = the pre-pass over the existing total walk, for every schema,
                        start and anchors; generic in the rules of Gen/LayoutParams.v (both sides evaluate the same rules).
   (2) walkvp_agree     where every counter the walk reaches decodes, the partial walk is the total walk of ANY total
                        decoder that agrees with the partial one on those counters.
   (3) corollaries for navigators, and - through Proofs/LayoutValueOdoP.v - laziness and index commutation for the ODO
       family (wfo) stated with the partial constructor. *)
From Coq Require Import List Arith NArith ZArith Bool Lia.
Import ListNotations.
Require Import SR.Base.Res SR.Spec.Layout SR.Model.LayoutRule SR.Gen.LayoutParams SR.Model.Layout SR.Model.LayoutValue SR.Spec.Coherence.
Require Import SR.Model.LayoutPartial.
Require Import SR.Proofs.LayoutValueP SR.Proofs.LayoutP SR.Proofs.LayoutOdoP SR.Proofs.LayoutValueOdoP.
Open Scope nat_scope.

(* ------------------------------------------------------------------ unfolding equations of the three mutual walks (by computation;
   generic in the rules: both sides evaluate Gen/LayoutParams.v) *)
Section Unf.
  Variable B : Type.
  Variable r : list B.

  Lemma walkv_obj_g : forall (dc : list B -> nat) a ps st an,
    walkv dc r (JObj a ps) st an =
    match dispatch CObject with
    | Some CObject =>
        match walkv_props dc r ps (eval (env_start st) obj_first_offset) an with
        | Err e => Err e
        | Ok (pls, off, an1) =>
            let v := env_obj st off in
            let l := WObj (loc_start (eval v obj_start) (eval v obj_end)) (wobj_size (eval v obj_start) (eval v obj_end) pls) pls in
            Ok (l, wpost_reg a l an1)
        end
    | _ => Err DesignError
    end.
  Proof. reflexivity. Qed.
  Lemma walkv_one_g : forall (dc : list B -> nat) a alts st an,
    walkv dc r (JOne a alts) st an =
    match dispatch COneOf with
    | Some COneOf =>
        match alts, agg_empty one_agg with
        | ANil, Err e => Err e
        | _, _ =>
            match walkv_alts dc r alts (eval (env_start st) one_alt_start) an with
            | Err e => Err e
            | Ok (als, an1) =>
                let v := env_one st (wagg_alts one_agg als) in
                let l := WOne (loc_start (eval v one_start) (eval v one_end)) (loc_size (eval v one_start) (eval v one_end)) als in
                Ok (l, wpost_reg a l an1)
            end
        end
    | _ => Err DesignError
    end.
  Proof. reflexivity. Qed.
  Lemma walkv_props_cons_g : forall (dc : list B -> nat) k p rest off an,
    walkv_props dc r (PCons k p rest) off an =
    match walkv dc r p (eval (env_off off) obj_child_start) an with
    | Err e => Err e
    | Ok (pl, an1) =>
        match walkv_props dc r rest (eval (env_step off (wsize pl)) obj_step) (wloop_reg (js_anchor p) pl an1) with
        | Err e => Err e
        | Ok (rl, off', an2) => Ok (WPCons k pl rl, off', an2)
        end
    end.
  Proof. reflexivity. Qed.
  Lemma walkv_alts_cons_g : forall (dc : list B -> nat) s rest st an,
    walkv_alts dc r (ACons s rest) st an =
    match walkv dc r s st an with
    | Err e => Err e
    | Ok (l, an1) =>
        match walkv_alts dc r rest st an1 with
        | Err e => Err e
        | Ok (ls, an2) => Ok (WACons l ls, an2)
        end
    end.
  Proof. reflexivity. Qed.

  Lemma walkvp_obj_g : forall (dp : list B -> res nat) a ps st an,
    walkvp dp r (JObj a ps) st an =
    match dispatch CObject with
    | Some CObject =>
        match walkvp_props dp r ps (eval (env_start st) obj_first_offset) an with
        | Err e => Err e
        | Ok (pls, off, an1) =>
            let v := env_obj st off in
            let l := WObj (loc_start (eval v obj_start) (eval v obj_end)) (wobj_size (eval v obj_start) (eval v obj_end) pls) pls in
            Ok (l, wpost_reg a l an1)
        end
    | _ => Err DesignError
    end.
  Proof. reflexivity. Qed.
  Lemma walkvp_one_g : forall (dp : list B -> res nat) a alts st an,
    walkvp dp r (JOne a alts) st an =
    match dispatch COneOf with
    | Some COneOf =>
        match alts, agg_empty one_agg with
        | ANil, Err e => Err e
        | _, _ =>
            match walkvp_alts dp r alts (eval (env_start st) one_alt_start) an with
            | Err e => Err e
            | Ok (als, an1) =>
                let v := env_one st (wagg_alts one_agg als) in
                let l := WOne (loc_start (eval v one_start) (eval v one_end)) (loc_size (eval v one_start) (eval v one_end)) als in
                Ok (l, wpost_reg a l an1)
            end
        end
    | _ => Err DesignError
    end.
  Proof. reflexivity. Qed.
  Lemma walkvp_props_cons_g : forall (dp : list B -> res nat) k p rest off an,
    walkvp_props dp r (PCons k p rest) off an =
    match walkvp dp r p (eval (env_off off) obj_child_start) an with
    | Err e => Err e
    | Ok (pl, an1) =>
        match walkvp_props dp r rest (eval (env_step off (wsize pl)) obj_step) (wloop_reg (js_anchor p) pl an1) with
        | Err e => Err e
        | Ok (rl, off', an2) => Ok (WPCons k pl rl, off', an2)
        end
    end.
  Proof. reflexivity. Qed.
  Lemma walkvp_alts_cons_g : forall (dp : list B -> res nat) s rest st an,
    walkvp_alts dp r (ACons s rest) st an =
    match walkvp dp r s st an with
    | Err e => Err e
    | Ok (l, an1) =>
        match walkvp_alts dp r rest st an1 with
        | Err e => Err e
        | Ok (ls, an2) => Ok (WACons l ls, an2)
        end
    end.
  Proof. reflexivity. Qed.

  Lemma cpos_obj_g : forall (dc : list B -> nat) a ps st an,
    cpos dc r (JObj a ps) st an =
    match dispatch CObject with
    | Some CObject => cpos_props dc r ps (eval (env_start st) obj_first_offset) an
    | _ => []
    end.
  Proof. reflexivity. Qed.
  Lemma cpos_one_g : forall (dc : list B -> nat) a alts st an,
    cpos dc r (JOne a alts) st an =
    match dispatch COneOf with
    | Some COneOf =>
        match alts, agg_empty one_agg with
        | ANil, Err _ => []
        | _, _ => cpos_alts dc r alts (eval (env_start st) one_alt_start) an
        end
    | _ => []
    end.
  Proof. reflexivity. Qed.
  Lemma cpos_props_cons_g : forall (dc : list B -> nat) k p rest off an,
    cpos_props dc r (PCons k p rest) off an =
    cpos dc r p (eval (env_off off) obj_child_start) an ++
    match walkv dc r p (eval (env_off off) obj_child_start) an with
    | Err _ => []
    | Ok (pl, an1) => cpos_props dc r rest (eval (env_step off (wsize pl)) obj_step) (wloop_reg (js_anchor p) pl an1)
    end.
  Proof. reflexivity. Qed.
  Lemma cpos_alts_cons_g : forall (dc : list B -> nat) s rest st an,
    cpos_alts dc r (ACons s rest) st an =
    cpos dc r s st an ++
    match walkv dc r s st an with
    | Err _ => []
    | Ok (_, an1) => cpos_alts dc r rest st an1
    end.
  Proof. reflexivity. Qed.
End Unf.

Section P.
  Variable B : Type.
  Variable dcountp : list B -> res nat.
  Variable r : list B.

  Lemma first_err_app : forall a b,
    first_err dcountp (a ++ b) = match first_err dcountp a with Some e => Some e | None => first_err dcountp b end.
  Proof.
    induction a as [|x a IH]; intros b; [reflexivity|]. cbn [app first_err].
    destruct (dcountp x); [apply IH|reflexivity].
  Qed.

  Lemma dtot_ok : forall bs n, dcountp bs = Ok n -> dtot dcountp bs = n.
  Proof. intros bs n E. unfold dtot. now rewrite E. Qed.

  Definition FE (l : list (nat * nat)) : option exn := first_err dcountp (map (field_of r) l).

  Lemma FE_app : forall a b, FE (a ++ b) = match FE a with Some e => Some e | None => FE b end.
  Proof. intros a b. unfold FE. rewrite map_app. apply first_err_app. Qed.

  Lemma FE_nil : FE [] = None.
  Proof. reflexivity. Qed.

  (* ---------------------------------------------------------------- (1) copy of the walk = pre-pass + existing walk *)
  Lemma walkvp_prepass_all :
    (forall s st an,
       walkvp dcountp r s st an =
       match FE (cpos (dtot dcountp) r s st an) with Some e => Err e | None => walkv (dtot dcountp) r s st an end)
    /\ (forall ps off an,
       walkvp_props dcountp r ps off an =
       match FE (cpos_props (dtot dcountp) r ps off an) with Some e => Err e | None => walkv_props (dtot dcountp) r ps off an end)
    /\ (forall alts st an,
       walkvp_alts dcountp r alts st an =
       match FE (cpos_alts (dtot dcountp) r alts st an) with Some e => Err e | None => walkv_alts (dtot dcountp) r alts st an end).
  Proof.
    apply js_props_alts_ind.
    - (* JAtom *) intros a sz st an. reflexivity.
    - (* JArr *) intros a n its IH st an. cbn [walkvp walkv cpos].
      destruct (dispatch CArray) as [[]|]; try reflexivity.
      destruct (arr_count n) as [cnt|e]; [|reflexivity].
      rewrite IH. destruct (FE (cpos (dtot dcountp) r its (eval (env_arr st 0 cnt) arr_item_start) an)); reflexivity.
    - (* JOdo *) intros a c its IH st an. cbn [walkvp walkv cpos].
      destruct (dispatch CDependsOn) as [[]|]; [reflexivity| | |reflexivity|reflexivity|reflexivity|reflexivity].
      + (* the DependsOnArraySchema case *)
        unfold wodo_countp, wodo_count, odo_cpos. destruct odo_count_src.
        * cbn [app]. rewrite IH.
          destruct (FE (cpos (dtot dcountp) r its (eval (env_arr st 0 0) odo_item_start) an)); reflexivity.
        * destruct (wlookup (KName c) an) as [[ca cst csz| | | |]|]; try reflexivity.
          rewrite FE_app. unfold FE at 1. cbn [map first_err]. unfold field_of. cbn [fst snd].
          destruct (dcountp (slice r cst (cst + csz))) as [n|e] eqn:E; [|reflexivity].
          rewrite (dtot_ok _ _ E). rewrite IH.
          destruct (FE (cpos (dtot dcountp) r its (eval (env_arr st 0 n) odo_item_start) an)); reflexivity.
      + (* the ArraySchema case comes first *)
        destruct odo_as_arr_count as [cnt|e]; [|reflexivity].
        rewrite IH. destruct (FE (cpos (dtot dcountp) r its (eval (env_arr st 0 cnt) arr_item_start) an)); reflexivity.
    - (* JObj *) intros a ps IH st an. rewrite walkvp_obj_g, walkv_obj_g, cpos_obj_g.
      destruct (dispatch CObject) as [[]|]; try reflexivity.
      rewrite IH. destruct (FE (cpos_props (dtot dcountp) r ps (eval (env_start st) obj_first_offset) an)); reflexivity.
    - (* JOne *) intros a alts IH st an. rewrite walkvp_one_g, walkv_one_g, cpos_one_g.
      destruct (dispatch COneOf) as [[]|]; try reflexivity.
      destruct alts as [|s0 rest]; destruct (agg_empty one_agg) as [z|e]; try reflexivity;
        rewrite IH;
        match goal with |- context [FE ?l] => destruct (FE l) end; reflexivity.
    - (* JRef *) intros t st an. reflexivity.
    - (* PNil *) intros off an. reflexivity.
    - (* PCons *) intros k s IHs rest IHr off an. rewrite walkvp_props_cons_g, walkv_props_cons_g, cpos_props_cons_g.
      rewrite FE_app, IHs.
      destruct (FE (cpos (dtot dcountp) r s (eval (env_off off) obj_child_start) an)) as [e|]; [reflexivity|].
      destruct (walkv (dtot dcountp) r s (eval (env_off off) obj_child_start) an) as [[pl an1]|e]; [|reflexivity].
      rewrite IHr.
      match goal with |- context [FE ?l] => destruct (FE l) end; reflexivity.
    - (* ANil *) intros st an. reflexivity.
    - (* ACons *) intros s IHs rest IHr st an. rewrite walkvp_alts_cons_g, walkv_alts_cons_g, cpos_alts_cons_g.
      rewrite FE_app, IHs.
      destruct (FE (cpos (dtot dcountp) r s st an)) as [e|]; [reflexivity|].
      destruct (walkv (dtot dcountp) r s st an) as [[l an1]|e]; [|reflexivity].
      rewrite IHr.
      match goal with |- context [FE ?l] => destruct (FE l) end; reflexivity.
  Qed.

  Theorem walkvp_prepass : forall s st an, walkvp dcountp r s st an = walk_prepass dcountp r s st an.
  Proof. intros s st an. exact (proj1 walkvp_prepass_all s st an). Qed.

  Theorem vnav_ofp_prepass : forall s, vnav_ofp dcountp r s = vnav_of_prepass dcountp r s.
  Proof.
    intros s. unfold vnav_ofp, vfrom_instancep, vnav_of_prepass, bad_counter, nav_ctrs, nav_cpos, vnav_of, vfrom_instance.
    rewrite (proj1 walkvp_prepass_all). unfold FE.
    destruct (first_err dcountp (map (field_of r) (cpos (dtot dcountp) r s (eval (env_start from_instance_default) from_instance_start) [])));
      reflexivity.
  Qed.
End P.

(* ------------------------------------------------------------------ (2) where the counters reached decode, any agreeing total decoder *)
Section Agree.
  Variable B : Type.
  Variable dcountp : list B -> res nat.
  Variable dcount : list B -> nat.
  Variable r : list B.

  Definition decodes_as (l : list (nat * nat)) : Prop :=
    forall p, In p l -> dcountp (field_of r p) = Ok (dcount (field_of r p)).

  Lemma decodes_app_l : forall a b, decodes_as (a ++ b) -> decodes_as a.
  Proof. intros a b H p Hp. apply H. apply in_or_app. now left. Qed.
  Lemma decodes_app_r : forall a b, decodes_as (a ++ b) -> decodes_as b.
  Proof. intros a b H p Hp. apply H. apply in_or_app. now right. Qed.

  Lemma walkvp_agree_all :
    (forall s st an, decodes_as (cpos dcount r s st an) -> walkvp dcountp r s st an = walkv dcount r s st an)
    /\ (forall ps off an, decodes_as (cpos_props dcount r ps off an) -> walkvp_props dcountp r ps off an = walkv_props dcount r ps off an)
    /\ (forall alts st an, decodes_as (cpos_alts dcount r alts st an) -> walkvp_alts dcountp r alts st an = walkv_alts dcount r alts st an).
  Proof.
    apply js_props_alts_ind.
    - intros a sz st an _. reflexivity.
    - intros a n its IH st an H. cbn [walkvp walkv cpos] in *.
      destruct (dispatch CArray) as [[]|]; try reflexivity.
      destruct (arr_count n) as [cnt|e]; [|reflexivity]. now rewrite IH.
    - intros a c its IH st an H. cbn [walkvp walkv cpos] in *.
      destruct (dispatch CDependsOn) as [[]|]; [reflexivity| | |reflexivity|reflexivity|reflexivity|reflexivity].
      + unfold wodo_countp, wodo_count, odo_cpos in *. destruct odo_count_src.
        * cbn [app] in H. now rewrite IH.
        * destruct (wlookup (KName c) an) as [[ca cst csz| | | |]|]; try reflexivity.
          pose proof (H (cst, csz) (or_introl eq_refl)) as Hc. unfold field_of in Hc. cbn [fst snd] in Hc.
          rewrite Hc. rewrite IH; [reflexivity|]. exact (decodes_app_r _ _ H).
      + destruct odo_as_arr_count as [cnt|e]; [|reflexivity]. now rewrite IH.
    - intros a ps IH st an H. rewrite walkvp_obj_g, walkv_obj_g. rewrite cpos_obj_g in H.
      destruct (dispatch CObject) as [[]|]; try reflexivity. now rewrite IH.
    - intros a alts IH st an H. rewrite walkvp_one_g, walkv_one_g. rewrite cpos_one_g in H.
      destruct (dispatch COneOf) as [[]|]; try reflexivity.
      destruct alts as [|s0 rest]; destruct (agg_empty one_agg) as [z|e]; try reflexivity; now rewrite IH.
    - intros t st an _. reflexivity.
    - intros off an _. reflexivity.
    - intros k s IHs rest IHr off an H. rewrite walkvp_props_cons_g, walkv_props_cons_g. rewrite cpos_props_cons_g in H.
      rewrite (IHs _ _ (decodes_app_l _ _ H)). apply decodes_app_r in H.
      destruct (walkv dcount r s (eval (env_off off) obj_child_start) an) as [[pl an1]|e]; [|reflexivity].
      now rewrite IHr.
    - intros st an _. reflexivity.
    - intros s IHs rest IHr st an H. rewrite walkvp_alts_cons_g, walkv_alts_cons_g. rewrite cpos_alts_cons_g in H.
      rewrite (IHs _ _ (decodes_app_l _ _ H)). apply decodes_app_r in H.
      destruct (walkv dcount r s st an) as [[l an1]|e]; [|reflexivity].
      now rewrite IHr.
  Qed.

  Theorem walkvp_agree : forall s st an,
    (forall bs, In bs (ctrs dcount r s st an) -> dcountp bs = Ok (dcount bs)) ->
    walkvp dcountp r s st an = walkv dcount r s st an.
  Proof.
    intros s st an H. apply (proj1 walkvp_agree_all). intros p Hp. apply H. unfold ctrs. now apply in_map.
  Qed.

  (* C10d_counters_ok_agrees *)
  Theorem vnav_ofp_agree : forall s,
    (forall bs, In bs (nav_ctrs dcount r s) -> dcountp bs = Ok (dcount bs)) ->
    vnav_ofp dcountp r s = vnav_of dcount r s.
  Proof.
    intros s H. unfold vnav_ofp, vfrom_instancep, vnav_of, vfrom_instance.
    rewrite (proj1 walkvp_agree_all); [reflexivity|]. intros p Hp. apply H. unfold nav_ctrs, nav_cpos. now apply in_map.
  Qed.
End Agree.

(* ------------------------------------------------------------------ (3) navigators *)
Section Nav.
  Variable B : Type.
  Variable dcountp : list B -> res nat.
  Variable r : list B.

  Lemma first_err_none_iff : forall l,
    first_err dcountp l = None <-> (forall bs, In bs l -> exists n, dcountp bs = Ok n).
  Proof.
    induction l as [|x l IH]; cbn [first_err]; split.
    - intros _ bs [].
    - reflexivity.
    - destruct (dcountp x) as [n|e] eqn:E; [|discriminate]. intros H bs [ <- |Hb]; [now exists n|]. now apply IH.
    - intros H. destruct (H x (or_introl eq_refl)) as [n Hn]. rewrite Hn. apply IH. intros bs Hb. apply H. now right.
  Qed.

  Lemma first_err_some : forall l e, first_err dcountp l = Some e ->
    exists pre bs post, l = pre ++ bs :: post /\ dcountp bs = Err e /\ (forall b, In b pre -> exists n, dcountp b = Ok n).
  Proof.
    induction l as [|x l IH]; cbn [first_err]; intros e H; [discriminate|].
    destruct (dcountp x) as [n|e0] eqn:E.
    - destruct (IH e H) as (pre & bs & post & -> & Hb & Hpre). exists (x :: pre), bs, post. repeat split; auto.
      intros b [ <- |Hin]; [now exists n|now apply Hpre].
    - inversion H; subst. exists [], x, l. repeat split; auto. intros b [].
  Qed.

  Lemma first_err_ext : forall (f g : nat * nat -> list B) l,
    (forall p, In p l -> dcountp (f p) = dcountp (g p)) ->
    first_err dcountp (map f l) = first_err dcountp (map g l).
  Proof.
    induction l as [|x l IH]; intros H; [reflexivity|]. cbn [map first_err].
    rewrite (H x (or_introl eq_refl)). rewrite IH; [reflexivity|]. intros p Hp. apply H. now right.
  Qed.

  (* C10d_bad_counter_blocks_record *)
  Theorem bad_counter_blocks : forall s e, bad_counter dcountp r s = Some e -> vnav_ofp dcountp r s = Err e.
  Proof. intros s e H. rewrite vnav_ofp_prepass. unfold vnav_of_prepass. now rewrite H. Qed.

  Theorem bad_counter_blocks_reads : forall (A : Type) (dec : option key -> list B -> res A) s e,
    bad_counter dcountp r s = Some e -> forall p, readp dcountp r dec s p = Some (Err e).
  Proof. intros A dec s e H p. unfold readp. now rewrite (bad_counter_blocks s e H). Qed.

  (* the first counter of the walk is enough *)
  Theorem first_counter_blocks : forall s bs rest e,
    nav_ctrs (dtot dcountp) r s = bs :: rest -> dcountp bs = Err e -> vnav_ofp dcountp r s = Err e.
  Proof.
    intros s bs rest e Hc He. apply bad_counter_blocks. unfold bad_counter. rewrite Hc. cbn [first_err]. now rewrite He.
  Qed.

  Theorem ok_no_bad_counter : forall s v, vnav_ofp dcountp r s = Ok v ->
    bad_counter dcountp r s = None /\ vnav_of (dtot dcountp) r s = Ok v.
  Proof.
    intros s v H. rewrite vnav_ofp_prepass in H. unfold vnav_of_prepass in H.
    destruct (bad_counter dcountp r s); [discriminate|]. now split.
  Qed.

  (* C10d_readable_iff, first form *)
  Theorem readable_iff : forall s v,
    vnav_ofp dcountp r s = Ok v <-> (bad_counter dcountp r s = None /\ vnav_of (dtot dcountp) r s = Ok v).
  Proof.
    intros s v. split; [apply ok_no_bad_counter|]. intros [H1 H2]. rewrite vnav_ofp_prepass. unfold vnav_of_prepass. now rewrite H1.
  Qed.

  (* ... second form: a navigator exists exactly when every counter the walk reaches decodes *)
  Theorem readable_iff_counters : forall s,
    (exists v, vnav_of (dtot dcountp) r s = Ok v) ->
    ((exists v, vnav_ofp dcountp r s = Ok v) <-> (forall bs, In bs (nav_ctrs (dtot dcountp) r s) -> exists n, dcountp bs = Ok n)).
  Proof.
    intros s [v0 H0]. split.
    - intros [v H]. apply ok_no_bad_counter in H. destruct H as [H _]. now apply first_err_none_iff.
    - intros H. exists v0. apply readable_iff. split; [|exact H0]. now apply first_err_none_iff.
  Qed.

  Theorem unreadable_is_bad_counter : forall s e,
    (exists v, vnav_of (dtot dcountp) r s = Ok v) ->
    (vnav_ofp dcountp r s = Err e <-> bad_counter dcountp r s = Some e).
  Proof.
    intros s e [v0 H0]. split; [|apply bad_counter_blocks]. intros H. rewrite vnav_ofp_prepass in H. unfold vnav_of_prepass in H.
    destruct (bad_counter dcountp r s) as [e'|]; [now inversion H|]. rewrite H0 in H. discriminate.
  Qed.

  (* whatever the partial walk returns, the walk of the total completion returns *)
  Lemma walkvp_ok_total : forall s st an x, walkvp dcountp r s st an = Ok x -> walkv (dtot dcountp) r s st an = Ok x.
  Proof.
    intros s st an x H. rewrite walkvp_prepass in H. unfold walk_prepass in H.
    destruct (first_err dcountp (ctrs (dtot dcountp) r s st an)); [discriminate|exact H].
  Qed.

  Lemma vnav_indexp_ok_total : forall v i v', vnav_indexp dcountp r v i = Ok v' -> vnav_index (dtot dcountp) r v i = Ok v'.
  Proof.
    intros v i v' H. unfold vnav_indexp, vnav_index, vfrom_instancep, vfrom_instance in *.
    destruct (vn_loc v) as [a st sz|st sz isz cnt it sch|st sz ps|st sz alts|st t]; try discriminate.
    destruct (refused_low index_refuse_low i || refused index_refuse i cnt); [discriminate|].
    destruct (walkvp dcountp r sch (eval (env_start (eval (env_index st isz cnt i) index_start)) from_instance_start) []) as [[l an]|e] eqn:E;
      [|discriminate].
    now rewrite (walkvp_ok_total _ _ _ _ E).
  Qed.

  Lemma vnav_pathp_ok_total : forall p v v', vnav_pathp dcountp r v p = Ok v' -> vnav_path (dtot dcountp) r v p = Ok v'.
  Proof.
    induction p as [|s p IH]; intros v v' H; [exact H|]. cbn [vnav_pathp vnav_path] in *.
    destruct (vnav_stepp dcountp r v s) as [v1|e] eqn:E; [|discriminate].
    assert (E' : vnav_step (dtot dcountp) r v s = Ok v1).
    { destruct s as [k|i]; cbn [vnav_stepp vnav_step] in *; [exact E|now apply vnav_indexp_ok_total]. }
    rewrite E'. now apply IH.
  Qed.

  (* an ODO-free schema consults no counter *)
  Lemma cpos_odo_free : forall (dc : list B -> nat),
    (forall s, odo_free s = true -> forall st an, cpos dc r s st an = [])
    /\ (forall ps, odo_free_props ps = true -> forall off an, cpos_props dc r ps off an = [])
    /\ (forall alts, odo_free_alts alts = true -> forall st an, cpos_alts dc r alts st an = []).
  Proof.
    intros dc. apply js_props_alts_ind.
    - reflexivity.
    - intros a n its IH Hf st an. cbn [odo_free] in Hf. cbn [cpos].
      destruct (dispatch CArray) as [[]|]; try reflexivity. destruct (arr_count n); [now apply IH|reflexivity].
    - intros a c its _ Hf. discriminate.
    - intros a ps IH Hf st an. cbn [odo_free] in Hf. rewrite cpos_obj_g. destruct (dispatch CObject) as [[]|]; try reflexivity. now apply IH.
    - intros a alts IH Hf st an. cbn [odo_free] in Hf. rewrite cpos_one_g. destruct (dispatch COneOf) as [[]|]; try reflexivity.
      destruct alts; destruct (agg_empty one_agg); try reflexivity; now apply IH.
    - reflexivity.
    - reflexivity.
    - intros k s IHs rest IHr Hf off an. cbn [odo_free_props] in Hf. apply andb_prop in Hf. destruct Hf as [H1 H2].
      rewrite cpos_props_cons_g, (IHs H1). cbn [app].
      destruct (walkv dc r s (eval (env_off off) obj_child_start) an) as [[pl an1]|e]; [now apply IHr|reflexivity].
    - reflexivity.
    - intros s IHs rest IHr Hf st an. cbn [odo_free_alts] in Hf. apply andb_prop in Hf. destruct Hf as [H1 H2].
      rewrite cpos_alts_cons_g, (IHs H1). cbn [app].
      destruct (walkv dc r s st an) as [[l an1]|e]; [now apply IHr|reflexivity].
  Qed.

  Lemma walkvp_odo_free : forall s st an, odo_free s = true -> walkvp dcountp r s st an = walkv (dtot dcountp) r s st an.
  Proof.
    intros s st an Hf. rewrite walkvp_prepass. unfold walk_prepass, ctrs. now rewrite (proj1 (cpos_odo_free _) s Hf).
  Qed.

  (* from a navigator whose tables all have ODO-free items (every navigator of the ODO family) the two families of
     navigation steps coincide *)
  Lemma vnav_indexp_ofree : forall v i, ofree_nav v -> vnav_indexp dcountp r v i = vnav_index (dtot dcountp) r v i.
  Proof.
    intros v i Hv. unfold vnav_indexp, vnav_index, vfrom_instancep, vfrom_instance.
    destruct v as [l an]. destruct Hv as [Hl _]. cbn [vn_loc vn_an] in *.
    destruct l as [a st sz|st sz isz cnt it sch|st sz ps|st sz alts|st t]; try reflexivity.
    cbn [ofree_loc] in Hl. apply andb_prop in Hl. destruct Hl as [Hsch _].
    now rewrite (walkvp_odo_free _ _ _ Hsch).
  Qed.

  Lemma vnav_pathp_ofree : forall p v, ofree_nav v -> vnav_pathp dcountp r v p = vnav_path (dtot dcountp) r v p.
  Proof.
    induction p as [|s p IH]; intros v Hv; [reflexivity|]. cbn [vnav_pathp vnav_path].
    assert (Hs : vnav_stepp dcountp r v s = vnav_step (dtot dcountp) r v s).
    { destruct s as [k|i]; cbn [vnav_stepp vnav_step]; [reflexivity|]. now apply vnav_indexp_ofree. }
    rewrite Hs. destruct (vnav_step (dtot dcountp) r v s) as [v1|e] eqn:Es; [|reflexivity].
    apply IH. apply (ofree_path B (dtot dcountp) r [s] v v1 Hv). cbn [vnav_path]. now rewrite Es.
  Qed.
End Nav.

(* ------------------------------------------------------------------ (4) the counters of the pre-pass under the rules as they are now:
   closed forms (by computation from Gen/LayoutParams.v), the counters are registered anchors, and they depend on the record
   only through the counters themselves *)
Section Now.
  Variable B : Type.
  Variable dc : list B -> nat.

  Lemma cpos_arr : forall r a n its st an, cpos dc r (JArr a n its) st an = cpos dc r its st an.
  Proof. reflexivity. Qed.
  Lemma cpos_odo : forall r a c its st an,
    cpos dc r (JOdo a c its) st an =
    match wlookup (KName c) an with
    | Some (WAtom _ cst csz) => (cst, csz) :: cpos dc r its st an
    | _ => []
    end.
  Proof.
    intros r a c its st an.
    change (cpos dc r (JOdo a c its) st an)
      with (odo_cpos c an ++ match wodo_count dc r c an with Err _ => [] | Ok cnt => cpos dc r its st an end).
    change (odo_cpos c an) with (match wlookup (KName c) an with Some (WAtom _ cst csz) => [(cst, csz)] | _ => [] end).
    change (wodo_count dc r c an)
      with (match wlookup (KName c) an with
            | None => Err KeyError
            | Some (WAtom _ cst csz) => Ok (dc (slice r cst (cst + csz)))
            | Some _ => Err TypeError
            end).
    destruct (wlookup (KName c) an) as [[ca cst csz| | | |]|]; reflexivity.
  Qed.
  Lemma cpos_obj : forall r a ps st an, cpos dc r (JObj a ps) st an = cpos_props dc r ps st an.
  Proof. reflexivity. Qed.
  Lemma cpos_one : forall r a s0 rest st an, cpos dc r (JOne a (ACons s0 rest)) st an = cpos_alts dc r (ACons s0 rest) st an.
  Proof. reflexivity. Qed.
  Lemma cpos_props_cons : forall r k p rest off an,
    cpos_props dc r (PCons k p rest) off an =
    cpos dc r p off an ++
    match walkv dc r p off an with
    | Err _ => []
    | Ok (pl, an1) => cpos_props dc r rest (off + wsize pl) (wreg (js_anchor p) pl an1)
    end.
  Proof. reflexivity. Qed.
  Lemma nav_cpos_unf : forall r s, nav_cpos dc r s = cpos dc r s 0 [].
  Proof. reflexivity. Qed.

  Lemma in_wreg : forall a (l : wloc) an x, In x an -> In x (wreg a l an).
  Proof. intros [k|] l an x H; [now right|exact H]. Qed.

  (* every counter field of the pre-pass is the location registered under the name an ODO table of the schema gives *)
  Lemma cpos_in_anchors : forall (r : list B),
    (forall s st an l an', walkv dc r s st an = Ok (l, an') -> forall p, In p (cpos dc r s st an) ->
       exists c a, In c (odo_keys s) /\ In (KName c, WAtom a (fst p) (snd p)) an')
    /\ (forall ps off an pls off' an', walkv_props dc r ps off an = Ok (pls, off', an') -> forall p, In p (cpos_props dc r ps off an) ->
       exists c a, In c (odo_keys_props ps) /\ In (KName c, WAtom a (fst p) (snd p)) an')
    /\ (forall alts st an als an', walkv_alts dc r alts st an = Ok (als, an') -> forall p, In p (cpos_alts dc r alts st an) ->
       exists c a, In c (odo_keys_alts alts) /\ In (KName c, WAtom a (fst p) (snd p)) an').
  Proof.
    intros r. apply js_props_alts_ind.
    - intros a sz st an l an' _ p [].
    - intros a n its IH st an l an' E p Hp. rewrite cpos_arr in Hp. rewrite walkv_arr in E.
      destruct (walkv dc r its st an) as [[sub an1]|e] eqn:Es; [|discriminate]. inversion E; subst.
      destruct (IH _ _ _ _ Es p Hp) as (c & ca & Hc & Hin). exists c, ca. split; [exact Hc|]. now apply in_wreg.
    - intros a c its IH st an l an' E p Hp. rewrite cpos_odo in Hp. rewrite walkv_odo in E.
      destruct (wlookup (KName c) an) as [[ca cst csz| | | |]|] eqn:El; try discriminate.
      destruct (walkv dc r its st an) as [[sub an1]|e] eqn:Es; [|discriminate]. inversion E; subst.
      destruct (proj1 (walkv_extends B dc r) _ _ _ _ _ Es) as [new Hn]. subst an1.
      destruct Hp as [ <- |Hp].
      + exists c, ca. split; [now left|]. cbn [fst snd]. apply in_wreg. apply in_or_app. right. now apply wlookup_in_key.
      + destruct (IH _ _ _ _ Es p Hp) as (c' & ca' & Hc & Hin). exists c', ca'. split; [now right|]. now apply in_wreg.
    - intros a ps IH st an l an' E p Hp. rewrite cpos_obj in Hp. rewrite walkv_obj in E.
      destruct (walkv_props dc r ps st an) as [[[pls off] an1]|e] eqn:Es; [|discriminate]. inversion E; subst.
      destruct (IH _ _ _ _ _ Es p Hp) as (c & ca & Hc & Hin). exists c, ca. split; [exact Hc|]. now apply in_wreg.
    - intros a alts IH st an l an' E p Hp. destruct alts as [|s0 rest]; [discriminate|]. rewrite cpos_one in Hp. rewrite walkv_one in E.
      destruct (walkv_alts dc r (ACons s0 rest) st an) as [[als an1]|e] eqn:Es; [|discriminate]. inversion E; subst.
      destruct (IH _ _ _ _ Es p Hp) as (c & ca & Hc & Hin). exists c, ca. split; [exact Hc|]. now apply in_wreg.
    - intros t st an l an' _ p [].
    - intros off an pls off' an' _ p [].
    - intros k s IHs rest IHr off an pls off' an' E p Hp. rewrite cpos_props_cons in Hp. rewrite walkv_props_cons in E.
      destruct (walkv dc r s off an) as [[pl an1]|e] eqn:Es; [|discriminate].
      destruct (walkv_props dc r rest (off + wsize pl) (wreg (js_anchor s) pl an1)) as [[[rl off1] an2]|e] eqn:Er; [|discriminate].
      inversion E; subst. cbn [odo_keys_props].
      destruct (proj1 (proj2 (walkv_extends B dc r)) _ _ _ _ _ _ Er) as [n2 H2].
      apply in_app_or in Hp. destruct Hp as [Hp|Hp].
      + destruct (IHs _ _ _ _ Es p Hp) as (c & ca & Hc & Hin). exists c, ca. split; [apply in_or_app; now left|].
        rewrite H2. apply in_or_app. right. now apply in_wreg.
      + destruct (IHr _ _ _ _ _ Er p Hp) as (c & ca & Hc & Hin). exists c, ca. split; [apply in_or_app; now right|exact Hin].
    - intros st an als an' _ p [].
    - intros s IHs rest IHr st an als an' E p Hp. rewrite cpos_alts_cons_g in Hp. rewrite walkv_alts_cons in E.
      destruct (walkv dc r s st an) as [[l an1]|e] eqn:Es; [|discriminate].
      destruct (walkv_alts dc r rest st an1) as [[ls an2]|e] eqn:Er; [|discriminate].
      inversion E; subst. cbn [odo_keys_alts].
      destruct (proj2 (proj2 (walkv_extends B dc r)) _ _ _ _ _ Er) as [n2 H2].
      apply in_app_or in Hp. destruct Hp as [Hp|Hp].
      + destruct (IHs _ _ _ _ Es p Hp) as (c & ca & Hc & Hin). exists c, ca. split; [apply in_or_app; now left|].
        rewrite H2. apply in_or_app. now right.
      + destruct (IHr _ _ _ _ Er p Hp) as (c & ca & Hc & Hin). exists c, ca. split; [apply in_or_app; now right|exact Hin].
  Qed.

  (* a second record that gives every registered counter the same count is walked over the same counter fields *)
  Lemma cpos_counters : forall (r r' : list B),
    (forall s st an l an', walkv dc r s st an = Ok (l, an') -> counters_agree B dc r r' (odo_keys s) an' ->
       cpos dc r' s st an = cpos dc r s st an)
    /\ (forall ps off an pls off' an', walkv_props dc r ps off an = Ok (pls, off', an') -> counters_agree B dc r r' (odo_keys_props ps) an' ->
       cpos_props dc r' ps off an = cpos_props dc r ps off an)
    /\ (forall alts st an als an', walkv_alts dc r alts st an = Ok (als, an') -> counters_agree B dc r r' (odo_keys_alts alts) an' ->
       cpos_alts dc r' alts st an = cpos_alts dc r alts st an).
  Proof.
    intros r r'. apply js_props_alts_ind.
    - reflexivity.
    - intros a n its IH st an l an' E H. rewrite !cpos_arr. rewrite walkv_arr in E.
      destruct (walkv dc r its st an) as [[sub an1]|e] eqn:Es; [|discriminate]. inversion E; subst.
      apply (IH _ _ _ _ Es). eapply counters_agree_sub; [| |exact H]; [auto|]. intros x Hx. now apply in_wreg.
    - intros a c its IH st an l an' E H. rewrite !cpos_odo. rewrite walkv_odo in E.
      destruct (wlookup (KName c) an) as [[ca cst csz| | | |]|] eqn:El; try reflexivity.
      destruct (walkv dc r its st an) as [[sub an1]|e] eqn:Es; [|discriminate]. inversion E; subst.
      f_equal. apply (IH _ _ _ _ Es). eapply counters_agree_sub; [| |exact H]; [intros c' Hc'; now right|].
      intros x Hx. now apply in_wreg.
    - intros a ps IH st an l an' E H. rewrite !cpos_obj. rewrite walkv_obj in E.
      destruct (walkv_props dc r ps st an) as [[[pls off] an1]|e] eqn:Es; [|discriminate]. inversion E; subst.
      apply (IH _ _ _ _ _ Es). eapply counters_agree_sub; [| |exact H]; [auto|]. intros x Hx. now apply in_wreg.
    - intros a alts IH st an l an' E H. destruct alts as [|s0 rest]; [discriminate|]. rewrite !cpos_one. rewrite walkv_one in E.
      destruct (walkv_alts dc r (ACons s0 rest) st an) as [[als an1]|e] eqn:Es; [|discriminate]. inversion E; subst.
      apply (IH _ _ _ _ Es). eapply counters_agree_sub; [| |exact H]; [auto|]. intros x Hx. now apply in_wreg.
    - reflexivity.
    - reflexivity.
    - intros k s IHs rest IHr off an pls off' an' E H. rewrite !cpos_props_cons. rewrite walkv_props_cons in E.
      destruct (walkv dc r s off an) as [[pl an1]|e] eqn:Es; [|discriminate].
      destruct (walkv_props dc r rest (off + wsize pl) (wreg (js_anchor s) pl an1)) as [[[rl off1] an2]|e] eqn:Er; [|discriminate].
      inversion E; subst.
      destruct (proj1 (proj2 (walkv_extends B dc r)) _ _ _ _ _ _ Er) as [n2 H2].
      assert (Hs : counters_agree B dc r r' (odo_keys s) an1).
      { eapply counters_agree_sub; [| |exact H].
        - intros c Hc. cbn [odo_keys_props]. apply in_or_app. now left.
        - intros x Hx. rewrite H2. apply in_or_app. right. now apply in_wreg. }
      rewrite (IHs _ _ _ _ Es Hs). rewrite (proj1 (walkv_counters B dc r r') _ _ _ _ _ Es Hs).
      f_equal. apply (IHr _ _ _ _ _ Er). eapply counters_agree_sub; [| |exact H]; [|auto].
      intros c Hc. cbn [odo_keys_props]. apply in_or_app. now right.
    - reflexivity.
    - intros s IHs rest IHr st an als an' E H. rewrite !cpos_alts_cons_g. rewrite walkv_alts_cons in E.
      destruct (walkv dc r s st an) as [[l an1]|e] eqn:Es; [|discriminate].
      destruct (walkv_alts dc r rest st an1) as [[ls an2]|e] eqn:Er; [|discriminate].
      inversion E; subst.
      destruct (proj2 (proj2 (walkv_extends B dc r)) _ _ _ _ _ Er) as [n2 H2].
      assert (Hs : counters_agree B dc r r' (odo_keys s) an1).
      { eapply counters_agree_sub; [| |exact H].
        - intros c Hc. cbn [odo_keys_alts]. apply in_or_app. now left.
        - intros x Hx. rewrite H2. apply in_or_app. now right. }
      rewrite (IHs _ _ _ _ Es Hs). rewrite (proj1 (walkv_counters B dc r r') _ _ _ _ _ Es Hs).
      f_equal. apply (IHr _ _ _ _ Er). eapply counters_agree_sub; [| |exact H]; [|auto].
      intros c Hc. cbn [odo_keys_alts]. apply in_or_app. now right.
  Qed.
End Now.

(* ------------------------------------------------------------------ (5) in the vocabulary of C10c: registered counters *)
Section Registered.
  Variable B : Type.
  Variable dcountp : list B -> res nat.
  Variable r : list B.

  (* every registered counter an ODO table of the schema names decodes: then the navigator exists and is the total one *)
  Theorem registered_decode_readable : forall s v0,
    vnav_of (dtot dcountp) r s = Ok v0 ->
    (forall c a cst csz, In c (odo_keys s) -> In (KName c, WAtom a cst csz) (vn_an v0) ->
       exists n, dcountp (slice r cst (cst + csz)) = Ok n) ->
    vnav_ofp dcountp r s = Ok v0.
  Proof.
    intros s v0 H0 Hc. apply readable_iff. split; [|exact H0].
    unfold bad_counter. apply first_err_none_iff. intros bs Hb. unfold nav_ctrs in Hb. apply in_map_iff in Hb.
    destruct Hb as [p [<- Hp]]. rewrite nav_cpos_unf in Hp. rewrite vnav_of_unf in H0.
    destruct (walkv (dtot dcountp) r s 0 []) as [[l an]|e] eqn:Ew; [|discriminate]. inversion H0; subst. cbn [vn_an] in Hc.
    destruct (proj1 (cpos_in_anchors B (dtot dcountp) r) _ _ _ _ _ Ew p Hp) as (c & a & Hk & Hin).
    exact (Hc c a (fst p) (snd p) Hk Hin).
  Qed.

  (* two records that give the registered counters the same answer of the partial decoder (value or exception) *)
  Theorem vnav_ofp_counters : forall (r' : list B) s v0,
    vnav_ofp dcountp r s = Ok v0 ->
    (forall c a cst csz, In c (odo_keys s) -> In (KName c, WAtom a cst csz) (vn_an v0) ->
       dcountp (slice r cst (cst + csz)) = dcountp (slice r' cst (cst + csz))) ->
    vnav_ofp dcountp r' s = Ok v0.
  Proof.
    intros r' s v0 H Hc. apply ok_no_bad_counter in H. destruct H as [Hbad H0].
    assert (Hag : counters_agree B (dtot dcountp) r r' (odo_keys s) (vn_an v0)).
    { intros c a cst csz Hk Hin. unfold dtot. now rewrite (Hc c a cst csz Hk Hin). }
    pose proof (nav_counters B (dtot dcountp) r r' s v0 H0 Hag) as H0'.
    apply readable_iff. split; [|exact H0'].
    unfold bad_counter, nav_ctrs in *. rewrite !nav_cpos_unf in *. rewrite vnav_of_unf in H0.
    destruct (walkv (dtot dcountp) r s 0 []) as [[l an]|e] eqn:Ew; [|discriminate]. inversion H0; subst. cbn [vn_an] in *.
    rewrite (proj1 (cpos_counters B (dtot dcountp) r r') _ _ _ _ _ Ew Hag).
    rewrite <- Hbad. apply first_err_ext. intros p Hp.
    destruct (proj1 (cpos_in_anchors B (dtot dcountp) r) _ _ _ _ _ Ew p Hp) as (c & a & Hk & Hin).
    unfold field_of. symmetry. exact (Hc c a (fst p) (snd p) Hk Hin).
  Qed.
End Registered.

(* ------------------------------------------------------------------ (6) the ODO family: C10c's theorems with the partial constructor *)
Section CobolOdoP.
  Variable B : Type.
  Variable dcountp : list B -> res nat.
  Variable A : Type.
  Variable dec : option key -> list B -> res A.
  Variable r : list B.
  Variable e : SR.Spec.Layout.env.

  Lemma navp_total_odo : forall t p v0 v, wfo e [] t = true -> NoDup (ids t) ->
    vnav_ofp dcountp r (build t) = Ok v0 -> vnav_pathp dcountp r v0 p = Ok v ->
    vnav_of (dtot dcountp) r (build t) = Ok v0 /\ vnav_path (dtot dcountp) r v0 p = Ok v /\ ofree_nav v0 /\ ofree_nav v.
  Proof.
    intros t p v0 v Hw Hnd H0 Hp. apply ok_no_bad_counter in H0. destruct H0 as [_ H0].
    pose proof (vnav_pathp_ok_total B dcountp r p v0 v Hp) as Hp'.
    split; [exact H0|]. split; [exact Hp'|]. split.
    - exact (proj2 (J_cobol_o B (dtot dcountp) r e t [] v0 v0 Hw Hnd H0 eq_refl)).
    - exact (proj2 (J_cobol_o B (dtot dcountp) r e t p v0 v Hw Hnd H0 Hp')).
  Qed.

  (* C10d_bad_counter_blocks_record, for the family *)
  Theorem bad_counter_blocks_odo : forall t ex, wfo e [] t = true -> NoDup (ids t) ->
    bad_counter dcountp r (build t) = Some ex ->
    vnav_ofp dcountp r (build t) = Err ex /\ forall p, readp dcountp r dec (build t) p = Some (Err ex).
  Proof.
    intros t ex _ _ H. split; [now apply bad_counter_blocks|]. now apply bad_counter_blocks_reads.
  Qed.

  (* C10d_readable_iff, for the family: a record that carries a count vector under the completed decoder *)
  Theorem readable_iff_odo : forall t, wfo e [] t = true -> NoDup (ids t) -> Holds B (dtot dcountp) r e t 0 ->
    ((exists v0, vnav_ofp dcountp r (build t) = Ok v0)
     <-> (forall bs, In bs (nav_ctrs (dtot dcountp) r (build t)) -> exists n, dcountp bs = Ok n)).
  Proof.
    intros t Hw Hnd Hh. apply readable_iff_counters. exact (nav_exists_odo B (dtot dcountp) r e t Hw Hnd Hh).
  Qed.

  Theorem unreadable_iff_odo : forall t ex, wfo e [] t = true -> NoDup (ids t) -> Holds B (dtot dcountp) r e t 0 ->
    (vnav_ofp dcountp r (build t) = Err ex <-> bad_counter dcountp r (build t) = Some ex).
  Proof.
    intros t ex Hw Hnd Hh. apply unreadable_is_bad_counter. exact (nav_exists_odo B (dtot dcountp) r e t Hw Hnd Hh).
  Qed.

  (* index: whole and part *)
  Theorem commute_index_odo_p : forall t p v0 v st sz isz cnt it sch (xs : list (pv A)) i,
    wfo e [] t = true -> NoDup (ids t) ->
    vnav_ofp dcountp r (build t) = Ok v0 -> vnav_pathp dcountp r v0 p = Ok v ->
    vn_loc v = WArr st sz isz cnt it sch ->
    vnav_value r dec v = Some (Ok (PList xs)) -> i < cnt ->
    exists v' x, vnav_indexp dcountp r v i = Ok v' /\ nth_error xs i = Some x /\ vnav_value r dec v' = Some (Ok x).
  Proof.
    intros t p v0 v st sz isz cnt it sch xs i Hw Hnd H0 Hp Hl Hv Hi.
    destruct (navp_total_odo t p v0 v Hw Hnd H0 Hp) as (G0 & Gp & _ & Hof).
    destruct (commute_index_odo B (dtot dcountp) A dec r e t p v0 v st sz isz cnt it sch xs i Hw Hnd G0 Gp Hl Hv Hi) as (v' & x & H1 & H2 & H3).
    exists v', x. rewrite (vnav_indexp_ofree B dcountp r v i Hof). auto.
  Qed.

  (* laziness: r and r' give every registered counter the same answer of the partial decoder and hold the same bytes in
     the range of the location reached *)
  Theorem lazy_odo_p : forall (r' : list B) t p v0 v,
    wfo e [] t = true -> NoDup (ids t) ->
    vnav_ofp dcountp r (build t) = Ok v0 -> vnav_pathp dcountp r v0 p = Ok v ->
    (forall c a cst csz, In c (odo_keys (build t)) -> In (KName c, WAtom a cst csz) (vn_an v0) ->
       dcountp (slice r cst (cst + csz)) = dcountp (slice r' cst (cst + csz))) ->
    vnav_raw r v = vnav_raw r' v ->
    vnav_ofp dcountp r' (build t) = Ok v0 /\ vnav_pathp dcountp r' v0 p = Ok v /\
    vnav_value r dec v = vnav_value r' dec v.
  Proof.
    intros r' t p v0 v Hw Hnd H0 Hp Hc Hraw.
    destruct (navp_total_odo t p v0 v Hw Hnd H0 Hp) as (G0 & Gp & Hof0 & _).
    assert (Hag : forall c a cst csz, In c (odo_keys (build t)) -> In (KName c, WAtom a cst csz) (vn_an v0) ->
              dtot dcountp (slice r cst (cst + csz)) = dtot dcountp (slice r' cst (cst + csz))).
    { intros c a cst csz Hk Hin. unfold dtot. now rewrite (Hc c a cst csz Hk Hin). }
    destruct (lazy_odo B (dtot dcountp) A dec r e r' t p v0 v Hw Hnd G0 Gp Hag Hraw) as (K0 & Kp & Kv).
    split; [exact (vnav_ofp_counters B dcountp r r' (build t) v0 H0 Hc)|]. split; [|exact Kv].
    rewrite (vnav_pathp_ofree B dcountp r' p v0 Hof0). exact Kp.
  Qed.
  (* raw bytes and the footprint of value(): C10c_raw_name_odo, C10c_raw_index_odo, C10c_foot_inside_odo with the partial constructor *)
  Theorem raw_name_odo_p : forall t p v0 v v' k,
    wfo e [] t = true -> NoDup (ids t) ->
    vnav_ofp dcountp r (build t) = Ok v0 -> vnav_pathp dcountp r v0 p = Ok v -> vnav_name v k = Ok v' ->
    wstart (vn_loc v) <= wstart (vn_loc v') /\ wend (vn_loc v') <= wend (vn_loc v) /\
    vnav_raw r v' = slice (vnav_raw r v) (wstart (vn_loc v') - wstart (vn_loc v)) (wend (vn_loc v') - wstart (vn_loc v)).
  Proof.
    intros t p v0 v v' k Hw Hnd H0 Hp Hn. destruct (navp_total_odo t p v0 v Hw Hnd H0 Hp) as (G0 & Gp & _ & _).
    exact (raw_name_odo B (dtot dcountp) r e t p v0 v v' k Hw Hnd G0 Gp Hn).
  Qed.

  Theorem raw_index_odo_p : forall t p v0 v v' st sz isz cnt it sch i,
    wfo e [] t = true -> NoDup (ids t) ->
    vnav_ofp dcountp r (build t) = Ok v0 -> vnav_pathp dcountp r v0 p = Ok v ->
    vn_loc v = WArr st sz isz cnt it sch -> vnav_indexp dcountp r v i = Ok v' ->
    wstart (vn_loc v') = st + isz * i /\ wsize (vn_loc v') = isz /\
    wstart (vn_loc v) <= wstart (vn_loc v') /\ wend (vn_loc v') <= wend (vn_loc v) /\
    vnav_raw r v' = slice (vnav_raw r v) (wstart (vn_loc v') - wstart (vn_loc v)) (wend (vn_loc v') - wstart (vn_loc v)).
  Proof.
    intros t p v0 v v' st sz isz cnt it sch i Hw Hnd H0 Hp Hl Hi. destruct (navp_total_odo t p v0 v Hw Hnd H0 Hp) as (G0 & Gp & _ & _).
    exact (raw_index_odo B (dtot dcountp) r e t p v0 v v' st sz isz cnt it sch i Hw Hnd G0 Gp Hl (vnav_indexp_ok_total B dcountp r v i v' Hi)).
  Qed.

  Theorem foot_inside_odo_p : forall t p v0 v,
    wfo e [] t = true -> NoDup (ids t) ->
    vnav_ofp dcountp r (build t) = Ok v0 -> vnav_pathp dcountp r v0 p = Ok v -> foot_inside v = true.
  Proof.
    intros t p v0 v Hw Hnd H0 Hp. destruct (navp_total_odo t p v0 v Hw Hnd H0 Hp) as (G0 & Gp & _ & _).
    exact (foot_inside_odo B (dtot dcountp) r e t p v0 v Hw Hnd G0 Gp).
  Qed.
End CobolOdoP.

(* ------------------------------------------------------------------ (7) the layout level: Model/Layout.v nav_of *)
Section LayoutLevel.
  Variable B : Type.
  Variable dcountp : list B -> res nat.
  Variable dcount : list B -> nat.
  Variable r : list B.

  Theorem nav_ofp_agree : forall s,
    (forall bs, In bs (nav_ctrs dcount r s) -> dcountp bs = Ok (dcount bs)) ->
    nav_ofp dcountp r s = nav_of dcount r s.
  Proof.
    intros s H. unfold nav_ofp. rewrite (vnav_ofp_agree B dcountp dcount r s H). rewrite (nav_of_erase B dcount r s).
    destruct (vnav_of dcount r s); reflexivity.
  Qed.

  Theorem nav_ofp_blocked : forall s ex, bad_counter dcountp r s = Some ex -> nav_ofp dcountp r s = Err ex.
  Proof. intros s ex H. unfold nav_ofp. now rewrite (bad_counter_blocks B dcountp r s ex H). Qed.
End LayoutLevel.

