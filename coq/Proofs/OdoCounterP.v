(* C06 with the counter decoder the code uses on EBCDIC records ([dcount_zoned], Model/ZonedCounter.v):
   a record that STORES the count vector (Spec/ZonedCounter.v: zoned-decimal images at the counters' places)
   is a record on which the counters HOLD under that decoder - by C02's zoned round trip - so every theorem of
   Props/C06.v applies with [dcount := dcount_zoned] and a hypothesis that mentions the encoder only. *)
From Coq Require Import ZArith NArith List Bool Lia Arith.
Import ListNotations.
Require Import SR.Base.Res SR.Base.Dec SR.Gen.RecfmParams SR.Spec.Recfm SR.Model.Recfm.
Require Import SR.Spec.Layout SR.Model.Layout SR.Spec.OdoStream SR.Model.OdoStream SR.Proofs.OdoStreamP.
Require Import SR.Proofs.LayoutP SR.Proofs.LayoutOdoP.
Require Import SR.Spec.Encode SR.Model.ZonedCounter SR.Spec.ZonedCounter SR.Proofs.EstructWidthP.
Open Scope nat_scope.

Lemma stores_count_decodes bs k : stores_count bs k -> dcount_zoned bs = k.
Proof.
  intros (ds & z & Hne & Hd & Hl & Hz & -> & <-). apply dcount_zoned_enc; assumption.
Qed.

Lemma counters_stored_hold e t r : counters_stored e t r -> counters_hold dcount_zoned e t r.
Proof.
  destruct t as [i sz oc rd|i oc rd kids]; cbn [counters_stored counters_hold]; [trivial|].
  intros H c sz o Hin Hf Hk. apply stores_count_decodes. exact (H c sz o Hin Hf Hk).
Qed.

Definition rec_stored (t : item) (e : env) (r : list N) : Prop :=
  length r = extent e t /\ counters_stored e t r.

Lemma rec_stored_ok t e r : rec_stored t e r -> length r = extent e t /\ counters_hold dcount_zoned e t r.
Proof. intros [Hl Hc]. split; [exact Hl|apply counters_stored_hold; exact Hc]. Qed.

Lemma Forall2_imp {A B} (P Q : A -> B -> Prop) : (forall a b, P a b -> Q a b) ->
  forall l1 l2, Forall2 P l1 l2 -> Forall2 Q l1 l2.
Proof. intros H l1 l2 HF. induction HF; constructor; auto. Qed.

Lemma recs_stored_ok t es rs :
  Forall2 (fun e r => length r = extent e t /\ counters_stored e t r) es rs ->
  Forall2 (fun e r => length r = extent e t /\ counters_hold dcount_zoned e t r) es rs.
Proof. apply Forall2_imp. intros e r H. apply rec_stored_ok. exact H. Qed.

Lemma blocks_stored_ok t ess blocks :
  Forall2 (Forall2 (fun e r => length r = extent e t /\ counters_stored e t r)) ess blocks ->
  Forall2 (Forall2 (fun e r => length r = extent e t /\ counters_hold dcount_zoned e t r)) ess blocks.
Proof. apply Forall2_imp. intros es rs H. apply recs_stored_ok. exact H. Qed.

(* ---- the instances ---- *)

Lemma layout_flat_zoned t e r :
  flat_odo t = true -> counters_stored e t r ->
  exists v, nav_of dcount_zoned r (build t) = Ok v
    /\ lstart (n_loc v) = 0 /\ lend (n_loc v) = extent e t
    /\ forall k x, find_kid (item_kids t) k = Some x ->
       exists o vk, kid_start e (item_kids t) k = Some o
         /\ nav_name v (KName k) = Ok vk
         /\ lstart (n_loc vk) = o /\ lsize (n_loc vk) = extent e x
         /\ (is_table x = true ->
               (exists sub sch, n_loc vk = LArr o (extent e x) (ext1 e x) (count e (item_oc x)) sub sch)
               /\ (forall i, i < count e (item_oc x) ->
                     exists vi, nav_index dcount_zoned r vk i = Ok vi
                       /\ lstart (n_loc vi) = o + i * ext1 e x /\ lsize (n_loc vi) = ext1 e x)
               /\ (forall i, count e (item_oc x) <= i -> nav_index dcount_zoned r vk i = Err IndexError)).
Proof. intros Hf Hc. apply layout_flat; [exact Hf|apply counters_stored_hold; exact Hc]. Qed.

Lemma layout_flat_occurrence_zoned t e r :
  flat_odo t = true -> counters_stored e t r ->
  exists v, nav_of dcount_zoned r (build t) = Ok v
    /\ forall k x, find_kid (item_kids t) k = Some x -> is_table x = true ->
       exists o vk, kid_start e (item_kids t) k = Some o /\ nav_name v (KName k) = Ok vk
         /\ forall i, i < count e (item_oc x) ->
            exists vi, nav_index dcount_zoned r vk i = Ok vi
              /\ match x with
                 | Elem n sz _ _ => exists vj, nav_name vi (KName n) = Ok vj /\ n_loc vj = LAtom (o + i * sz) sz
                 | Group _ _ _ gks =>
                     forall j y, find_kid gks j = Some y ->
                       exists oj vj, kid_start e gks j = Some oj /\ nav_name vi (KName j) = Ok vj
                         /\ n_loc vj = LAtom (o + i * ext1 e x + oj) (extent e y)
                 end.
Proof. intros Hf Hc. apply layout_flat_occurrence; [exact Hf|apply counters_stored_hold; exact Hc]. Qed.

Lemma frame_zoned t e (r more : list N) :
  flat_odo t = true -> extent e t <= length r -> counters_stored e t r ->
  nav_of dcount_zoned (r ++ more) (build t) = nav_of dcount_zoned r (build t).
Proof. intros Hf Hl Hc. apply (nav_frame dcount_zoned t e); [exact Hf|exact Hl|apply counters_stored_hold; exact Hc]. Qed.

Lemma stream_N_any_buffer_zoned (B : nat) (kind : N) t es (rs : list (list N)) :
  0 < B -> flat_odo t = true ->
  Forall2 (fun e r => length r = extent e t /\ counters_stored e t r) es rs ->
  legal_N B rs = true ->
  exists rows s',
    row_loop dcount_zoned (S (length (write_N rs))) 0 kind B (build t) (N_init B (write_N rs)) = (rows, Done, s')
    /\ map (@row_buf N) rows = spec_bufs B (write_N rs) (map (@length N) rs)
    /\ heads (map (@length N) rs) (map (@row_buf N) rows) = rs
    /\ Forall2 (fun rw r => nav_of dcount_zoned r (build t) = Ok (row_nav rw)) rows rs
    /\ Forall2 (fun rw e => lend (n_loc (row_nav rw)) = extent e t) rows es
    /\ buf s' = [] /\ rest s' = [].
Proof. intros HB Hf HF HL. apply stream_N_any_buffer; [exact HB|exact Hf|apply recs_stored_ok; exact HF|exact HL]. Qed.

Lemma stream_N_zoned (kind : N) (lrecl : nat) t es (rs : list (list N)) :
  0 < lrecl -> flat_odo t = true ->
  Forall2 (fun e r => length r = extent e t /\ counters_stored e t r) es rs ->
  legal_N (N.to_nat buffer_size) rs = true ->
  exists rows s',
    rows_N dcount_zoned kind (Some lrecl) (build t) (write_N rs) = Ok (rows, Done, s')
    /\ map (@row_buf N) rows = spec_bufs (N.to_nat buffer_size) (write_N rs) (map (@length N) rs)
    /\ heads (map (@length N) rs) (map (@row_buf N) rows) = rs
    /\ Forall2 (fun rw r => nav_of dcount_zoned r (build t) = Ok (row_nav rw)) rows rs
    /\ Forall2 (fun rw e => lend (n_loc (row_nav rw)) = extent e t) rows es
    /\ buf s' = [] /\ rest s' = [].
Proof. intros HB Hf HF HL. apply stream_N; [exact HB|exact Hf|apply recs_stored_ok; exact HF|exact HL]. Qed.

Lemma stream_V_zoned (kind : N) (lrecl : nat) t es (rs : list (list N)) :
  0 < lrecl -> flat_odo t = true ->
  Forall2 (fun e r => length r = extent e t /\ counters_stored e t r) es rs ->
  legal_V rs = true ->
  exists rows,
    rows_V dcount_zoned kind (Some lrecl) (build t) (write_V rs) = Ok (rows, Done)
    /\ map (@row_buf N) rows = rs
    /\ Forall2 (fun rw r => nav_of dcount_zoned r (build t) = Ok (row_nav rw)) rows rs
    /\ Forall2 (fun rw e => lend (n_loc (row_nav rw)) = extent e t) rows es.
Proof. intros HB Hf HF HL. apply stream_V; [exact HB|exact Hf|apply recs_stored_ok; exact HF|exact HL]. Qed.

Lemma stream_VB_zoned (kind : N) (lrecl : nat) t ess (blocks : list (list (list N))) :
  0 < lrecl -> flat_odo t = true ->
  Forall2 (Forall2 (fun e r => length r = extent e t /\ counters_stored e t r)) ess blocks ->
  legal_VB blocks = true ->
  exists rows,
    rows_VB dcount_zoned kind (Some lrecl) (build t) (write_VB blocks) = Ok (rows, Done)
    /\ map (@row_buf N) rows = concat blocks
    /\ Forall2 (fun rw r => nav_of dcount_zoned r (build t) = Ok (row_nav rw)) rows (concat blocks)
    /\ Forall2 (fun rw e => lend (n_loc (row_nav rw)) = extent e t) rows (concat ess).
Proof. intros HB Hf HF HL. apply stream_VB; [exact HB|exact Hf|apply blocks_stored_ok; exact HF|exact HL]. Qed.

Lemma stream_F_zoned (kind : N) (lrecl : nat) t es (rs ps : list (list N)) :
  flat_odo t = true ->
  Forall2 (fun e r => length r = extent e t /\ counters_stored e t r) es rs ->
  Forall2 (fun r p => exists more, p = r ++ more) rs ps ->
  legal_F lrecl ps = true ->
  exists rows,
    rows_F dcount_zoned kind (Some lrecl) (build t) (write_F ps) = Ok (rows, Done)
    /\ map (@row_buf N) rows = ps
    /\ Forall2 (fun rw r => nav_of dcount_zoned r (build t) = Ok (row_nav rw)) rows rs
    /\ Forall2 (fun rw e => lend (n_loc (row_nav rw)) = extent e t) rows es.
Proof. intros Hf HF HP HL. apply (stream_F dcount_zoned kind lrecl t es rs ps); [exact Hf|apply recs_stored_ok; exact HF|exact HP|exact HL]. Qed.

(* the general form (ODO tables anywhere a non-repeated item may stand): plain instantiation *)
Lemma layout_zoned (r : list N) (e : env) (t : item) :
  wfo e [] t = true -> NoDup (ids t) -> Holds N dcount_zoned r e t 0 ->
  exists v0, nav_of dcount_zoned r (build t) = Ok v0
    /\ lstart (n_loc v0) = 0 /\ lend (n_loc v0) = extent e t
    /\ forall p v st, spec_nav e (VItem t) 0 p = inl (v, st) ->
         exists nv, nav_path dcount_zoned r v0 p = Ok nv
           /\ lstart (n_loc nv) = st /\ lend (n_loc nv) = st + view_size e v
           /\ nav_raw r nv = slice r st (st + view_size e v)
           /\ (forall x, v = VItem x -> is_table x = true ->
                 forall i, count e (item_oc x) <= i -> nav_index dcount_zoned r nv i = Err IndexError).
Proof. apply layout_correct_odo. Qed.

(* ---- non-vacuity: the two records of Spec/OdoStream.v store their count vectors ---- *)

Lemma ex_stored e r :
  stores_count (slice r 0 2) (e 2%N) ->
  (forall o, kid_start e (item_kids ex_tree) 6%N = Some o -> stores_count (slice r o (o + 1)) (e 6%N)) ->
  counters_stored e ex_tree r.
Proof.
  intros H2 H6. cbn [counters_stored ex_tree]. intros c sz o Hin Hf Hs.
  cbn in Hin. destruct Hin as [<-|[<-|[]]].
  - vm_compute in Hf. inversion Hf; subst. cbv in Hs. inversion Hs; subst. exact H2.
  - vm_compute in Hf. inversion Hf; subst. apply H6. exact Hs.
Qed.

Lemma stores_intro ds z bs k :
  ds <> [] -> forallb is_digit ds = true -> length ds <= 28 -> In z pos_signs ->
  bs = enc_zoned ds z -> N.to_nat (val ds) = k -> stores_count bs k.
Proof. intros. exists ds, z. repeat split; assumption. Qed.

Lemma ex_records_stored :
  counters_stored ex_e1 ex_tree ex_r1 /\ length ex_r1 = extent ex_e1 ex_tree
  /\ counters_stored ex_e2 ex_tree ex_r2 /\ length ex_r2 = extent ex_e2 ex_tree
  /\ length ex_r1 <> length ex_r2.
Proof.
  assert (HF : In 15%N pos_signs) by (cbn; auto).
  split; [|split; [reflexivity|split; [|split; [reflexivity|vm_compute; discriminate]]]].
  - apply ex_stored.
    + apply (stores_intro [0; 2]%N 15%N); try reflexivity; try exact HF; [discriminate|cbn; lia].
    + intros o Hs. vm_compute in Hs. inversion Hs; subst.
      apply (stores_intro [1]%N 15%N); try reflexivity; try exact HF; [discriminate|cbn; lia].
  - apply ex_stored.
    + apply (stores_intro [0; 0]%N 15%N); try reflexivity; try exact HF; [discriminate|cbn; lia].
    + intros o Hs. vm_compute in Hs. inversion Hs; subst.
      apply (stores_intro [0]%N 15%N); try reflexivity; try exact HF; [discriminate|cbn; lia].
Qed.

Lemma ex_stream_stored :
  Forall2 (fun e r => length r = extent e ex_tree /\ counters_stored e ex_tree r) [ex_e1; ex_e2; ex_e1] [ex_r1; ex_r2; ex_r1]
  /\ Forall2 (Forall2 (fun e r => length r = extent e ex_tree /\ counters_stored e ex_tree r))
       [[ex_e1; ex_e2]; [ex_e1]] [[ex_r1; ex_r2]; [ex_r1]]
  /\ legal_N 32 [ex_r1; ex_r2; ex_r1] = true /\ legal_N (N.to_nat buffer_size) [ex_r1; ex_r2; ex_r1] = true
  /\ legal_V [ex_r1; ex_r2; ex_r1] = true /\ legal_VB [[ex_r1; ex_r2]; [ex_r1]] = true.
Proof.
  destruct ex_records_stored as (C1 & L1 & C2 & L2 & _).
  split; [repeat constructor; assumption|]. split; [repeat constructor; assumption|].
  repeat split; vm_compute; reflexivity.
Qed.
