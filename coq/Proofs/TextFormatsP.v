(* C03, text formats: the premise of the facade theorem (what the parser delivers for the file the writer wrote
   is the stored table) PROVED for CSV, tab-delimited text and NDJSON, from the models of csv.writer / csv.reader
   (Model/Csv.v, Proofs/CsvP.v) and of json.dumps / json.loads line by line (Model/Ndjson.v, Proofs/NdjsonP.v).

   [text_write ea f W]   the file harness/c03.py writes for a single-table workbook: the header row and the data rows
                         through csv.writer (comma / TAB), or one json.dumps(dict(zip(header, row)), ensure_ascii=ea)
                         per data row
   [text_parse f img]    what the library's unpacker delivers for a file: list(csv.reader(...)) over the file as
                         CSVUnpacker.open opens it (Csv.lib_read: with newline='' from commit aa3b8fc on, which the
                         model reads from the source on every run) as rows of str cells,
                         the json.loads of every line as dicts of str (an exception shows as no content; the theorems
                         prove there is none for a written file)
   [text_storable ea f W] the domain: CSV / TAB cells and column names of ANY code points (carriage returns included)
                         within the csv field size limit; NDJSON column names and cells, under ensure_ascii, code points without an
                         adjacent high/low surrogate pair (any text without ensure_ascii). *)
From Coq Require Import NArith List Bool Lia.
Import ListNotations.
Require Import SR.Base.Res SR.Spec.Transparency SR.Model.HeaderRow SR.Model.Workbook SR.Proofs.WorkbookP.
Require SR.Model.Csv SR.Model.Ndjson SR.Proofs.CsvP SR.Proofs.NdjsonP.
(* The definitions of this development that occur in theorem statements (Props/) live in Spec/TextFormatsWf.v (audit item G1).
   The abbreviations keep the qualified names TextFormatsP.name of other files resolving; they are parsing-only aliases. *)
Require Export SR.Spec.TextFormatsWf.
Notation text_format := SR.Spec.TextFormatsWf.text_format (only parsing).
Notation delimiter_of := SR.Spec.TextFormatsWf.delimiter_of (only parsing).
Notation sheet_text := SR.Spec.TextFormatsWf.sheet_text (only parsing).
Notation docs_of := SR.Spec.TextFormatsWf.docs_of (only parsing).
Notation text_write := SR.Spec.TextFormatsWf.text_write (only parsing).
Notation txt_doc := SR.Spec.TextFormatsWf.txt_doc (only parsing).
Notation text_parse := SR.Spec.TextFormatsWf.text_parse (only parsing).
Notation ndjson_table_ok := SR.Spec.TextFormatsWf.ndjson_table_ok (only parsing).
Notation text_storable := SR.Spec.TextFormatsWf.text_storable (only parsing).
Notation ex_text_T := SR.Spec.TextFormatsWf.ex_text_T (only parsing).
Notation from_bytes := SR.Spec.TextFormatsWf.from_bytes (only parsing).

Lemma delimiter_ok f : Csv.delim_ok (delimiter_of f) = true.
Proof. destruct f; reflexivity. Qed.

(* ---- NDJSON: the items of dict(zip(header, row)) ---- *)
Lemma txt_doc_combine (h : list text) : forall r, txt_doc (combine h r) = combine h (map Txt r).
Proof.
  induction h as [|k h IH]; intros r; [reflexivity|]. destruct r as [|c r]; [reflexivity|].
  cbn [combine map txt_doc fst snd]. f_equal. apply IH.
Qed.

Lemma distinct_combine : forall (h r : list text), NoDup h -> Ndjson.distinct (map fst (combine h r)) = true.
Proof.
  induction h as [|k h IH]; intros r Hnd; [reflexivity|]. destruct r as [|c r]; [reflexivity|].
  inversion Hnd as [|? ? Hk Hh]; subst. cbn [combine map fst Ndjson.distinct]. rewrite IH by exact Hh.
  rewrite andb_true_r. apply negb_true_iff. destruct (existsb _ _) eqn:E; [|reflexivity].
  apply existsb_exists in E as (x & Hx & Ex). apply NdjsonP.text_eqb_eq in Ex. subst x.
  exfalso. apply Hk. apply in_map_iff in Hx as ([a b] & <- & Hab). apply in_combine_l in Hab. exact Hab.
Qed.

Lemma pairs_ok_combine ea : forall (h r : list text),
  forallb (Ndjson.text_ok ea) h = true -> forallb (Ndjson.text_ok ea) r = true ->
  forallb (fun kv => Ndjson.text_ok ea (fst kv) && Ndjson.text_ok ea (snd kv)) (combine h r) = true.
Proof.
  induction h as [|k h IH]; intros r Hh Hr; [reflexivity|]. destruct r as [|c r]; [reflexivity|].
  cbn [forallb] in Hh, Hr. apply andb_prop in Hh as [Hk Hh]. apply andb_prop in Hr as [Hc Hr].
  cbn [combine forallb fst snd]. rewrite Hk, Hc, IH by assumption. reflexivity.
Qed.

Lemma docs_ok ea T : NoDup (t_header T) -> ndjson_table_ok ea T = true ->
  forallb (Ndjson.doc_ok ea) (docs_of T) = true.
Proof.
  intros Hnd H. unfold ndjson_table_ok in H. apply andb_prop in H as [Hh Hr].
  unfold docs_of. rewrite forallb_forall in *. intros d Hd. apply in_map_iff in Hd as (r & <- & Hin).
  unfold Ndjson.doc_ok. rewrite distinct_combine by exact Hnd. cbn [andb].
  apply pairs_ok_combine; [apply forallb_forall; exact Hh|apply Hr, Hin].
Qed.

(* ---- the premise of the facade theorem, proved ---- *)
Lemma text_parse_write ea f W : text_format f = true -> storable f W = true -> wf_workbook W ->
  text_storable ea f W = true -> text_parse f (text_write ea f W) = phys f W.
Proof.
  intros Hf Hst Hwf Hok.
  assert (Hs : single_sheet f = true) by (destruct f; try discriminate Hf; reflexivity).
  destruct (storable_single_inv f W Hs Hst) as [T ->].
  destruct Hwf as [_ Hwf]. inversion Hwf as [|? ? [Hnd _] _]; subst. cbn [snd] in Hnd.
  destruct f; try discriminate Hf; cbn [text_write text_parse text_storable phys delimiter_of] in *.
  - rewrite (CsvP.lib_roundtrip Csv.COMMA _ eq_refl Hok). reflexivity.
  - rewrite (CsvP.lib_roundtrip Csv.TAB _ eq_refl Hok). reflexivity.
  - rewrite (NdjsonP.ndjson_roundtrip ea _ (docs_ok ea T Hnd Hok)). f_equal.
    unfold docs_of, phys_doc. rewrite map_map. apply map_ext. intros r. apply txt_doc_combine.
Qed.

(* the facade theorem for the three text formats, with no premise about a parser *)
Lemma facade_text ea f W : text_format f = true -> storable f W = true -> wf_workbook W ->
  text_storable ea f W = true ->
  open_read text_parse f (text_write ea f W) (headers W) = Ok (expected W).
Proof.
  intros Hf Hst Hwf Hok. unfold open_read. rewrite reader_for_ok. cbn [bind].
  rewrite (text_parse_write ea f W Hf Hst Hwf Hok).
  rewrite facade_phys; [reflexivity| |exact Hst|exact Hwf]. destruct f; try discriminate Hf; reflexivity.
Qed.

(* hence the three text formats agree with each other on every table all of them can hold *)
Lemma agree_text ea ea' f g W : text_format f = true -> text_format g = true ->
  storable f W = true -> storable g W = true -> wf_workbook W ->
  text_storable ea f W = true -> text_storable ea' g W = true ->
  open_read text_parse f (text_write ea f W) (headers W) = open_read text_parse g (text_write ea' g W) (headers W).
Proof. intros. rewrite !facade_text by assumption. reflexivity. Qed.

(* and each of them agrees with every other third-party format whose parser satisfies the (assumed) premise *)
Lemma agree_text_ext (image : Type) (ext_write : fmt -> workbook -> image) (ext_parse : fmt -> image -> content) :
  (forall f W, third_party f = true -> storable f W = true -> ext_parse f (ext_write f W) = phys f W) ->
  forall ea f g W, text_format f = true -> third_party g = true ->
    storable f W = true -> storable g W = true -> wf_workbook W -> text_storable ea f W = true ->
    open_read text_parse f (text_write ea f W) (headers W) = open_read ext_parse g (ext_write g W) (headers W).
Proof.
  intros H ea f g W Hf Hg Hsf Hsg Hwf Hok. rewrite facade_text by assumption.
  symmetry. apply (facade_ok image ext_write ext_parse H); assumption.
Qed.

Lemma ex_text_T_ok :
  wf_workbook [([], ex_text_T)]
  /\ text_storable true F_CSV [([], ex_text_T)] = true /\ text_storable true F_TAB [([], ex_text_T)] = true
  /\ text_storable true F_NDJSON [([], ex_text_T)] = true /\ text_storable false F_NDJSON [([], ex_text_T)] = true.
Proof.
  split; [|repeat split; vm_compute; reflexivity].
  apply wf_single. split; [|reflexivity].
  cbn. constructor; [intros [H|[]]; discriminate H|]. constructor; [intros []|constructor].
Qed.

(* ---- from the BYTES of the file (UTF-8, Model/Utf8.v) ---- *)
Require Import SR.Model.Utf8 SR.Proofs.Utf8P.

Lemma csv_bytes_roundtrip d T : Csv.delim_ok d = true -> scalar d = true -> Csv.table_ok_raw T = true ->
  forallb (forallb (forallb scalar)) T = true ->
  from_bytes (Csv.lib_read d) (utf8 (Csv.csv_write d T)) = Some (Ok T).
Proof.
  intros Hd Hs HT Hsc. unfold from_bytes.
  rewrite utf8_roundtrip by (apply CsvP.all_csv_write; try assumption; reflexivity).
  cbn [option_map]. rewrite CsvP.lib_roundtrip by assumption. reflexivity.
Qed.

Lemma ndjson_bytes_roundtrip ea docs : forallb (Ndjson.doc_ok ea) docs = true ->
  forallb (forallb (NdjsonP.scalar_pair ea)) docs = true ->
  from_bytes Ndjson.ndjson_read (utf8 (Ndjson.ndjson_write ea docs)) = Some (Ndjson.Done docs).
Proof.
  intros Hok Hsc. unfold from_bytes. rewrite utf8_roundtrip by (apply NdjsonP.scalar_written; exact Hsc).
  cbn [option_map]. rewrite NdjsonP.ndjson_roundtrip by exact Hok. reflexivity.
Qed.
