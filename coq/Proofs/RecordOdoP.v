(* C01b for C06's general form: the one fact Proofs/RecordP.v leaves as a hypothesis there - no $anchor occurs twice in the
   schema emitted for a record description that is well-formed in C06's sense (wfo) - proved with the internal lemmas of
   Proofs/LayoutP.v, LayoutOdoP.v and LayoutValueP.v (nodup_assemble, nodup_plain, keys_build_o, ...), following nodup_build.
   Kept in a file of its own: Proofs/RecordP.v and the wf theorem do not depend on it. *)
From Coq Require Import List Arith NArith Bool Lia.
Import ListNotations.
Require Import SR.Base.Res SR.Spec.Layout SR.Model.Layout SR.Model.LayoutValue SR.Spec.Coherence SR.Spec.Record SR.Model.Estruct SR.Model.RecordValue.
Require Import SR.Proofs.LayoutP SR.Proofs.LayoutOdoP SR.Proofs.LayoutValueP SR.Proofs.RecordP.

Section NDO.
  Variable e : env.
  Notation own y := (keys_js (build_alt y)).

  Lemma no_own_redef_o : forall x avail, wfo e avail x = true -> NoDup (ids x) -> ~ In (KRedef (item_id x)) (own x).
  Proof.
    intros x avail Hw Hnd. destruct x as [i sz oc rd|i oc rd ks].
    - destruct oc as [|n|c]; cbn; intuition discriminate.
    - cbn [ids] in Hnd. inversion Hnd as [|? ? Hi Hndk]; subst. cbn [item_id].
      destruct oc as [|n|c]; cbn [wfo] in Hw.
      + apply andb_true_iff in Hw. destruct Hw as [Hwk Hu].
        assert (Hkids : forall y, in_kids y ks -> incl (own y) (K (ids y))) by (apply (proj2 (keys_build_o e) ks avail); assumption).
        rewrite (build_group_once e) by assumption. cbn [keys_js js_anchor opt_list app]. intros [H|H]; [discriminate|].
        apply (keys_assemble_d ks Hkids) in H. apply K_redef in H. contradiction.
      + apply andb_true_iff in Hw. destruct Hw as [Hwk _].
        assert (Hkids : forall y, in_kids y ks -> incl (own y) (K (ids y))) by (apply (proj2 (keys_build e)); assumption).
        cbn [build_alt keys_js js_anchor opt_list app]. intros [H|H]; [discriminate|].
        apply (keys_plain [] ks Hkids) in H. apply K_redef in H. contradiction.
      + destruct rd; [discriminate|]. apply andb_true_iff in Hw. destruct Hw as [Hw _]. apply andb_true_iff in Hw. destruct Hw as [_ Hwk].
        assert (Hkids : forall y, in_kids y ks -> incl (own y) (K (ids y))) by (apply (proj2 (keys_build e)); assumption).
        cbn [build_alt keys_js js_anchor opt_list app]. intros [H|H]; [discriminate|].
        apply (keys_plain [] ks Hkids) in H. apply K_redef in H. contradiction.
  Qed.

  Lemma no_own_redef_kid : forall ks avail, wfo_kids e avail ks = true -> NoDup (ids_kids ks) ->
    forall y, in_kids y ks -> ~ In (KRedef (item_id y)) (own y).
  Proof.
    induction ks as [|x xs IH]; intros avail Hw Hnd y Hy; [destruct Hy|]. cbn [wfo_kids ids_kids] in *.
    assert (Hndx : NoDup (ids x)) by (apply NoDup_app_l in Hnd; exact Hnd).
    assert (Hndxs : NoDup (ids_kids xs)) by (apply NoDup_app_r in Hnd; exact Hnd).
    destruct (member x xs); apply andb_true_iff in Hw; destruct Hw as [Hwx Hwxs].
    - destruct Hy as [->|Hy]; [apply (no_own_redef e); assumption|eapply IH; eassumption].
    - destruct Hy as [->|Hy]; [eapply no_own_redef_o; eassumption|eapply IH; eassumption].
  Qed.

  Lemma nodup_build_o :
    (forall x avail, wfo e avail x = true -> NoDup (ids x) -> NoDup (own x)) /\
    (forall ks avail, wfo_kids e avail ks = true -> NoDup (ids_kids ks) -> forall y, in_kids y ks -> NoDup (own y)).
  Proof.
    apply item_items_ind.
    - intros i sz oc rd avail _ _. destruct oc as [|n|c]; cbn; repeat constructor; intuition.
    - intros i oc rd ks IH avail Hw Hnd. cbn [ids] in Hnd. inversion Hnd as [|? ? Hi Hndk]; subst.
      destruct oc as [|n|c]; cbn [wfo] in Hw.
      + apply andb_true_iff in Hw. destruct Hw as [Hwk Hu].
        assert (Hkids : forall y, in_kids y ks -> incl (own y) (K (ids y))) by (apply (proj2 (keys_build_o e) ks avail); assumption).
        rewrite (build_group_once e) by assumption. cbn [keys_js js_anchor opt_list app]. constructor.
        * intros H. apply (keys_assemble_d ks Hkids) in H. apply K_name in H. contradiction.
        * apply (nodup_assemble e ks []); auto.
          -- apply (IH avail); assumption.
          -- apply (no_own_redef_kid ks avail); assumption.
      + apply andb_true_iff in Hw. destruct Hw as [Hwk _].
        assert (Hkids : forall y, in_kids y ks -> incl (own y) (K (ids y))) by (apply (proj2 (keys_build e)); assumption).
        cbn [build_alt keys_js js_anchor opt_list app]. constructor.
        * intros H. apply (keys_plain [] ks Hkids) in H. apply K_name in H. contradiction.
        * apply nodup_plain; auto. apply (proj2 (nodup_build e)); assumption.
      + destruct rd; [discriminate|]. apply andb_true_iff in Hw. destruct Hw as [Hw _]. apply andb_true_iff in Hw. destruct Hw as [_ Hwk].
        assert (Hkids : forall y, in_kids y ks -> incl (own y) (K (ids y))) by (apply (proj2 (keys_build e)); assumption).
        cbn [build_alt keys_js js_anchor opt_list app]. constructor.
        * intros H. apply (keys_plain [] ks Hkids) in H. apply K_name in H. contradiction.
        * apply nodup_plain; auto. apply (proj2 (nodup_build e)); assumption.
    - intros avail _ _ y [].
    - intros x IHx xs IHxs avail Hw Hnd y Hy. cbn [wfo_kids ids_kids] in *.
      assert (Hndx : NoDup (ids x)) by (apply NoDup_app_l in Hnd; exact Hnd).
      assert (Hndxs : NoDup (ids_kids xs)) by (apply NoDup_app_r in Hnd; exact Hnd).
      destruct (member x xs); apply andb_true_iff in Hw; destruct Hw as [Hwx Hwxs].
      + destruct Hy as [->|Hy]; [apply (proj1 (nodup_build e)); assumption|eapply IHxs; eassumption].
      + destruct Hy as [->|Hy]; [eapply IHx; eassumption|eapply IHxs; eassumption].
  Qed.
End NDO.

Theorem uniq_keys_build_odo : forall e t, wfo e [] t = true -> NoDup (ids t) -> uniq_keys (build t) = true.
Proof.
  intros e t Hw Hnd. unfold uniq_keys, build. apply nodupk_of_NoDup. rewrite (proj1 jkeys_keys_js).
  exact (proj1 (nodup_build_o e) t [] Hw Hnd).
Qed.

(* hence the full statement of Proofs/RecordP.v *)
Theorem stored_is_read_odo : stored_is_read_odo_statement.
Proof.
  intros dcount kd vals e t Hw Hnd. exact (stored_is_read_odo_partial dcount kd vals e t Hw Hnd (uniq_keys_build_odo e t Hw Hnd)).
Qed.
