From Coq Require Import NArith List Bool Arith Lia Permutation.
Import ListNotations.
Require Import SR.Base.Res SR.Spec.Table SR.Model.HeaderRow.
Require SR.Model.NameCleaner SR.Proofs.NameCleanerP.
(* The definitions of this development that occur in theorem statements (Props/) live in Spec/HeaderRowKeys.v (audit item G1).
   The abbreviations keep the qualified names HeaderRowP.name of other files resolving; they are parsing-only aliases. *)
Require Export SR.Spec.HeaderRowKeys.
Notation k_title := SR.Spec.HeaderRowKeys.k_title (only parsing).
Notation k_anchor := SR.Spec.HeaderRowKeys.k_anchor (only parsing).
Notation k_type := SR.Spec.HeaderRowKeys.k_type (only parsing).
Notation k_string := SR.Spec.HeaderRowKeys.k_string (only parsing).

(* ---------------------------------------------------------------- keys *)
Lemma key_eqb_eq a : forall b, key_eqb a b = true <-> a = b.
Proof.
  induction a as [|x a IH]; intros [|y b]; simpl; split; intros H; try reflexivity; try discriminate.
  - apply andb_true_iff in H. destruct H as [H1 H2].
    apply N.eqb_eq in H1. apply IH in H2. subst. reflexivity.
  - injection H as -> ->. rewrite N.eqb_refl. simpl. apply IH. reflexivity.
Qed.

Lemma key_eqb_refl a : key_eqb a a = true.
Proof. apply key_eqb_eq. reflexivity. Qed.

Lemma key_eqb_neq a b : a <> b -> key_eqb a b = false.
Proof.
  intros H. destruct (key_eqb a b) eqn:E; [|reflexivity].
  apply key_eqb_eq in E. contradiction.
Qed.

(* ---------------------------------------------------------------- name_cleaner never raises (C17) *)
Lemma anchor_ok s : exists a, anchor_of s = Ok a.
Proof.
  destruct (NameCleanerP.clean_total s) as (r & H & _).
  exists r. unfold anchor_of. rewrite H. reflexivity.
Qed.

(* ---------------------------------------------------------------- the rules read from the source
   Gen/HeaderRowParams.v is regenerated from src/stingray/workbook.py and schema_instance.py on every run
   (harness/t1_workbook.py).  The lemmas of this section say which rules the proofs below rely on; each is
   closed by computation on the regenerated values, so an edit of the rule in the source stops it (and with
   it Props/C09.vo, Props/C03.vo, Props/C10.vo) from compiling. *)
Definition k_conversion : key := [99; 111; 110; 118; 101; 114; 115; 105; 111; 110]%N.

(* HeadingRowSchemaLoader.header: the property of a heading is keyed by str(heading) and gets
   title = the heading, $anchor = name_cleaner(str(heading)), type string, position = the enumerate counter,
   counted from 0; an empty sheet gives no schema *)
Lemma rule_heading_property :
  hdr_key = E_str E_item
  /\ hdr_props = [(k_title, E_item); (k_anchor, E_clean (E_str E_item)); (k_type, E_text k_string); (k_position, E_count)].
Proof. split; reflexivity. Qed.

Lemma rule_heading_enumerate : hdr_enum_start = 0.
Proof. reflexivity. Qed.

Lemma rule_heading_empty_sheet : hdr_on_empty = None.
Proof. reflexivity. Qed.

(* SchemaLoader.body, and the body() HeadingRowSchemaLoader uses, return the source unchanged *)
Lemma rule_body l (src : sheet) : body l src = src.
Proof. destruct l; reflexivity. Qed.

Lemma rule_body_kind {I} (keep : body_pred -> I -> bool) l (src : list I) : body_rows keep (body_kind_of l) src = src.
Proof. destruct l; reflexivity. Qed.

Lemma rule_body_base {I} (keep : body_pred -> I -> bool) (src : list I) : body_rows keep body_base src = src.
Proof. reflexivity. Qed.

(* Sheet.row_iter: header() first, body() on the SAME iterator (what header left), the schema header built is
   bound when there is one (otherwise the bound schema stays), every instance one Row *)
Lemma rule_row_iter {S I} keep (hdr : list I -> res (option S * list I)) bk preset src :
  sheet_row_iter keep hdr bk preset src
  = bind (hdr src) (fun hr =>
      let sch := match fst hr with Some s => Some s | None => preset end in
      let rows := body_rows keep bk (snd hr) in
      match rows, sch with
      | _ :: _, None => Err AttributeError
      | _, _ => Ok (sch, rows)
      end).
Proof.
  unfold sheet_row_iter. destruct (hdr src) as [[[s|] rest]|e]; [| |reflexivity]; cbn [bind fst snd].
  - change ri_rows with B_source. change ri_same_iterator with true. cbn [body_rows].
    destruct (body_rows keep bk rest); reflexivity.
  - change ri_guard with G_truthy. change ri_rows with B_source. change ri_same_iterator with true.
    cbn [bind fst snd body_rows]. destruct (body_rows keep bk rest), preset; reflexivity.
Qed.

(* Sheet.set_schema installs the do-nothing loader *)
Lemma rule_set_schema st s : bind_step st (SetSchema s) = (NoLoader, Some s).
Proof. reflexivity. Qed.

(* WBNav.name: the position attribute whenever the property HAS one (position 0 included), otherwise the
   index of the name among the properties; a missing cell is the [None] marker *)
Lemma rule_position s k e :
  position_of s k e = match e_pos e with Some p => p | None => key_index (keys s) k end.
Proof. unfold position_of. destruct (e_pos e); reflexivity. Qed.

Lemma rule_absent : absent_result = Ok None.
Proof. reflexivity. Qed.

Lemma rule_position_keyword : nav_pos_attr = k_position.
Proof. reflexivity. Qed.

Lemma nav_name_unfold s k r :
  nav_name s k r
  = match find_entry s k with
    | None => Err KeyError
    | Some e =>
        let position := match e_pos e with Some p => p | None => key_index (keys s) k end in
        match nth_error r position with
        | Some c => Ok (Some c)
        | None => Ok None
        end
    end.
Proof. unfold nav_name. destruct (find_entry s k) as [e|]; [|reflexivity]. rewrite rule_position, rule_absent. reflexivity. Qed.

(* Row.values: one value per schema property, in property order *)
Lemma rule_values s r : values s r = collect (map (fun k => nav_name s k r) (keys s)).
Proof. reflexivity. Qed.

(* ExternalSchemaLoader.load: the property of a row is keyed by its name cell and reads the three attributes
   name, description, dataType; position = the enumerate counter, counted from 0; META_SCHEMA puts them in
   columns 0, 1, 2 *)
Lemma rule_external_property :
  ext_key = E_field k_name
  /\ ext_props = [(k_title, E_field k_name); (k_anchor, E_clean (E_field k_name)); (k_type, E_text k_string);
                  (k_position, E_count); (k_description, E_field k_description); (k_conversion, E_field k_dataType)].
Proof. split; reflexivity. Qed.

Lemma rule_external_enumerate : ext_enum_start = 0.
Proof. reflexivity. Qed.

Lemma rule_meta_schema :
  meta_schema = [mk_entry k_name (Some 0); mk_entry k_description (Some 1); mk_entry k_dataType (Some 2)].
Proof. reflexivity. Qed.

(* ---------------------------------------------------------------- the header comprehension *)
Lemma header_item_ok n c : header_item n c = Ok (mk_entry (str_of c) (Some n)).
Proof.
  unfold header_item, comp_item. destruct rule_heading_property as [-> ->].
  cbn [eval eval_props bind en_item en_count str_val].
  destruct (anchor_ok (str_of c)) as [a Ha]. rewrite Ha.
  cbn [bind key_of_val]. reflexivity.
Qed.

Fixpoint positioned (n : nat) (ks : list key) : list entry :=
  match ks with
  | [] => []
  | k :: t => mk_entry k (Some n) :: positioned (S n) t
  end.

Lemma header_entries_ok first : forall n,
  header_entries n first = Ok (positioned n (map str_of first)).
Proof.
  induction first as [|c t IH]; intros n; cbn [header_entries map positioned]; [reflexivity|].
  rewrite header_item_ok. cbn [bind]. rewrite IH. reflexivity.
Qed.

Lemma keys_positioned ks : forall n, keys (positioned n ks) = ks.
Proof. induction ks as [|k t IH]; intros n; simpl; [reflexivity|]. unfold keys in IH. rewrite IH. reflexivity. Qed.

Lemma length_positioned ks : forall n, length (positioned n ks) = length ks.
Proof. induction ks as [|k t IH]; intros n; simpl; [reflexivity|]. rewrite IH. reflexivity. Qed.

Lemma nth_positioned ks : forall n i e,
  nth_error (positioned n ks) i = Some e ->
  exists k, nth_error ks i = Some k /\ e = mk_entry k (Some (n + i)).
Proof.
  induction ks as [|k t IH]; intros n i e H.
  - destruct i; discriminate.
  - destruct i as [|i]; simpl in H.
    + injection H as <-. exists k. split; [reflexivity|]. rewrite Nat.add_0_r. reflexivity.
    + destruct (IH _ _ _ H) as (k' & Hk & He). exists k'. split; [exact Hk|].
      rewrite He. f_equal. f_equal. lia.
Qed.

Lemma positioned_with_positions ks : forall n,
  map (fun e => (e_key e, e_pos e)) (positioned n ks)
  = map (fun p => (fst p, Some (snd p))) (combine ks (seq n (length ks))).
Proof. induction ks as [|k t IH]; intros n; simpl; [reflexivity|]. rewrite IH. reflexivity. Qed.

(* ---------------------------------------------------------------- dict semantics on distinct keys *)
Lemma has_key_false s k : ~ In k (keys s) -> has_key s k = false.
Proof.
  induction s as [|e s IH]; simpl; intros H; [reflexivity|].
  rewrite key_eqb_neq; [|intros E; apply H; left; exact E].
  simpl. apply IH. intros Hin. apply H. right. exact Hin.
Qed.

Lemma fold_dict_set es : forall acc,
  NoDup (keys acc ++ keys es) -> fold_left dict_set es acc = acc ++ es.
Proof.
  induction es as [|e es IH]; intros acc H; simpl.
  - rewrite app_nil_r. reflexivity.
  - simpl in H. pose proof (NoDup_remove_2 _ _ _ H) as Hn.
    unfold dict_set at 2. rewrite has_key_false.
    + rewrite IH.
      * rewrite <- app_assoc. reflexivity.
      * unfold keys in *. rewrite map_app. simpl. rewrite <- app_assoc. simpl. exact H.
    + intros Hin. apply Hn. apply in_or_app. left. exact Hin.
Qed.

Lemma dict_of_nodup es : NoDup (keys es) -> dict_of es = es.
Proof. intros H. unfold dict_of. rewrite fold_dict_set; [reflexivity|exact H]. Qed.

(* ---------------------------------------------------------------- by-name access *)
Lemma find_entry_none s k : ~ In k (keys s) -> find_entry s k = None.
Proof.
  induction s as [|e s IH]; simpl; intros H; [reflexivity|].
  rewrite key_eqb_neq; [|intros E; apply H; left; exact E].
  apply IH. intros Hin. apply H. right. exact Hin.
Qed.

Lemma find_entry_nth s : forall i e,
  NoDup (keys s) -> nth_error s i = Some e -> find_entry s (e_key e) = Some e.
Proof.
  induction s as [|a s IH]; intros i e Hnd H.
  - destruct i; discriminate.
  - simpl in Hnd. inversion Hnd as [|x l Hnotin Hnd']; subst.
    destruct i as [|i]; simpl in H.
    + injection H as ->. simpl. rewrite key_eqb_refl. reflexivity.
    + simpl. rewrite key_eqb_neq.
      * apply (IH i); assumption.
      * intros E. apply Hnotin. rewrite E.
        apply in_map. eapply nth_error_In. exact H.
Qed.

Lemma key_index_nth ks : forall i k,
  NoDup ks -> nth_error ks i = Some k -> key_index ks k = i.
Proof.
  induction ks as [|a ks IH]; intros i k Hnd H.
  - destruct i; discriminate.
  - inversion Hnd as [|x l Hnotin Hnd']; subst.
    destruct i as [|i]; simpl in H.
    + injection H as ->. simpl. rewrite key_eqb_refl. reflexivity.
    + simpl. rewrite key_eqb_neq.
      * f_equal. apply IH; assumption.
      * intros E. apply Hnotin. rewrite E. eapply nth_error_In. exact H.
Qed.

(* a schema that reads the i-th cell for its i-th property: distinct keys, and every
   position attribute either missing (index of the key is used) or equal to the index *)
Definition by_index (s : schema) : Prop :=
  NoDup (keys s) /\
  forall i e, nth_error s i = Some e -> e_pos e = None \/ e_pos e = Some i.

Lemma nav_missing s k r : ~ In k (keys s) -> nav_name s k r = Err KeyError.
Proof. intros H. rewrite nav_name_unfold. rewrite find_entry_none; [reflexivity|exact H]. Qed.

Lemma nav_by_index s i k r :
  by_index s -> nth_error (keys s) i = Some k -> nav_name s k r = Ok (nth_error r i).
Proof.
  intros [Hnd Hpos] Hk.
  assert (exists e, nth_error s i = Some e /\ e_key e = k) as (e & He & Hek).
  { unfold keys in Hk. destruct (nth_error s i) as [e|] eqn:E.
    - exists e. split; [reflexivity|].
      rewrite (map_nth_error e_key i s E) in Hk. injection Hk as <-. reflexivity.
    - exfalso. apply nth_error_None in E.
      assert (nth_error (map e_key s) i = None) as H0 by (apply nth_error_None; rewrite map_length; exact E).
      rewrite H0 in Hk. discriminate. }
  subst k. rewrite nav_name_unfold. rewrite (find_entry_nth s i e Hnd He). cbv zeta.
  assert ((match e_pos e with Some p => p | None => key_index (keys s) (e_key e) end) = i) as ->.
  { destruct (Hpos i e He) as [Hp|Hp]; rewrite Hp.
    - apply key_index_nth; assumption.
    - reflexivity. }
  destruct (nth_error r i); reflexivity.
Qed.

Lemma collect_map_ok {X T} (f : X -> res T) (g : X -> T) l :
  (forall x, In x l -> f x = Ok (g x)) -> collect (map f l) = Ok (map g l).
Proof.
  induction l as [|x l IH]; intros H; simpl; [reflexivity|].
  rewrite (H x (or_introl eq_refl)). simpl.
  rewrite IH; [reflexivity|]. intros y Hy. apply H. right. exact Hy.
Qed.

Lemma map_key_index_seq ks : NoDup ks -> map (key_index ks) ks = seq 0 (length ks).
Proof.
  induction ks as [|a ks IH]; intros Hnd; [reflexivity|].
  inversion Hnd as [|x l Hnotin Hnd']; subst.
  simpl. rewrite key_eqb_refl. f_equal.
  rewrite <- seq_shift. rewrite <- (IH Hnd'). rewrite map_map.
  apply map_ext_in. intros k Hk.
  rewrite key_eqb_neq; [reflexivity|]. intros E. apply Hnotin. rewrite E. exact Hk.
Qed.

Lemma map_nth_error_nil {T} len : forall start, map (@nth_error T []) (seq start len) = repeat None len.
Proof.
  induction len as [|len IH]; intros start; simpl; [reflexivity|].
  rewrite IH. destruct start; reflexivity.
Qed.

Lemma cells_by_seq {T} (r : list T) : forall n,
  map (nth_error r) (seq 0 n) = cells_in_header_order n r.
Proof.
  unfold cells_in_header_order.
  induction r as [|c t IH]; intros n.
  - rewrite map_nth_error_nil, firstn_nil. simpl. rewrite Nat.sub_0_r. reflexivity.
  - destruct n as [|n]; [reflexivity|].
    cbn [seq map nth_error firstn length app Nat.sub]. f_equal.
    rewrite <- seq_shift, map_map. cbn [nth_error]. apply IH.
Qed.

Lemma values_by_index s r :
  by_index s -> values s r = Ok (cells_in_header_order (length s) r).
Proof.
  intros Hs. rewrite rule_values.
  rewrite (collect_map_ok _ (fun k => nth_error r (key_index (keys s) k))).
  - f_equal. rewrite <- map_map. rewrite map_key_index_seq; [|exact (proj1 Hs)].
    unfold keys. rewrite map_length. apply cells_by_seq.
  - intros k Hk. destruct (In_nth_error _ _ Hk) as [i Hi].
    rewrite (nav_by_index s i k r Hs Hi).
    rewrite (key_index_nth _ _ _ (proj1 Hs) Hi). reflexivity.
Qed.

Lemma by_index_positioned ks : NoDup ks -> by_index (positioned 0 ks).
Proof.
  intros H. split.
  - rewrite keys_positioned. exact H.
  - intros i e He. right. destruct (nth_positioned _ _ _ _ He) as (k & _ & ->). reflexivity.
Qed.

Lemma by_index_hand names : NoDup names -> by_index (hand_schema names).
Proof.
  intros H. unfold hand_schema.
  assert (keys (map (fun k => mk_entry k None) names) = names) as Hk.
  { unfold keys. rewrite map_map. simpl. apply map_id. }
  rewrite dict_of_nodup; [|rewrite Hk; exact H].
  split; [rewrite Hk; exact H|].
  intros i e He. left.
  destruct (nth_error names i) as [k|] eqn:E.
  - rewrite (map_nth_error _ i names E) in He. injection He as <-. reflexivity.
  - exfalso. apply nth_error_None in E.
    assert (nth_error (map (fun k => mk_entry k None) names) i = None) as H0
      by (apply nth_error_None; rewrite map_length; exact E).
    rewrite H0 in He. discriminate.
Qed.

Lemma keys_hand names : NoDup names -> keys (hand_schema names) = names.
Proof.
  intros H. unfold hand_schema.
  assert (keys (map (fun k => mk_entry k None) names) = names) as Hk.
  { unfold keys. rewrite map_map. simpl. apply map_id. }
  rewrite dict_of_nodup; rewrite Hk; [reflexivity|exact H].
Qed.

(* ---------------------------------------------------------------- the heading row *)
Lemma header_schema_ok first :
  header_schema first = Ok (dict_of (positioned 0 (map str_of first))).
Proof. unfold header_schema. rewrite rule_heading_enumerate, header_entries_ok. reflexivity. Qed.

Lemma header_schema_nodup first :
  NoDup (map str_of first) -> header_schema first = Ok (positioned 0 (map str_of first)).
Proof.
  intros H. rewrite header_schema_ok. rewrite dict_of_nodup; [reflexivity|].
  rewrite keys_positioned. exact H.
Qed.

(* rows delivered = every physical row after the first; never raises *)
Lemma rows_tl (sh : sheet) pre :
  exists os, row_iter HeadingRow pre sh = Ok (os, data_rows sh).
Proof.
  destruct sh as [|first rest]; unfold row_iter, data_rows; rewrite rule_row_iter; cbn [header tl].
  - rewrite rule_heading_empty_sheet. exists pre. destruct pre; reflexivity.
  - rewrite header_schema_ok. cbn [bind fst snd]. rewrite rule_body_kind. eexists. destruct rest; reflexivity.
Qed.

Lemma rows_schema first rest pre :
  exists s, header_schema first = Ok s /\ row_iter HeadingRow pre (first :: rest) = Ok (Some s, rest).
Proof.
  eexists. split; [apply header_schema_ok|].
  unfold row_iter. rewrite rule_row_iter. cbn [header]. rewrite header_schema_ok. cbn [bind fst snd].
  rewrite rule_body_kind. destruct rest; reflexivity.
Qed.

Lemma rows_empty pre : row_iter HeadingRow pre [] = Ok (pre, []).
Proof. unfold row_iter. rewrite rule_row_iter. cbn [header]. rewrite rule_heading_empty_sheet. destruct pre; reflexivity. Qed.

Lemma rows_noloader s (data : sheet) : row_iter NoLoader (Some s) data = Ok (Some s, data).
Proof. unfold row_iter. rewrite rule_row_iter. cbn [header bind fst snd]. rewrite rule_body_kind. destruct data; reflexivity. Qed.

Lemma by_name first s r i c :
  header_schema first = Ok s -> NoDup (map str_of first) -> nth_error first i = Some c ->
  nav_name s (str_of c) r = Ok (nth_error r i).
Proof.
  intros Hs Hnd Hc. rewrite (header_schema_nodup _ Hnd) in Hs. injection Hs as <-.
  apply nav_by_index; [apply by_index_positioned; exact Hnd|].
  rewrite keys_positioned. apply map_nth_error. exact Hc.
Qed.

Lemma not_header first s r k :
  header_schema first = Ok s -> ~ In k (map str_of first) -> nav_name s k r = Err KeyError.
Proof.
  intros Hs Hk. rewrite header_schema_ok in Hs. injection Hs as <-.
  apply nav_missing. intros Hin. apply Hk.
  (* keys of a dict built from entries are among the entries' keys *)
  assert (forall es acc k0, In k0 (keys (fold_left dict_set es acc)) -> In k0 (keys acc) \/ In k0 (keys es)) as Hsub.
  { induction es as [|e es IH]; intros acc k0 H0; simpl in H0; [left; exact H0|].
    destruct (IH _ _ H0) as [H1|H1]; [|right; right; exact H1].
    unfold dict_set in H1. destruct (has_key acc (e_key e)).
    - unfold keys in H1. rewrite map_map in H1. apply in_map_iff in H1.
      destruct H1 as (x & Hx & Hin'). destruct (key_eqb (e_key x) (e_key e)) eqn:E.
      + right. left. exact Hx.
      + left. rewrite <- Hx. apply in_map. exact Hin'.
    - unfold keys in H1. rewrite map_app in H1. apply in_app_or in H1.
      destruct H1 as [H1|[H1|[]]]; [left; exact H1|right; left; exact H1]. }
  destruct (Hsub _ _ _ Hin) as [[]|H1]. rewrite keys_positioned in H1. exact H1.
Qed.

Lemma header_values first s r :
  header_schema first = Ok s -> NoDup (map str_of first) ->
  values s r = Ok (cells_in_header_order (length first) r).
Proof.
  intros Hs Hnd. rewrite (header_schema_nodup _ Hnd) in Hs. injection Hs as <-.
  rewrite values_by_index; [|apply by_index_positioned; exact Hnd].
  rewrite length_positioned, map_length. reflexivity.
Qed.

(* ---------------------------------------------------------------- column permutations *)
Lemma Forall2_nth_error {X Y} (R : X -> Y -> Prop) l l' :
  Forall2 R l l' -> forall i y, nth_error l' i = Some y -> exists x, nth_error l i = Some x /\ R x y.
Proof.
  induction 1 as [|x y l l' Hxy HF IH]; intros i y0 H0.
  - destruct i; discriminate.
  - destruct i as [|i]; simpl in H0.
    + injection H0 as <-. exists x. split; [reflexivity|exact Hxy].
    + apply IH. exact H0.
Qed.

Lemma Forall2_map_nth {X} (h h' : list X) pi d :
  Forall2 (fun c' j => nth_error h j = Some c') h' pi -> h' = map (fun j => nth j h d) pi.
Proof.
  induction 1 as [|x j l l' Hxj HF IH]; simpl; [reflexivity|].
  rewrite (nth_error_nth h j d Hxj). f_equal. exact IH.
Qed.

Lemma map_nth_seq {X} (h : list X) d : map (fun j => nth j h d) (seq 0 (length h)) = h.
Proof.
  induction h as [|c t IH]; simpl; [reflexivity|].
  f_equal. rewrite <- seq_shift, map_map. exact IH.
Qed.

Lemma perm_by_name h h' pi r r' c s s' :
  NoDup (map str_of h) ->
  Permutation pi (seq 0 (length h)) ->
  Forall2 (fun c' j => nth_error h j = Some c') h' pi ->
  (forall i j, nth_error pi i = Some j -> nth_error r' i = nth_error r j) ->
  In c h ->
  header_schema h = Ok s -> header_schema h' = Ok s' ->
  nav_name s' (str_of c) r' = nav_name s (str_of c) r.
Proof.
  intros Hnd Hperm Hh' Hr Hin Hs Hs'.
  destruct (In_nth_error _ _ Hin) as [j Hj].
  assert (j < length h) as Hlt by (apply nth_error_Some; rewrite Hj; discriminate).
  assert (In j pi) as Hjpi.
  { apply (Permutation_in j (Permutation_sym Hperm)). apply in_seq. lia. }
  destruct (In_nth_error _ _ Hjpi) as [i Hi].
  destruct (Forall2_nth_error _ _ _ Hh' i j Hi) as (c' & Hc' & Hc'j).
  simpl in Hc'j. rewrite Hj in Hc'j. injection Hc'j as <-.
  assert (NoDup (map str_of h')) as Hnd'.
  { rewrite (Forall2_map_nth h h' pi c Hh').
    apply (Permutation_NoDup (l := map str_of h)); [|exact Hnd].
    apply Permutation_map. apply Permutation_sym.
    eapply Permutation_trans; [apply Permutation_map; exact Hperm|].
    rewrite map_nth_seq. apply Permutation_refl. }
  rewrite (by_name h' s' r' i c Hs' Hnd' Hc').
  rewrite (by_name h s r j c Hs Hnd Hj).
  rewrite (Hr i j Hi). reflexivity.
Qed.

(* the boolean tests of Spec/Table.v mean what the hypotheses above say *)
Lemma is_perm_sound pi n : is_perm pi n = true -> Permutation pi (seq 0 n).
Proof.
  unfold is_perm. intros H. apply andb_true_iff in H. destruct H as [Hlen Hall].
  apply Nat.eqb_eq in Hlen. apply Permutation_sym.
  apply NoDup_Permutation_bis.
  - apply seq_NoDup.
  - rewrite seq_length. lia.
  - intros j Hj. rewrite forallb_forall in Hall. specialize (Hall j Hj).
    apply existsb_exists in Hall. destruct Hall as (x & Hx & E).
    apply Nat.eqb_eq in E. subst x. exact Hx.
Qed.

Lemma reordered_sound {T} (teqb : T -> T -> bool) pi (l l' : list T) :
  (forall a b, teqb a b = true -> a = b) ->
  reordered teqb pi l l' = true ->
  forall i j, nth_error pi i = Some j -> nth_error l' i = nth_error l j.
Proof.
  intros Hsound H i j Hi. unfold reordered in H. rewrite forallb_forall in H.
  assert (In (i, j) (combine (seq 0 (length pi)) pi)) as Hin.
  { assert (forall (p : list nat) a i0, nth_error p i0 = Some j -> In (a + i0, j) (combine (seq a (length p)) p)) as G.
    { induction p as [|x p IHp]; intros a i0 H0; [destruct i0; discriminate|].
      destruct i0 as [|i0]; simpl in H0.
      - injection H0 as ->. left. rewrite Nat.add_0_r. reflexivity.
      - right. replace (a + S i0) with (S a + i0) by lia. apply IHp. exact H0. }
    exact (G pi 0 i Hi). }
  specialize (H _ Hin). simpl in H.
  destruct (nth_error l' i) as [x|], (nth_error l j) as [y|]; try discriminate; [|reflexivity].
  f_equal. apply Hsound. exact H.
Qed.

(* ---------------------------------------------------------------- the external schema *)
Lemma nav_meta_name r : nav_name meta_schema k_name r = Ok (nth_error r 0).
Proof.
  rewrite nav_name_unfold, rule_meta_schema.
  change (find_entry [mk_entry k_name (Some 0); mk_entry k_description (Some 1); mk_entry k_dataType (Some 2)] k_name)
    with (Some (mk_entry k_name (Some 0))).
  cbn [e_pos]. destruct (nth_error r 0); reflexivity.
Qed.

Lemma nav_meta_description r : nav_name meta_schema k_description r = Ok (nth_error r 1).
Proof.
  rewrite nav_name_unfold, rule_meta_schema.
  change (find_entry [mk_entry k_name (Some 0); mk_entry k_description (Some 1); mk_entry k_dataType (Some 2)] k_description)
    with (Some (mk_entry k_description (Some 1))).
  cbn [e_pos]. destruct (nth_error r 1); reflexivity.
Qed.

Lemma nav_meta_dataType r : nav_name meta_schema k_dataType r = Ok (nth_error r 2).
Proof.
  rewrite nav_name_unfold, rule_meta_schema.
  change (find_entry [mk_entry k_name (Some 0); mk_entry k_description (Some 1); mk_entry k_dataType (Some 2)] k_dataType)
    with (Some (mk_entry k_dataType (Some 2))).
  cbn [e_pos]. destruct (nth_error r 2); reflexivity.
Qed.

(* one row of the metadata sheet under META_SCHEMA: a text name cell gives the property, anything else TypeError *)
Lemma ext_entry_meta n r :
  ext_entry meta_schema n r
  = match nth_error r 0 with Some (Txt t) => Ok (mk_entry t (Some n)) | _ => Err TypeError end.
Proof.
  unfold ext_entry, comp_item. destruct rule_external_property as [-> ->].
  cbn [eval eval_props bind en_item en_count en_field].
  rewrite nav_meta_name, nav_meta_description, nav_meta_dataType. cbn [bind].
  destruct (nth_error r 0) as [[t|id rp]|]; [|reflexivity|reflexivity].
  destruct (anchor_ok t) as [a Ha]. rewrite Ha. cbn [bind key_of_val]. reflexivity.
Qed.

Lemma ext_entries_ok meta : forall names n,
  first_cells meta = Some (map Txt names) ->
  ext_entries meta_schema n meta = Ok (positioned n names).
Proof.
  induction meta as [|r meta IH]; intros names n H.
  - simpl in H. injection H as H. destruct names; [reflexivity|discriminate].
  - destruct r as [|c r]; [discriminate|]. simpl in H.
    destruct (first_cells meta) as [cs|] eqn:E; [|discriminate].
    simpl in H. injection H as H. destruct names as [|k names]; [discriminate|].
    simpl in H. injection H as -> ->.
    cbn [ext_entries]. rewrite ext_entry_meta. cbn [nth_error bind].
    rewrite (IH names (S n) eq_refl). reflexivity.
Qed.

Lemma ext_load_ok meta names :
  first_cells meta = Some (map Txt names) ->
  ext_load_meta meta = Ok (dict_of (positioned 0 names)).
Proof.
  intros H. unfold ext_load_meta, ext_load. rewrite rows_noloader. cbn [bind fst snd].
  rewrite rule_external_enumerate, (ext_entries_ok meta names 0 H). reflexivity.
Qed.

Lemma ext_load_nodup meta names :
  first_cells meta = Some (map Txt names) -> NoDup names ->
  ext_load_meta meta = Ok (positioned 0 names).
Proof.
  intros H Hnd. rewrite (ext_load_ok meta names H).
  rewrite dict_of_nodup; [reflexivity|]. rewrite keys_positioned. exact Hnd.
Qed.

(* a row of the metadata sheet without a text first cell makes load() raise TypeError *)
Lemma ext_load_bad_row meta : first_cells meta = None -> ext_load_meta meta = Err TypeError.
Proof.
  intros H. unfold ext_load_meta, ext_load. rewrite rows_noloader. cbn [bind fst snd]. rewrite rule_external_enumerate.
  assert (forall n, ext_entries meta_schema n meta = Err TypeError) as G.
  { induction meta as [|r meta IH]; intros n; [discriminate|].
    destruct r as [|c r].
    - cbn [ext_entries]. rewrite ext_entry_meta. reflexivity.
    - simpl in H. destruct (first_cells meta) as [cs|] eqn:E; [discriminate|].
      cbn [ext_entries]. rewrite ext_entry_meta. cbn [nth_error].
      destruct c as [t|id rp]; [|reflexivity]. cbn [bind].
      rewrite (IH eq_refl). reflexivity. }
  rewrite G. reflexivity.
Qed.

Lemma reads_agree s1 s2 ks k r :
  by_index s1 -> by_index s2 -> keys s1 = ks -> keys s2 = ks ->
  nav_name s1 k r = nav_name s2 k r.
Proof.
  intros H1 H2 K1 K2.
  destruct (in_dec (list_eq_dec N.eq_dec) k ks) as [Hin|Hnot].
  - destruct (In_nth_error _ _ Hin) as [i Hi].
    rewrite (nav_by_index s1 i k r H1); [|rewrite K1; exact Hi].
    rewrite (nav_by_index s2 i k r H2); [|rewrite K2; exact Hi]. reflexivity.
  - rewrite !nav_missing; [reflexivity| |]; [rewrite K2|rewrite K1]; exact Hnot.
Qed.

Lemma external meta names s :
  first_cells meta = Some (map Txt names) -> NoDup names ->
  ext_load_meta meta = Ok s ->
  map (fun e => (e_key e, e_pos e)) s
    = map (fun p => (fst p, Some (snd p))) (with_positions names)
  /\ (forall data, row_iter NoLoader (Some s) data = Ok (Some s, data))
  /\ (forall k r, nav_name s k r = nav_name (hand_schema names) k r)
  /\ (forall i k r, nth_error names i = Some k -> nav_name s k r = Ok (nth_error r i))
  /\ (forall r, values s r = Ok (cells_in_header_order (length names) r)
             /\ values (hand_schema names) r = Ok (cells_in_header_order (length names) r)).
Proof.
  intros H Hnd Hs. rewrite (ext_load_nodup meta names H Hnd) in Hs. injection Hs as <-.
  pose proof (by_index_positioned names Hnd) as B1.
  pose proof (by_index_hand names Hnd) as B2.
  split; [apply positioned_with_positions|].
  split; [intros data; apply rows_noloader|].
  split; [intros k r; apply (reads_agree _ _ names); auto using keys_positioned, keys_hand|].
  split.
  - intros i k r Hk. apply nav_by_index; [exact B1|]. rewrite keys_positioned. exact Hk.
  - intros r. split.
    + rewrite values_by_index; [|exact B1]. rewrite length_positioned. reflexivity.
    + rewrite values_by_index; [|exact B2].
      replace (length (hand_schema names)) with (length names); [reflexivity|].
      rewrite <- (keys_hand names Hnd) at 1. unfold keys. rewrite map_length. reflexivity.
Qed.

(* ---------------------------------------------------------------- end-to-end forms used by Props/C09.v *)
Lemma row_iter_inv h body pre os rows :
  row_iter HeadingRow pre (h :: body) = Ok (os, rows) ->
  exists s, header_schema h = Ok s /\ os = Some s /\ rows = body.
Proof.
  intros H. destruct (rows_schema h body pre) as (s & Hs & Hr).
  rewrite Hr in H. injection H as <- <-. exists s. auto.
Qed.

Lemma by_name_table h body pre os rows :
  row_iter HeadingRow pre (h :: body) = Ok (os, rows) -> NoDup (map str_of h) ->
  exists s, os = Some s /\
    forall r i c, nth_error h i = Some c -> nav_name s (str_of c) r = Ok (nth_error r i).
Proof.
  intros H Hnd. destruct (row_iter_inv _ _ _ _ _ H) as (s & Hs & -> & _).
  exists s. split; [reflexivity|]. intros r i c Hc. exact (by_name h s r i c Hs Hnd Hc).
Qed.

Lemma values_table h body pre os rows :
  row_iter HeadingRow pre (h :: body) = Ok (os, rows) -> NoDup (map str_of h) ->
  exists s, os = Some s /\
    forall r, values s r = Ok (cells_in_header_order (length h) r).
Proof.
  intros H Hnd. destruct (row_iter_inv _ _ _ _ _ H) as (s & Hs & -> & _).
  exists s. split; [reflexivity|]. intros r. exact (header_values h s r Hs Hnd).
Qed.

Lemma perm_table h h' body body' pi pre os os' rows rows' :
  NoDup (map str_of h) ->
  Permutation pi (seq 0 (length h)) ->
  Forall2 (fun c' j => nth_error h j = Some c') h' pi ->
  Forall2 (fun r r' => forall i j, nth_error pi i = Some j -> nth_error r' i = nth_error r j) body body' ->
  row_iter HeadingRow pre (h :: body) = Ok (os, rows) ->
  row_iter HeadingRow pre (h' :: body') = Ok (os', rows') ->
  exists s s', os = Some s /\ os' = Some s' /\
    Forall2 (fun r r' => forall c, In c h -> nav_name s' (str_of c) r' = nav_name s (str_of c) r) rows rows'.
Proof.
  intros Hnd Hperm Hh' Hb H H'.
  destruct (row_iter_inv _ _ _ _ _ H) as (s & Hs & -> & ->).
  destruct (row_iter_inv _ _ _ _ _ H') as (s' & Hs' & -> & ->).
  exists s, s'. split; [reflexivity|]. split; [reflexivity|].
  clear H H'. induction Hb as [|r r' l l' Hr HF IH]; constructor; [|exact IH].
  intros c Hc. exact (perm_by_name h h' pi r r' c s s' Hnd Hperm Hh' Hr Hc Hs Hs').
Qed.

(* ---------------------------------------------------------------- binding calls: the last one wins *)
Lemma binding_last_schema bs s src :
  read_after (bs ++ [SetSchema s]) src = row_iter NoLoader (Some s) src.
Proof. unfold read_after, bind_all. rewrite fold_left_app. cbn [fold_left]. rewrite rule_set_schema. reflexivity. Qed.

Lemma binding_last_loader bs l src :
  exists pre, read_after (bs ++ [SetLoader l]) src = row_iter l pre src.
Proof. unfold read_after, bind_all. rewrite fold_left_app. simpl. eexists. reflexivity. Qed.

Lemma binding_last_wins :
  (forall bs s (data : sheet),
     read_after (bs ++ [SetSchema s]) data = row_iter NoLoader (Some s) data
     /\ read_after (bs ++ [SetSchema s]) data = Ok (Some s, data))
  /\ (forall bs (sh : sheet),
       (exists pre, read_after (bs ++ [SetLoader HeadingRow]) sh = row_iter HeadingRow pre sh)
       /\ (exists os, read_after (bs ++ [SetLoader HeadingRow]) sh = Ok (os, data_rows sh))).
Proof.
  split.
  - intros bs s data. rewrite binding_last_schema. split; [reflexivity|apply rows_noloader].
  - intros bs sh. destruct (binding_last_loader bs HeadingRow sh) as [pre H].
    split; [exists pre; exact H|]. rewrite H. apply rows_tl.
Qed.

(* ---------------------------------------------------------------- explicit positions, any order *)
Definition declared (decl : list (key * nat)) : schema :=
  map (fun kp => mk_entry (fst kp) (Some (snd kp))) decl.

Lemma keys_declared decl : keys (declared decl) = map fst decl.
Proof. unfold keys, declared. rewrite map_map. reflexivity. Qed.

Lemma declared_position_nth decl : forall i k p,
  NoDup (map fst decl) -> nth_error decl i = Some (k, p) ->
  declared_position key_eqb decl k = Some p.
Proof.
  induction decl as [|[k0 p0] decl IH]; intros i k p Hnd H.
  - destruct i; discriminate.
  - simpl in Hnd. inversion Hnd as [|x l Hnotin Hnd']; subst.
    destruct i as [|i]; simpl in H.
    + injection H as -> ->. simpl. rewrite key_eqb_refl. reflexivity.
    + simpl. rewrite key_eqb_neq; [apply (IH i); assumption|].
      intros E. apply Hnotin. rewrite E.
      change k with (fst (k, p)). apply in_map. eapply nth_error_In. exact H.
Qed.

Lemma explicit_by_name decl k r :
  NoDup (map fst decl) ->
  nav_name (dict_of (declared decl)) k r
  = match declared_cell key_eqb decl k r with Some v => Ok v | None => Err KeyError end.
Proof.
  intros Hnd. rewrite dict_of_nodup; [|rewrite keys_declared; exact Hnd].
  unfold declared_cell.
  destruct (in_dec (list_eq_dec N.eq_dec) k (map fst decl)) as [Hin|Hnot].
  - destruct (In_nth_error _ _ Hin) as [i Hi].
    destruct (nth_error decl i) as [[k0 p]|] eqn:E.
    + pose proof (eq_trans (eq_sym Hi) (map_nth_error fst i decl E)) as Hk. simpl in Hk. injection Hk as ->.
      rewrite (declared_position_nth decl i k0 p Hnd E). simpl.
      rewrite nav_name_unfold.
      assert (nth_error (declared decl) i = Some (mk_entry k0 (Some p))) as He.
      { unfold declared. rewrite (map_nth_error _ i decl E). reflexivity. }
      pose proof (find_entry_nth (declared decl) i _ (eq_ind_r (fun l => NoDup l) Hnd (keys_declared decl)) He) as Hf.
      simpl in Hf. rewrite Hf. simpl. destruct (nth_error r p); reflexivity.
    + exfalso. apply nth_error_None in E.
      assert (nth_error (map fst decl) i = None) as H0 by (apply nth_error_None; rewrite map_length; exact E).
      pose proof (eq_trans (eq_sym Hi) H0) as Hk. discriminate.
  - rewrite nav_missing; [|rewrite keys_declared; exact Hnot].
    assert (declared_position key_eqb decl k = None) as ->; [|reflexivity].
    clear Hnd. induction decl as [|[k0 p0] decl IH]; [reflexivity|].
    simpl. rewrite key_eqb_neq.
    + apply IH. intros Hin. apply Hnot. right. exact Hin.
    + intros E. apply Hnot. left. exact E.
Qed.

Lemma explicit_values decl r :
  NoDup (map fst decl) -> values (dict_of (declared decl)) r = Ok (cells_at decl r).
Proof.
  intros Hnd.
  assert (forall kp, In kp decl ->
            nav_name (dict_of (declared decl)) (fst kp) r = Ok (nth_error r (snd kp))) as H.
  { intros [k p] Hin. simpl. rewrite (explicit_by_name decl k r Hnd). unfold declared_cell.
    destruct (In_nth_error _ _ Hin) as [i Hi].
    rewrite (declared_position_nth decl i k p Hnd Hi). reflexivity. }
  unfold values.
  replace (keys (dict_of (declared decl))) with (map fst decl)
    by (rewrite dict_of_nodup; [symmetry; apply keys_declared|rewrite keys_declared; exact Hnd]).
  rewrite map_map. unfold cells_at.
  apply (collect_map_ok (fun kp => nav_name (dict_of (declared decl)) (fst kp) r)). exact H.
Qed.

Lemma explicit_positions decl :
  NoDup (map fst decl) ->
  (forall k r, nav_name (dict_of (declared decl)) k r
               = match declared_cell key_eqb decl k r with Some v => Ok v | None => Err KeyError end)
  /\ (forall i k p r, nth_error decl i = Some (k, p) ->
                      nav_name (dict_of (declared decl)) k r = Ok (nth_error r p))
  /\ (forall r, values (dict_of (declared decl)) r = Ok (cells_at decl r)).
Proof.
  intros Hnd. split; [intros k r; apply explicit_by_name; exact Hnd|]. split.
  - intros i k p r Hi. rewrite (explicit_by_name decl k r Hnd). unfold declared_cell.
    rewrite (declared_position_nth decl i k p Hnd Hi). reflexivity.
  - intros r. apply explicit_values. exact Hnd.
Qed.

Lemma explicit_positions_hand decl :
  NoDup (map fst decl) ->
  (forall k r, nav_name (hand_schema_at decl) k r
               = match declared_cell key_eqb decl k r with Some v => Ok v | None => Err KeyError end)
  /\ (forall i k p r, nth_error decl i = Some (k, p) ->
                      nav_name (hand_schema_at decl) k r = Ok (nth_error r p))
  /\ (forall r, values (hand_schema_at decl) r = Ok (cells_at decl r)).
Proof. exact (explicit_positions decl). Qed.
