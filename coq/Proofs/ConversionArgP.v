From Coq Require Import ZArith NArith List Bool Lia Arith ZifyBool ZifyN ZifyNat.
Import ListNotations.
Require Import SR.Base.Res SR.Spec.Conversion SR.Spec.ConversionArg SR.Gen.ConversionParams SR.Gen.ConversionBodyParams
  SR.Gen.UnicodeParams SR.Model.Conversion SR.Model.ConversionArg SR.Proofs.ConversionP.
Require Export SR.Spec.ConversionArgWf.
Open Scope Z_scope.
Ltac Zify.zify_post_hook ::= Z.to_euclidean_division_equations.

(* ================= characters =================
   What _PyUnicode_TransformDecimalAndSpaceToASCII ([to_ascii]) makes of a character, in terms of the two
   classes the documented grammar is stated over ([py_digit_value], [py_int_space]).  Nothing here depends on
   which code points the tables of Gen/UnicodeParams.v hold. *)

Lemma unicode_decimal_lt c d : unicode_decimal c = Some d -> (d < 10)%N.
Proof.
  unfold unicode_decimal.
  destruct (find (fun z => (z <=? c) && (c <? z + 10))%N unicode_digit_zeros) as [z|] eqn:F; [|discriminate].
  apply find_some in F. destruct F as [_ F]. intros H. injection H as <-. lia.
Qed.

Lemma to_ascii_class c :
  ((c <? 127)%N = true /\ to_ascii c = c) \/
  ((c <? 127)%N = false /\
     ((unicode_space c = true /\ to_ascii c = 32%N) \/
      (unicode_space c = false /\ exists d, unicode_decimal c = Some d /\ (d < 10)%N /\ to_ascii c = (48 + d)%N) \/
      (unicode_space c = false /\ unicode_decimal c = None /\ to_ascii c = 63%N))).
Proof.
  unfold to_ascii. destruct (c <? 127)%N eqn:E; [left; split; reflexivity|right; split; [reflexivity|]].
  destruct (unicode_space c) eqn:S; [left; split; reflexivity|right].
  destruct (unicode_decimal c) as [d|] eqn:D.
  - left. split; [reflexivity|]. exists d. repeat split. apply (unicode_decimal_lt c d D).
  - right. repeat split.
Qed.

Lemma digit_char c d : py_digit_value c = Some d ->
  is_digit (to_ascii c) = true /\ Z.of_N (to_ascii c) - 48 = d.
Proof.
  unfold py_digit_value.
  destruct (to_ascii_class c) as [[E T]|[E [[S T]|[(S & d' & D & L & T)|(S & D & T)]]]]; rewrite E.
  - rewrite T. destruct (is_digit c) eqn:I; [|discriminate]. intros H. injection H as <-. split; reflexivity.
  - rewrite S. discriminate.
  - rewrite S, D, T. intros H. injection H as <-. unfold is_digit. split; lia.
  - rewrite S, D. discriminate.
Qed.

Lemma digit_char_inv c : is_digit (to_ascii c) = true ->
  exists d, py_digit_value c = Some d /\ Z.of_N (to_ascii c) - 48 = d.
Proof.
  unfold py_digit_value.
  destruct (to_ascii_class c) as [[E T]|[E [[S T]|[(S & d' & D & L & T)|(S & D & T)]]]]; rewrite E, T; intros I.
  - rewrite I. eexists. split; reflexivity.
  - discriminate.
  - rewrite S, D. eexists. split; [reflexivity|lia].
  - discriminate.
Qed.

Lemma space_char c : ascii_space (to_ascii c) = py_int_space c.
Proof.
  unfold py_int_space.
  destruct (to_ascii_class c) as [[E T]|[E [[S T]|[(S & d' & D & L & T)|(S & D & T)]]]]; rewrite E, T.
  - reflexivity.
  - rewrite S. reflexivity.
  - rewrite S. unfold ascii_space. lia.
  - rewrite S. reflexivity.
Qed.

(* the sign characters and the underscore are themselves and nothing else becomes one *)
Lemma to_ascii_mark c k : (k = 43 \/ k = 45 \/ k = 95)%N -> (to_ascii c = k <-> c = k).
Proof.
  intros Hk.
  destruct (to_ascii_class c) as [[E T]|[E [[S T]|[(S & d' & D & L & T)|(S & D & T)]]]]; rewrite T; lia.
Qed.

Lemma digit_not_mark c : is_digit c = true ->
  ascii_space c = false /\ (c =? 43)%N = false /\ (c =? 45)%N = false /\ (c =? 95)%N = false.
Proof. unfold is_digit, ascii_space. intros H. repeat split; lia. Qed.

Lemma space_not_mark c : ascii_space c = true -> is_digit c = false /\ (c =? 95)%N = false.
Proof. unfold is_digit, ascii_space. intros H. repeat split; lia. Qed.

(* ================= int(str): the scanner reads exactly the documented grammar ================= *)

Notation dtail := (digit_tail py_digit_value).
Notation dpart := (digit_part py_digit_value).
Notation itext := (int_text py_digit_value py_int_space).

Definition zfold (acc : Z) (ds : list Z) : Z := fold_left (fun a d => 10 * a + d) ds acc.

Lemma zval_cons d ds : zval (d :: ds) = zfold d ds.
Proof. unfold zval, zfold. cbn [fold_left]. f_equal. Qed.

(* where the digit loop stops: at the end, or before a character that is neither a digit nor an underscore *)
Definition stops (rest : list N) : Prop :=
  match rest with
  | [] => True
  | c :: _ => is_digit c = false /\ (c =? 95)%N = false
  end.

Lemma scan_digits_cons c t prev acc nd :
  scan_digits (c :: t) prev acc nd =
    if is_digit c then scan_digits t c (10 * acc + (Z.of_N c - 48)) (nd + 1)
    else if (c =? 95)%N then (if (prev =? 95)%N then None else scan_digits t c acc nd)
    else if (prev =? 95)%N then None else Some (acc, nd, c :: t).
Proof. reflexivity. Qed.

Lemma scan_stop rest prev acc nd : stops rest -> (prev =? 95)%N = false ->
  scan_digits rest prev acc nd = Some (acc, nd, rest).
Proof.
  intros Hs Hp. destruct rest as [|c t].
  - cbn [scan_digits]. rewrite Hp. reflexivity.
  - destruct Hs as [H1 H2]. rewrite scan_digits_cons, H1, H2, Hp. reflexivity.
Qed.

(* grammar -> scanner *)
Lemma scan_tail s ds : dtail s ds -> forall rest prev acc nd, stops rest -> (prev =? 95)%N = false ->
  scan_digits (map to_ascii s ++ rest) prev acc nd = Some (zfold acc ds, nd + Z.of_nat (length ds), rest).
Proof.
  induction 1 as [|c d s ds Hc _ IH|c d s ds Hc _ IH]; intros rest prev acc nd Hs Hp.
  - cbn [map app length zfold fold_left]. unfold zfold. cbn [fold_left]. rewrite Z.add_0_r. apply scan_stop; assumption.
  - destruct (digit_char c d Hc) as [Hd Hv].
    cbn [map app]. rewrite scan_digits_cons, Hd.
    rewrite IH; [|exact Hs|apply (digit_not_mark _ Hd)].
    unfold zfold. cbn [fold_left length]. rewrite Hv.
    replace (nd + 1 + Z.of_nat (length ds)) with (nd + Z.of_nat (S (length ds))) by lia. reflexivity.
  - destruct (digit_char c d Hc) as [Hd Hv].
    assert (H95 : to_ascii 95 = 95%N) by reflexivity.
    cbn [map app]. rewrite H95, scan_digits_cons.
    change (is_digit 95) with false. cbv iota. change (95 =? 95)%N with true. cbv iota. rewrite Hp.
    rewrite scan_digits_cons, Hd.
    rewrite IH; [|exact Hs|apply (digit_not_mark _ Hd)].
    unfold zfold. cbn [fold_left length]. rewrite Hv.
    replace (nd + 1 + Z.of_nat (length ds)) with (nd + Z.of_nat (S (length ds))) by lia. reflexivity.
Qed.

(* scanner -> grammar *)
Lemma scan_inv s : forall prev acc nd v nd' r,
  scan_digits (map to_ascii s) prev acc nd = Some (v, nd', r) ->
  exists s1 s2 ds, s = s1 ++ s2 /\ r = map to_ascii s2 /\ v = zfold acc ds /\ nd' = nd + Z.of_nat (length ds) /\
    (if (prev =? 95)%N then dpart s1 ds else dtail s1 ds).
Proof.
  induction s as [|c t IH]; intros prev acc nd v nd' r H.
  - cbn [map scan_digits] in H. destruct (prev =? 95)%N eqn:Hp; [discriminate|].
    injection H as <- <- <-. exists [], [], []. cbn [app map length zfold fold_left]. unfold zfold. cbn [fold_left].
    repeat split; [lia|constructor].
  - cbn [map] in H. rewrite scan_digits_cons in H.
    destruct (is_digit (to_ascii c)) eqn:Hd.
    + destruct (digit_char_inv c Hd) as (d & Hdv & Hv).
      apply IH in H. destruct H as (s1 & s2 & ds & E1 & E2 & E3 & E4 & G).
      rewrite (proj2 (proj2 (proj2 (digit_not_mark _ Hd)))) in G.
      exists (c :: s1), s2, (d :: ds). cbn [app length]. unfold zfold in *. cbn [fold_left].
      rewrite E1, Hv in *. repeat split; [exact E2|exact E3|lia|].
      destruct (prev =? 95)%N; constructor; assumption.
    + destruct (to_ascii c =? 95)%N eqn:Hu.
      * destruct (prev =? 95)%N eqn:Hp; [discriminate|].
        assert (Hc : c = 95%N) by (apply (to_ascii_mark c 95); [lia|lia]).
        apply IH in H. destruct H as (s1 & s2 & ds & E1 & E2 & E3 & E4 & G).
        replace (to_ascii c =? 95)%N with true in G by lia.
        inversion G as [c2 d s1' ds' Hc2 Ht]. subst.
        exists (95%N :: c2 :: s1'), s2, (d :: ds'). cbn [app]. repeat split; try assumption.
        constructor; assumption.
      * destruct (prev =? 95)%N eqn:Hp; [discriminate|].
        injection H as <- <- <-. exists [], (c :: t), []. cbn [app map length]. unfold zfold. cbn [fold_left].
        repeat split; [lia|constructor].
Qed.

Lemma drop_spaces_cons c t : drop_spaces (c :: t) = if ascii_space c then drop_spaces t else c :: t.
Proof. reflexivity. Qed.

Lemma drop_spaces_app ws x : forallb py_int_space ws = true ->
  drop_spaces (map to_ascii (ws ++ x)) = drop_spaces (map to_ascii x).
Proof.
  induction ws as [|c t IH]; intros H; [reflexivity|].
  cbn [forallb] in H. apply andb_prop in H. destruct H as [Hc Ht].
  cbn [app map]. rewrite drop_spaces_cons, space_char, Hc. apply IH. exact Ht.
Qed.

Lemma drop_spaces_all ws : forallb py_int_space ws = true -> drop_spaces (map to_ascii ws) = [].
Proof.
  intros H. rewrite <- (app_nil_r ws), drop_spaces_app by exact H. reflexivity.
Qed.

Lemma drop_spaces_split s : exists ws s2, s = ws ++ s2 /\ forallb py_int_space ws = true /\
  drop_spaces (map to_ascii s) = map to_ascii s2 /\
  match s2 with [] => True | c :: _ => ascii_space (to_ascii c) = false end.
Proof.
  induction s as [|c t IH].
  - exists [], []. repeat split.
  - cbn [map]. rewrite drop_spaces_cons. destruct (ascii_space (to_ascii c)) eqn:E.
    + destruct IH as (ws & s2 & E1 & E2 & E3 & E4). exists (c :: ws), s2.
      cbn [app forallb]. rewrite <- space_char, E. subst t. repeat split; [exact E2|exact E3|exact E4].
    + exists [], (c :: t). repeat split. exact E.
Qed.

Lemma drop_spaces_nil s : drop_spaces (map to_ascii s) = [] -> forallb py_int_space s = true.
Proof.
  induction s as [|c t IH]; [reflexivity|].
  cbn [map forallb]. rewrite drop_spaces_cons, <- space_char.
  destruct (ascii_space (to_ascii c)); [intros H; apply IH; exact H|discriminate].
Qed.

(* grammar -> scanner: text of the documented form is read as its value, up to the 4300 digit limit *)
Lemma int_of_str_text s negative ds : itext s negative ds ->
  int_of_str s = if int_max_str_digits <? Z.of_nat (length ds) then Err ValueError
                 else Ok (signed negative (zval ds)).
Proof.
  intros H. destruct H as [ws1 sg body ws2 negative ds Hw1 Hw2 Hsg Hb].
  destruct Hb as [c d s0 ds0 Hc Ht].
  destruct (digit_char c d Hc) as [Hd Hv].
  destruct (digit_not_mark _ Hd) as (N1 & N2 & N3 & N4).
  unfold int_of_str, int_of_ascii. rewrite drop_spaces_app by exact Hw1.
  assert (Hstops : stops (map to_ascii ws2)).
  { destruct ws2 as [|w t]; [exact I|]. cbn [forallb] in Hw2. apply andb_prop in Hw2. destruct Hw2 as [Hw _].
    cbn [map stops]. rewrite <- space_char in Hw. apply space_not_mark. exact Hw. }
  assert (Hscan : scan_digits (map to_ascii ((c :: s0) ++ ws2)) 0 0 0 =
                  Some (zval (d :: ds0), Z.of_nat (length (d :: ds0)), map to_ascii ws2)).
  { cbn [app map]. rewrite scan_digits_cons, Hd, map_app.
    rewrite (scan_tail s0 ds0 Ht); [|exact Hstops|exact N4].
    rewrite zval_cons, Hv. cbn [length].
    replace (10 * 0 + d) with d by lia.
    replace (0 + 1 + Z.of_nat (length ds0)) with (Z.of_nat (S (length ds0))) by lia. reflexivity. }
  assert (Hbody : forall negv : bool,
    (if starts_with_underscore (map to_ascii ((c :: s0) ++ ws2)) then Err ValueError
     else match scan_digits (map to_ascii ((c :: s0) ++ ws2)) 0 0 0 with
          | None => Err ValueError
          | Some (v, nd, rest) =>
              if nd =? 0 then Err ValueError
              else if int_max_str_digits <? nd then Err ValueError
              else match drop_spaces rest with [] => Ok (if negv then - v else v) | _ :: _ => Err ValueError end
          end) =
    if int_max_str_digits <? Z.of_nat (length (d :: ds0)) then Err ValueError else Ok (signed negv (zval (d :: ds0)))).
  { intros negv. rewrite Hscan. cbn [app map starts_with_underscore]. rewrite N4.
    destruct (Z.of_nat (length (d :: ds0)) =? 0) eqn:E0; [cbn [length] in E0; lia|].
    destruct (int_max_str_digits <? Z.of_nat (length (d :: ds0))); [reflexivity|].
    rewrite drop_spaces_all by exact Hw2. reflexivity. }
  destruct Hsg.
  - (* no sign *)
    cbn [app]. cbn [app map] in *. rewrite drop_spaces_cons, N1.
    cbn [split_sign]. rewrite N2, N3. apply (Hbody false).
  - cbn [app map]. change (to_ascii 43) with 43%N. rewrite drop_spaces_cons.
    change (ascii_space 43) with false. cbv iota. cbn [split_sign]. change (43 =? 43)%N with true. cbv iota.
    apply (Hbody false).
  - cbn [app map]. change (to_ascii 45) with 45%N. rewrite drop_spaces_cons.
    change (ascii_space 45) with false. cbv iota. cbn [split_sign]. change (45 =? 43)%N with false.
    change (45 =? 45)%N with true. cbv iota.
    apply (Hbody true).
Qed.

(* scanner -> grammar: whatever int() returns was text of the documented form, of at most 4300 digits *)
Lemma int_of_str_ok s v : int_of_str s = Ok v ->
  exists negative ds, itext s negative ds /\ Z.of_nat (length ds) <= int_max_str_digits /\ v = signed negative (zval ds).
Proof.
  unfold int_of_str, int_of_ascii.
  destruct (drop_spaces_split s) as (ws & s2 & E1 & Hws & E3 & Hhead). rewrite E3.
  assert (Hcore : forall (negv : bool) (sg b : list N), sign_text sg negv -> s2 = sg ++ b ->
    (if starts_with_underscore (map to_ascii b) then Err ValueError
     else match scan_digits (map to_ascii b) 0 0 0 with
          | None => Err ValueError
          | Some (v0, nd, rest) =>
              if nd =? 0 then Err ValueError
              else if int_max_str_digits <? nd then Err ValueError
              else match drop_spaces rest with [] => Ok (if negv then - v0 else v0) | _ :: _ => Err ValueError end
          end) = Ok v ->
    exists negative ds, itext s negative ds /\ Z.of_nat (length ds) <= int_max_str_digits /\ v = signed negative (zval ds)).
  { intros negv sg b Hsg Es2 H.
    destruct (starts_with_underscore (map to_ascii b)) eqn:Hu; [discriminate|].
    destruct (scan_digits (map to_ascii b) 0 0 0) as [[[v0 nd] rest]|] eqn:Hs; [|discriminate].
    destruct (nd =? 0) eqn:E0; [discriminate|].
    destruct (int_max_str_digits <? nd) eqn:El; [discriminate|].
    destruct (drop_spaces rest) eqn:Er; [|discriminate].
    injection H as <-.
    apply scan_inv in Hs. destruct Hs as (s1 & s3 & ds & F1 & F2 & F3 & F4 & G).
    change (0 =? 95)%N with false in G. cbv iota in G.
    rewrite F2 in Er. apply drop_spaces_nil in Er.
    destruct G as [|c d s1' ds' Hc Ht|c d s1' ds' Hc Ht].
    - cbn [length] in F4. lia.
    - exists negv, (d :: ds'). split; [|split].
      + rewrite E1, Es2, F1. constructor; [exact Hws|exact Er|exact Hsg|constructor; assumption].
      + lia.
      + rewrite F3. unfold signed, zval, zfold. reflexivity.
    - rewrite F1 in Hu. cbn [app map starts_with_underscore] in Hu. change (to_ascii 95) with 95%N in Hu. discriminate. }
  destruct s2 as [|c t].
  - cbn [map split_sign starts_with_underscore scan_digits]. change (0 =? 95)%N with false. cbv iota.
    change (0 =? 0) with true. cbv iota. discriminate.
  - cbn [map split_sign].
    destruct (to_ascii c =? 43)%N eqn:E43.
    + assert (c = 43%N) by (apply (to_ascii_mark c 43); lia). subst c.
      apply (Hcore false [43%N] t); [constructor|reflexivity].
    + destruct (to_ascii c =? 45)%N eqn:E45.
      * assert (c = 45%N) by (apply (to_ascii_mark c 45); lia). subst c.
        apply (Hcore true [45%N] t); [constructor|reflexivity].
      * apply (Hcore false [] (c :: t)); [constructor|reflexivity].
Qed.

Lemma int_of_str_err s e : int_of_str s = Err e -> e = ValueError.
Proof.
  unfold int_of_str, int_of_ascii.
  destruct (split_sign (drop_spaces (map to_ascii s))) as [negv b].
  destruct (starts_with_underscore b); [intros H; injection H as <-; reflexivity|].
  destruct (scan_digits b 0 0 0) as [[[v0 nd] rest]|]; [|intros H; injection H as <-; reflexivity].
  destruct (nd =? 0); [intros H; injection H as <-; reflexivity|].
  destruct (int_max_str_digits <? nd); [intros H; injection H as <-; reflexivity|].
  destruct (drop_spaces rest); [discriminate|intros H; injection H as <-; reflexivity].
Qed.

(* [int_ok s]: the str is the text of an integer of at most 4300 digits (Spec/ConversionArgWf.v) *)

Lemma int_of_str_iff s v :
  int_of_str s = Ok v <->
  exists negative ds, itext s negative ds /\ Z.of_nat (length ds) <= int_max_str_digits /\ v = signed negative (zval ds).
Proof.
  split; [apply int_of_str_ok|].
  intros (negative & ds & Ht & Hl & ->). rewrite (int_of_str_text s negative ds Ht).
  destruct (int_max_str_digits <? Z.of_nat (length ds)) eqn:E; [lia|reflexivity].
Qed.

Lemma int_of_str_refuses s : int_of_str s = Err ValueError <-> ~ int_ok s.
Proof.
  split.
  - intros H (negative & ds & Ht & Hl). rewrite (int_of_str_text s negative ds Ht) in H.
    destruct (int_max_str_digits <? Z.of_nat (length ds)) eqn:E; [lia|discriminate].
  - intros Hn. destruct (int_of_str s) as [v|e] eqn:E.
    + exfalso. apply Hn. apply int_of_str_ok in E. destruct E as (negative & ds & Ht & Hl & _).
      exists negative, ds. split; assumption.
    + f_equal. apply (int_of_str_err s e E).
Qed.

(* ================= digit_string on an argument of any class ================= *)

(* int(value) of the finite numeric classes is the truncation Model/Conversion.v works with *)
Lemma int_of_dec_of_int z : int_of_dec (dec_of_int z) = z.
Proof.
  unfold int_of_dec, dec_of_int. cbn [neg coef dexp]. change (0 <=? 0) with true. cbv iota.
  change (10 ^ 0) with 1. rewrite Z.mul_1_r, N2Z.inj_abs_N.
  destruct (z <? 0) eqn:E; lia.
Qed.

Lemma represents_dec_of_int z : represents (dec_of_int z) z.
Proof.
  unfold represents, dec_of_int, sgn. cbn [neg coef dexp]. change (0 <=? 0) with true. cbv iota.
  change (10 ^ 0) with 1. rewrite Z.mul_1_r, N2Z.inj_abs_N.
  destruct (z <? 0) eqn:E; lia.
Qed.

Lemma int_of_val_dec a x : dec_of_val a = Some x -> int_of_val a = Ok (int_of_dec x).
Proof.
  destruct a; cbn [dec_of_val int_of_val]; try discriminate; intros H; injection H as <-; try reflexivity.
  - destruct b; reflexivity.
  - rewrite int_of_dec_of_int. reflexivity.
Qed.

(* digit_string(size, value) = (size * "0" + str(int(value)))[-size:], whatever value is *)
Lemma digit_string_v_shape n a :
  digit_string_v n a = bind (int_of_val a) (fun z => bind (str_int z) (fun s => Ok (py_last n (zeros n ++ s)))).
Proof.
  unfold digit_string_v. change (pre_text_v ds_pre a) with (bind (int_of_val a) str_int).
  destruct (int_of_val a) as [z|e]; cbn [bind]; [|reflexivity].
  destruct (str_int z) as [s|e]; cbn [bind]; [|reflexivity].
  rewrite padded_left, padding_zeros, py_slice_last. reflexivity.
Qed.

(* an argument int() turns into z behaves as the int z *)
Lemma digit_string_v_int n a z : int_of_val a = Ok z -> digit_string_v n a = digit_string n (dec_of_int z).
Proof.
  intros H. rewrite digit_string_v_shape, digit_string_shape, H, int_of_dec_of_int. reflexivity.
Qed.

(* an argument int() refuses is refused the same way *)
Lemma digit_string_v_err n a e : int_of_val a = Err e -> digit_string_v n a = Err e.
Proof. intros H. rewrite digit_string_v_shape, H. reflexivity. Qed.

(* on the finite numeric classes this is the function the theorems of Props/C16.v are about *)
Lemma digit_string_v_dec n a x : dec_of_val a = Some x -> digit_string_v n a = digit_string n x.
Proof.
  intros H. rewrite digit_string_v_shape, digit_string_shape, (int_of_val_dec a x H). reflexivity.
Qed.

Lemma digit_string_v_exact (n : nat) (a : pyval) (z : Z) :
  (1 <= n <= 4300)%nat -> int_of_val a = Ok z -> 0 <= z < 10 ^ Z.of_nat n ->
  exists r, digit_string_v n a = Ok r /\ length r = n /\ forallb is_digit r = true /\ dval r = z.
Proof.
  intros Hn Ha Hz. rewrite (digit_string_v_int n a z Ha).
  apply digit_string_exact; [exact Hn|apply represents_dec_of_int|exact Hz].
Qed.

(* a str argument: the text of an integer in range gives its digits, anything else is ValueError *)
Lemma digit_string_str_exact (n : nat) (s : list N) (negative : bool) (ds : list Z) :
  (1 <= n <= 4300)%nat -> itext s negative ds -> Z.of_nat (length ds) <= int_max_str_digits ->
  0 <= signed negative (zval ds) < 10 ^ Z.of_nat n ->
  exists r, digit_string_v n (PStr s) = Ok r /\ length r = n /\ forallb is_digit r = true /\
            dval r = signed negative (zval ds).
Proof.
  intros Hn Ht Hl Hv. apply digit_string_v_exact; [exact Hn| |exact Hv].
  cbn [int_of_val]. apply int_of_str_iff. exists negative, ds. repeat split; assumption.
Qed.

Lemma digit_string_str_refused (n : nat) (s : list N) : ~ int_ok s -> digit_string_v n (PStr s) = Err ValueError.
Proof. intros H. apply digit_string_v_err. cbn [int_of_val]. apply int_of_str_refuses. exact H. Qed.

(* ================= decimal_places on an argument of any class ================= *)

Lemma decimal_places_v_shape d a :
  decimal_places_v d a =
  bind (quantum_exp d) (fun e =>
  bind (decimal_of_val a) (fun v =>
    match v with
    | PDec x => bind (quantize x e) (fun r => Ok (PDec r))
    | PDecNan false => Ok (PDecNan false)
    | _ => Err DecimalInvalid
    end)).
Proof. reflexivity. Qed.

(* an argument Decimal() turns into the finite x behaves as x *)
Lemma decimal_places_v_dec d a x : decimal_of_val a = Ok (PDec x) ->
  decimal_places_v d a = bind (decimal_places d x) (fun r => Ok (PDec r)).
Proof.
  intros H. rewrite decimal_places_v_shape, decimal_places_shape, H.
  destruct (quantum_exp d); reflexivity.
Qed.

Lemma decimal_of_val_dec a x : dec_of_val a = Some x -> decimal_of_val a = Ok (PDec x).
Proof.
  destruct a; cbn [dec_of_val decimal_of_val]; try discriminate; intros H; injection H as <-; reflexivity.
Qed.

(* the quantum is built first: when it exists, an argument Decimal() refuses is refused the same way *)
Lemma decimal_places_v_err d a e q : quantum_exp d = Ok q -> decimal_of_val a = Err e -> decimal_places_v d a = Err e.
Proof. intros Hq H. rewrite decimal_places_v_shape, Hq, H. reflexivity. Qed.

Lemma decimal_of_ascii_err s e : decimal_of_ascii s = Err e -> e = DecimalInvalid.
Proof.
  unfold decimal_of_ascii.
  destruct (starts_with t_nan (map lower (unsigned s))) as [p|].
  { destruct (forallb is_digit p); [discriminate|intros H; injection H as <-; reflexivity]. }
  destruct (starts_with t_snan (map lower (unsigned s))) as [p|].
  { destruct (forallb is_digit p); [discriminate|intros H; injection H as <-; reflexivity]. }
  destruct (text_eqb (map lower (unsigned s)) t_inf || text_eqb (map lower (unsigned s)) t_infinity); [discriminate|].
  destruct (number_shape (unsigned s)) as [[[i f] ex]|]; [|intros H; injection H as <-; reflexivity].
  match goal with |- (if ?c then _ else _) = _ -> _ => destruct c end;
    [intros H; injection H as <-; reflexivity|discriminate].
Qed.

Lemma decimal_of_str_err s e : decimal_of_str s = Err e -> e = DecimalInvalid.
Proof.
  unfold decimal_of_str. destruct (dec_ascii _) as [a|]; [apply decimal_of_ascii_err|].
  intros H. injection H as <-. reflexivity.
Qed.

(* ================= CONVERSION on an argument of any class ================= *)

Lemma conversion_entry key a : In key vocabulary -> conversion_full key a = entry_result key a.
Proof.
  unfold vocabulary. cbn [In]. intros H.
  repeat (destruct H as [<-|H]; [reflexivity|]). contradiction.
Qed.

Notation raises := (conversion_raises int_ok float_str_ok decimal_str_ok).

Lemma too_long_is z : too_long z = (10 ^ int_max_str_digits <=? Z.abs z).
Proof. apply too_long_exact. Qed.

Lemma str_int_result z : (exists s, str_int z = Ok s /\ too_long z = false) \/ (str_int z = Err ValueError /\ too_long z = true).
Proof. unfold str_int. destruct (too_long z); [right|left; eexists]; split; reflexivity. Qed.

(* whenever a named conversion returns, the result has the named type *)
Lemma conversion_returns_named key a t : In key vocabulary -> conversion_result key a = Ok t -> t = named_type key (type_of a).
Proof.
  intros Hk. unfold conversion_result. rewrite (conversion_entry key a Hk).
  unfold vocabulary in Hk. cbn [In] in Hk.
  repeat (destruct Hk as [<-|Hk]; [cbn [entry_result named_type];
    try (intros H; injection H as <-; reflexivity);
    match goal with |- bind (bind ?r _) _ = _ -> _ => destruct r; cbn [bind fst]; [intros H; injection H as <-; reflexivity|discriminate] end|]).
  contradiction.
Qed.

(* when it raises, and what *)
Lemma conversion_raises_iff key a e : In key vocabulary -> (conversion_result key a = Err e <-> raises key a e).
Proof.
  intros Hk. unfold conversion_result. rewrite (conversion_entry key a Hk).
  unfold vocabulary in Hk. cbn [In] in Hk.
  destruct Hk as [<-|[<-|[<-|[<-|[<-|[<-|[<-|[]]]]]]]]; cbn [entry_result conversion_raises bind fst].
  - split; [discriminate|contradiction].
  - split; [discriminate|contradiction].
  - split; [discriminate|contradiction].
  - (* int *)
    destruct a; cbn [int_of_val bind fst]; try (split; [discriminate|contradiction]);
      try (split; [intros H; injection H as <-; reflexivity|intros ->; reflexivity]).
    destruct (int_of_str s) as [v|e0] eqn:E; cbn [bind].
    + split; [discriminate|]. intros [_ Hn]. exfalso. apply Hn.
      apply int_of_str_ok in E. destruct E as (negative & ds & Ht & Hl & _). exists negative, ds. split; assumption.
    + pose proof (int_of_str_err s e0 E) as ->. split.
      * intros H. injection H as <-. split; [reflexivity|]. apply int_of_str_refuses. exact E.
      * intros [-> _]. reflexivity.
  - (* float *)
    destruct a; cbn [float_of_val_ok bind fst]; try (split; [discriminate|contradiction]);
      try (split; [intros H; injection H as <-; reflexivity|intros ->; reflexivity]).
    + destruct (float_overflow <=? Z.abs z) eqn:E; cbn [bind].
      * split; [intros H; injection H as <-; split; [reflexivity|lia]|intros [-> _]; reflexivity].
      * split; [discriminate|intros [_ H]; lia].
    + destruct (float_str_ok s) eqn:E; cbn [bind].
      * split; [discriminate|intros [_ H]; discriminate].
      * split; [intros H; injection H as <-; split; reflexivity|intros [-> _]; reflexivity].
    + destruct signalling; cbn [bind].
      * split; [intros H; injection H as <-; reflexivity|intros ->; reflexivity].
      * split; [discriminate|contradiction].
    + destruct (float_overflow * Z.pos den <=? Z.abs num) eqn:E; cbn [bind].
      * split; [intros H; injection H as <-; split; [reflexivity|lia]|intros [-> _]; reflexivity].
      * split; [discriminate|intros [_ H]; lia].
  - (* str *)
    destruct a; cbn [str_of_val bind fst]; try (split; [discriminate|contradiction]).
    + destruct (str_int_result z) as [(s & Hs & Ht)|[Hs Ht]]; rewrite Hs; cbn [bind]; rewrite too_long_is in Ht.
      * split; [discriminate|intros [_ H]; lia].
      * split; [intros H; injection H as <-; split; [reflexivity|lia]|intros [-> _]; reflexivity].
    + destruct (str_int_result num) as [(s & Hs & Ht)|[Hs Ht]]; rewrite Hs; cbn [bind]; rewrite too_long_is in Ht.
      * destruct (str_int_result (Z.pos den)) as [(s2 & Hs2 & Ht2)|[Hs2 Ht2]]; rewrite Hs2; cbn [bind]; rewrite too_long_is in Ht2.
        -- split; [discriminate|intros [_ [H|H]]; lia].
        -- split; [intros H; injection H as <-; split; [reflexivity|right; lia]|intros [-> _]; reflexivity].
      * split; [intros H; injection H as <-; split; [reflexivity|left; lia]|intros [-> _]; reflexivity].
  - (* Decimal *)
    destruct a; cbn [decimal_of_val bind fst]; try (split; [discriminate|contradiction]);
      try (split; [intros H; injection H as <-; reflexivity|intros ->; reflexivity]).
    unfold decimal_str_ok. destruct (decimal_of_str s) as [v|e0] eqn:E; cbn [bind is_ok].
    + split; [discriminate|intros [_ H]; discriminate].
    + pose proof (decimal_of_str_err s e0 E) as ->.
      split; [intros H; injection H as <-; split; reflexivity|intros [-> _]; reflexivity].
Qed.

(* on the values a workbook or a decoded field delivers every named conversion returns *)
Lemma conversion_plain_returns key a : In key vocabulary -> plain_value a = true ->
  conversion_result key a = Ok (named_type key (type_of a)).
Proof.
  intros Hk Hp. destruct (conversion_result key a) as [t|e] eqn:E.
  - f_equal. apply (conversion_returns_named key a t Hk E).
  - exfalso. apply (conversion_raises_iff key a e Hk) in E.
    unfold vocabulary in Hk. cbn [In] in Hk.
    destruct Hk as [<-|[<-|[<-|[<-|[<-|[<-|[<-|[]]]]]]]]; destruct a; cbn [conversion_raises plain_value] in *;
      try contradiction; try discriminate.
    + destruct E as [_ H]. unfold float_overflow in H. lia.
    + destruct E as [_ H].
      assert (2 ^ 1024 - 2 ^ 970 <= 10 ^ int_max_str_digits) by (apply Z.leb_le; vm_compute; reflexivity). lia.
Qed.

(* the old, type-level reading is the new one on an argument of that type on which the conversion returns *)
Lemma conversion_type_of key a t : conversion_result key a = Ok t -> conversion_type key (type_of a) = Ok t.
Proof.
  unfold conversion_result, conversion_full, conversion_type.
  destruct (lookup key conversion_table) as [en|]; [|discriminate].
  unfold entry_result, entry_type.
  destruct en as [|p|p]; [intros H; injection H as <-; reflexivity| |discriminate].
  do 4 (destruct p as [p|p|]; try discriminate;
        try (intros H; injection H as <-; reflexivity);
        try (match goal with |- bind (bind ?r _) _ = _ -> _ => destruct r; cbn [bind fst]; [intros H; injection H as <-; reflexivity|discriminate] end)).
Qed.

(* ================= statements as used in Props/C16b.v ================= *)

Lemma int_of_str_refuses_all (s : list N) :
  (int_of_str s = Err ValueError <-> ~ int_ok s) /\ (forall e, int_of_str s = Err e -> e = ValueError).
Proof. split; [apply int_of_str_refuses|apply int_of_str_err]. Qed.

Lemma conversion_value_types (key : Z) (a : pyval) :
  In key vocabulary ->
  (forall t, conversion_result key a = Ok t -> t = named_type key (type_of a)) /\
  (forall e, conversion_result key a = Err e <-> conversion_raises int_ok float_str_ok decimal_str_ok key a e).
Proof.
  intros Hk. split; [intros t; apply conversion_returns_named; exact Hk|intros e; apply conversion_raises_iff; exact Hk].
Qed.
