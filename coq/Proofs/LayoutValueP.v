(* Lemmas for C10 (value level of NDNav navigation). *)
From Coq Require Import List Arith NArith ZArith Bool Lia.
Import ListNotations.
Require Import SR.Base.Res SR.Spec.Layout SR.Model.Layout SR.Model.LayoutValue.
Open Scope nat_scope.

Lemma index_refused : forall (B : Type) (dcount : list B -> nat) (r : list B) (v : vnav) st sz isz cnt it sch i,
  vn_loc v = WArr st sz isz cnt it sch -> cnt <= i -> vnav_index dcount r v i = Err IndexError.
Proof.
  intros B dcount r v st sz isz cnt it sch i Hl Hi. unfold vnav_index. rewrite Hl.
  destruct (cnt <=? i) eqn:E; [reflexivity|]. apply Nat.leb_gt in E. lia.
Qed.
