(* Lemmas for C10 (value level of NDNav navigation). *)
From Coq Require Import List Arith NArith ZArith Bool Lia.
Import ListNotations.
Require Import SR.Base.Res SR.Spec.Layout SR.Model.Layout SR.Model.LayoutValue SR.Spec.Coherence.
Open Scope nat_scope.

(* ------------------------------------------------------------------ slices *)
Lemma skipn_skipn' : forall {T} (a b : nat) (l : list T), skipn a (skipn b l) = skipn (b + a) l.
Proof.
  intros T a b. revert a. induction b as [|b IH]; intros a l; [reflexivity|].
  destruct l as [|x l]; [now rewrite !skipn_nil|]. cbn [skipn plus]. apply IH.
Qed.

Lemma slice_slice : forall {T} (l : list T) s e a b,
  s <= a -> b <= e -> slice (slice l s e) (a - s) (b - s) = slice l a b.
Proof.
  intros T l s e a b Hs He. unfold slice.
  rewrite skipn_firstn_comm, skipn_skipn', firstn_firstn.
  replace (s + (a - s)) with a by lia.
  f_equal. lia.
Qed.

(* ------------------------------------------------------------------ seq_values *)
Lemma seq_values_ext : forall {T} (f g : nat -> vres T) n i,
  (forall j, i <= j < i + n -> f j = g j) -> seq_values f n i = seq_values g n i.
Proof.
  intros T f g n. induction n as [|n IH]; intros i H; [reflexivity|].
  cbn [seq_values]. rewrite (H i) by lia. rewrite (IH (S i)); [reflexivity|]. intros j Hj. apply H. lia.
Qed.

Lemma seq_values_mono : forall {T} (f g : nat -> vres T) n i x,
  (forall j y, f j = Some y -> g j = Some y) -> seq_values f n i = Some x -> seq_values g n i = Some x.
Proof.
  intros T f g n. induction n as [|n IH]; intros i x H E; [exact E|].
  cbn [seq_values] in *.
  destruct (f i) as [[y|e]|] eqn:Ef; [|rewrite (H _ _ Ef); exact E|discriminate].
  rewrite (H _ _ Ef).
  destruct (seq_values f n (S i)) as [[ys|e]|] eqn:Es; [| |discriminate].
  - rewrite (IH _ _ H Es). exact E.
  - rewrite (IH _ _ H Es). exact E.
Qed.

Lemma seq_values_nth : forall {T} (f : nat -> vres T) n i xs,
  seq_values f n i = Some (Ok xs) ->
  length xs = n /\ forall j, j < n -> exists x, nth_error xs j = Some x /\ f (i + j) = Some (Ok x).
Proof.
  intros T f n. induction n as [|n IH]; intros i xs E; cbn [seq_values] in E.
  - inversion E. split; [reflexivity|]. intros j Hj. lia.
  - destruct (f i) as [[y|e]|] eqn:Ef; try discriminate.
    destruct (seq_values f n (S i)) as [[ys|e]|] eqn:Es; try discriminate.
    inversion E; subst xs. destruct (IH _ _ Es) as [Hl Hn]. split; [cbn; lia|].
    intros [|j] Hj.
    + exists y. split; [reflexivity|]. now rewrite Nat.add_0_r.
    + destruct (Hn j) as [x [H1 H2]]; [lia|]. exists x. split; [exact H1|].
      now replace (i + S j) with (S i + j) by lia.
Qed.

Section Value.
  Variable B : Type.
  Variable dcount : list B -> nat.
  Variable A : Type.
  Variable dec : option key -> list B -> res A.

  Notation pvA := (pv A).

  (* ---------------------------------------------------------------- unfolding *)
  Lemma vb_atom : forall r an d a st sz o,
    value_body r dec an d (WAtom a st sz) o =
    match dec a (slice r (st + o) (st + sz + o)) with Ok x => Some (Ok (PAtom x)) | Err e => Some (Err e) end.
  Proof. reflexivity. Qed.
  Lemma vb_arr : forall r an d st sz isz cnt it sch o,
    value_body r dec an d (WArr st sz isz cnt it sch) o =
    match seq_values (fun i => value_body r dec an d it (o + i * isz)) cnt 0 with
    | None => None | Some (Err e) => Some (Err e) | Some (Ok xs) => Some (Ok (PList xs)) end.
  Proof. reflexivity. Qed.
  Lemma vb_obj : forall r an d st sz ps o,
    value_body r dec an d (WObj st sz ps) o =
    match props_body r dec an d ps o with
    | None => None | Some (Err e) => Some (Err e) | Some (Ok dd) => Some (Ok (PDict dd)) end.
  Proof. reflexivity. Qed.
  Lemma vb_one : forall r an d st sz alts o,
    value_body r dec an d (WOne st sz alts) o =
    match alts with WANil => Some (Err ValueError) | WACons first _ => value_body r dec an d first o end.
  Proof. reflexivity. Qed.
  Lemma vb_ref : forall r an d st t o,
    value_body r dec an d (WRef st t) o =
    match wlookup t an with None => Some (Err KeyError) | Some target => d target o end.
  Proof. reflexivity. Qed.
  Lemma pb_nil : forall r an d o, props_body r dec an d WPNil o = Some (Ok []).
  Proof. reflexivity. Qed.
  Lemma pb_cons : forall r an d k l rest o,
    props_body r dec an d (WPCons k l rest) o =
    match value_body r dec an d l o with
    | None => None
    | Some (Err e) => Some (Err e)
    | Some (Ok x) =>
        match props_body r dec an d rest o with
        | None => None | Some (Err e) => Some (Err e) | Some (Ok dd) => Some (Ok ((k, x) :: dd)) end
    end.
  Proof. reflexivity. Qed.
  Lemma wvalue_0 : forall r an, wvalue r dec 0 an = value_body r dec an (fun _ _ => None).
  Proof. reflexivity. Qed.
  Lemma wvalue_S : forall r an f, wvalue r dec (S f) an = value_body r dec an (wvalue r dec f an).
  Proof. reflexivity. Qed.

  (* ---------------------------------------------------------------- fuel: results are stable once defined *)
  Definition first_alt (P : wloc -> Prop) (ls : walts) : Prop :=
    match ls with WANil => True | WACons l _ => P l end.

  Lemma body_mono : forall (r : list B) (an : wanchors) (d1 d2 : wloc -> nat -> vres pvA),
    (forall l o x, d1 l o = Some x -> d2 l o = Some x) ->
    (forall l o x, value_body r dec an d1 l o = Some x -> value_body r dec an d2 l o = Some x)
    /\ (forall ps o x, props_body r dec an d1 ps o = Some x -> props_body r dec an d2 ps o = Some x)
    /\ (forall ls, first_alt (fun l => forall o x, value_body r dec an d1 l o = Some x -> value_body r dec an d2 l o = Some x) ls).
  Proof.
    intros r an d1 d2 Hd. apply wloc_wprops_walts_ind.
    - intros a st sz o x E. exact E.
    - intros st sz isz cnt it IH sch o x E. rewrite vb_arr in *.
      destruct (seq_values (fun i => value_body r dec an d1 it (o + i * isz)) cnt 0) as [y|] eqn:Es; [|discriminate].
      assert (Hm := seq_values_mono (fun i => value_body r dec an d1 it (o + i * isz))
                      (fun i => value_body r dec an d2 it (o + i * isz)) cnt 0 y
                      (fun j z => IH (o + j * isz) z) Es).
      rewrite Hm. exact E.
    - intros st sz ps IH o x E. rewrite vb_obj in *.
      destruct (props_body r dec an d1 ps o) as [y|] eqn:Ep; [|discriminate].
      rewrite (IH _ _ Ep). exact E.
    - intros st sz alts IH o x E. rewrite vb_one in *. destruct alts as [|first rest]; [exact E|].
      exact (IH o x E).
    - intros st t o x E. rewrite vb_ref in *. destruct (wlookup t an); [|exact E]. exact (Hd _ _ _ E).
    - intros o x E. exact E.
    - intros k l IHl rest IHr o x E. rewrite pb_cons in *.
      destruct (value_body r dec an d1 l o) as [[y|e]|] eqn:El; [|rewrite (IHl _ _ El); exact E|discriminate].
      rewrite (IHl _ _ El).
      destruct (props_body r dec an d1 rest o) as [z|] eqn:Er; [|discriminate].
      rewrite (IHr _ _ Er). exact E.
    - exact I.
    - intros l IHl rest _. exact IHl.
  Qed.

  Lemma wvalue_mono_S : forall r an f l o x,
    wvalue r dec f an l o = Some x -> wvalue r dec (S f) an l o = Some x.
  Proof.
    intros r an f. induction f as [|f IH]; intros l o x E.
    - rewrite wvalue_S, wvalue_0 in *. revert E. apply (proj1 (body_mono r an _ _ (fun _ _ x (H : None = Some x) => False_ind _ (eq_ind None (fun v => match v with None => True | Some _ => False end) I _ H)))).
    - rewrite wvalue_S in *. revert E. apply (proj1 (body_mono r an _ _ IH)).
  Qed.

  Lemma wvalue_mono : forall r an f f' l o x,
    f <= f' -> wvalue r dec f an l o = Some x -> wvalue r dec f' an l o = Some x.
  Proof.
    intros r an f f' l o x Hle E. induction Hle as [|m _ IH]; [exact E|]. now apply wvalue_mono_S.
  Qed.
  (* ---------------------------------------------------------------- whole and part: names *)
  Lemma props_body_lookup : forall r an d ps o dd,
    props_body r dec an d ps o = Some (Ok dd) ->
    map fst dd = wkeys ps /\
    forall k, match wfind k ps with
              | Some l => exists x, value_body r dec an d l o = Some (Ok x) /\ dlookup k dd = Some x
              | None => dlookup k dd = None
              end.
  Proof.
    intros r an d ps. induction ps as [|k0 l0 rest IH]; intros o dd E.
    - rewrite pb_nil in E. inversion E. split; [reflexivity|]. intros k. reflexivity.
    - rewrite pb_cons in E.
      destruct (value_body r dec an d l0 o) as [[x0|e]|] eqn:El; try discriminate.
      destruct (props_body r dec an d rest o) as [[dr|e]|] eqn:Er; try discriminate.
      inversion E; subst dd. destruct (IH _ _ Er) as [Hk Hf]. split; [cbn; now rewrite Hk|].
      intros k. cbn [wfind dlookup]. destruct (key_eqb k k0).
      + exists x0. split; [exact El|reflexivity].
      + apply Hf.
  Qed.

  Theorem commute_name : forall (r : list B) (v v' : vnav) (k : key) (d : list (key * pvA)),
    vnav_value r dec v = Some (Ok (PDict d)) ->
    vnav_name v k = Ok v' ->
    exists x, dlookup k d = Some x /\ vnav_value r dec v' = Some (Ok x).
  Proof.
    intros r [l an] v' k d Hv Hn. unfold vnav_value, vnav_name in *. cbn [vn_loc vn_an] in *.
    destruct l as [a st sz|st sz isz cnt it sch|st sz ps|st sz alts|st t]; try discriminate.
    set (F := length an) in *.
    assert (Hb : exists dr, (forall l o x, dr l o = Some x -> wvalue r dec F an l o = Some x) /\
                            wvalue r dec F an = value_body r dec an dr).
    { destruct F as [|f].
      - exists (fun _ _ => None). split; [intros; discriminate|apply wvalue_0].
      - exists (wvalue r dec f an). split; [intros; now apply wvalue_mono_S|apply wvalue_S]. }
    destruct Hb as [dr [Hdr Hw]]. rewrite Hw in Hv. rewrite vb_obj in Hv.
    destruct (props_body r dec an dr ps 0) as [[dd|e]|] eqn:Ep; try discriminate.
    inversion Hv; subst dd. destruct (props_body_lookup _ _ _ _ _ _ Ep) as [_ Hf]. specialize (Hf k).
    destruct (wfind k ps) as [c|]; [|discriminate].
    destruct Hf as [x [Hx Hd]]. exists x. split; [exact Hd|].
    destruct c as [a' st' sz'|st' sz' isz' cnt' it' sch'|st' sz' ps'|st' sz' alts'|st' t'];
      try (inversion Hn; subst v'; cbn [vn_loc vn_an]; fold F; rewrite Hw; exact Hx).
    rewrite vb_ref in Hx. destruct (wlookup t' an) as [target|]; [|discriminate].
    inversion Hn; subst v'. cbn [vn_loc vn_an]. fold F. apply Hdr. exact Hx.
  Qed.

  (* a name of the schema can be navigated to whenever the whole value exists *)
  Lemma name_total : forall (r : list B) (v : vnav) st sz ps (d : list (key * pvA)) k,
    vn_loc v = WObj st sz ps ->
    vnav_value r dec v = Some (Ok (PDict d)) ->
    In k (wkeys ps) -> exists v', vnav_name v k = Ok v'.
  Proof.
    intros r [l an] st sz ps d k Hl Hv Hin. cbn [vn_loc] in Hl. subst l.
    unfold vnav_value, vnav_name in *. cbn [vn_loc vn_an] in *.
    set (F := length an) in *.
    assert (Hb : exists dr, wvalue r dec F an = value_body r dec an dr).
    { destruct F as [|f]; [exists (fun _ _ => None); apply wvalue_0|exists (wvalue r dec f an); apply wvalue_S]. }
    destruct Hb as [dr Hw]. rewrite Hw, vb_obj in Hv.
    destruct (props_body r dec an dr ps 0) as [[dd|e]|] eqn:Ep; try discriminate.
    destruct (props_body_lookup _ _ _ _ _ _ Ep) as [_ Hf]. specialize (Hf k).
    assert (Hsome : wfind k ps <> None).
    { clear -Hin. induction ps as [|k0 l0 rest IH]; [destruct Hin|]. cbn [wfind wkeys] in *.
      destruct (key_eqb k k0) eqn:E; [discriminate|]. destruct Hin as [H|H]; [|now apply IH].
      subst k0. exfalso. clear -E. destruct k; cbn in E; now rewrite N.eqb_refl in E. }
    destruct (wfind k ps) as [c|]; [|congruence]. destruct Hf as [x [Hx _]].
    destruct c as [a' st' sz'|st' sz' isz' cnt' it' sch'|st' sz' ps'|st' sz' alts'|st' t']; try (eexists; reflexivity).
    rewrite vb_ref in Hx. destruct (wlookup t' an); [eexists; reflexivity|discriminate].
  Qed.

  (* Row.values: the values of the top-level properties, in schema order *)
  Theorem row_values_whole : forall (r : list B) (v : vnav) st sz ps (d : list (key * pvA)),
    vn_loc v = WObj st sz ps ->
    vnav_value r dec v = Some (Ok (PDict d)) ->
    map fst d = wkeys ps /\
    exists vs, row_values r dec v = Some (Ok vs) /\ Forall2 (fun k x => dlookup k d = Some x) (wkeys ps) vs.
  Proof.
    intros r v st sz ps d Hl Hv. split.
    - destruct v as [l an]. cbn [vn_loc] in Hl. subst l. unfold vnav_value in Hv. cbn [vn_loc vn_an] in Hv.
      set (F := length an) in *.
      assert (Hb : exists dr, wvalue r dec F an = value_body r dec an dr).
      { destruct F as [|f]; [exists (fun _ _ => None); apply wvalue_0|exists (wvalue r dec f an); apply wvalue_S]. }
      destruct Hb as [dr Hw]. rewrite Hw, vb_obj in Hv.
      destruct (props_body r dec an dr ps 0) as [[dd|e]|] eqn:Ep; try discriminate.
      inversion Hv; subst dd. exact (proj1 (props_body_lookup _ _ _ _ _ _ Ep)).
    - unfold row_values. rewrite Hl.
      assert (Hall : forall ks, (forall k, In k ks -> In k (wkeys ps)) ->
                exists vs, values_of r dec v ks = Some (Ok vs) /\ Forall2 (fun k x => dlookup k d = Some x) ks vs).
      { induction ks as [|k ks IH]; intros Hsub.
        - exists []. split; [reflexivity|constructor].
        - destruct (name_total r v st sz ps d k Hl Hv (Hsub k (or_introl eq_refl))) as [v' Hn].
          destruct (commute_name r v v' k d Hv Hn) as [x [Hd Hx]].
          destruct IH as [vs [Hvs HF]]; [intros k' Hk'; apply Hsub; now right|].
          exists (x :: vs). split; [|constructor; assumption].
          cbn [values_of]. rewrite Hn, Hx, Hvs. reflexivity. }
      apply Hall. auto.
  Qed.

  Lemma dlookup_nodup : forall (d : list (key * pvA)) vs,
    NoDup (map fst d) -> Forall2 (fun k x => dlookup k d = Some x) (map fst d) vs -> vs = map snd d.
  Proof.
    assert (Hrefl : forall k, key_eqb k k = true) by (intros [i|i]; cbn; apply N.eqb_refl).
    assert (Heq : forall a b, key_eqb a b = true -> a = b).
    { intros [i|i] [j|j] E; cbn in E; try discriminate; apply N.eqb_eq in E; now subst. }
    induction d as [|[k x] d IH]; intros vs Hnd HF.
    - inversion HF. reflexivity.
    - cbn [map fst snd] in *. inversion HF as [|k' y ks ys Hy Hrest]; subst. inversion Hnd as [|? ? Hnotin Hnd']; subst.
      cbn [dlookup] in Hy. rewrite Hrefl in Hy. inversion Hy; subst y. f_equal. apply IH; [exact Hnd'|].
      clear -Hrest Hnotin Heq. revert ys Hrest. induction (map fst d) as [|k1 ks IH2]; intros ys HF.
      + inversion HF. constructor.
      + inversion HF as [|? y1 ? ys1 Hy1 Hr1]; subst. constructor.
        * cbn [dlookup] in Hy1. destruct (key_eqb k1 k) eqn:E; [|exact Hy1].
          apply Heq in E. subst k1. exfalso. apply Hnotin. now left.
        * apply IH2; [|exact Hr1]. intros H. apply Hnotin. now right.
  Qed.

  (* ---------------------------------------------------------------- frame: value() reads only its footprint *)
  Lemma fb_atom : forall an df a st sz o, foot_body an df (WAtom a st sz) o = [(st + o, st + sz + o)].
  Proof. reflexivity. Qed.
  Lemma fb_arr : forall an df st sz isz cnt it sch o,
    foot_body an df (WArr st sz isz cnt it sch) o = flat_map (fun i => foot_body an df it (o + i * isz)) (seq 0 cnt).
  Proof. reflexivity. Qed.
  Lemma fb_obj : forall an df st sz ps o, foot_body an df (WObj st sz ps) o = foot_props an df ps o.
  Proof. reflexivity. Qed.
  Lemma fb_one : forall an df st sz alts o,
    foot_body an df (WOne st sz alts) o = match alts with WANil => [] | WACons first _ => foot_body an df first o end.
  Proof. reflexivity. Qed.
  Lemma fb_ref : forall an df st t o,
    foot_body an df (WRef st t) o = match wlookup t an with None => [] | Some target => df target o end.
  Proof. reflexivity. Qed.
  Lemma fp_cons : forall an df k l rest o,
    foot_props an df (WPCons k l rest) o = foot_body an df l o ++ foot_props an df rest o.
  Proof. reflexivity. Qed.
  Lemma wfoot_0 : forall an, wfoot 0 an = foot_body an (fun _ _ => []).
  Proof. reflexivity. Qed.
  Lemma wfoot_S : forall an f, wfoot (S f) an = foot_body an (wfoot f an).
  Proof. reflexivity. Qed.

  Definition agree_on (r r' : list B) (fp : list (nat * nat)) : Prop :=
    forall a b, In (a, b) fp -> slice r a b = slice r' a b.

  Lemma frame_body : forall (r r' : list B) (an : wanchors) (d d' : wloc -> nat -> vres pvA) df,
    (forall l o, agree_on r r' (df l o) -> d l o = d' l o) ->
    (forall l o, agree_on r r' (foot_body an df l o) -> value_body r dec an d l o = value_body r' dec an d' l o)
    /\ (forall ps o, agree_on r r' (foot_props an df ps o) -> props_body r dec an d ps o = props_body r' dec an d' ps o)
    /\ (forall ls, first_alt (fun l => forall o, agree_on r r' (foot_body an df l o) ->
                                        value_body r dec an d l o = value_body r' dec an d' l o) ls).
  Proof.
    intros r r' an d d' df Hd. apply wloc_wprops_walts_ind.
    - intros a st sz o H. rewrite !vb_atom. rewrite (H (st + o) (st + sz + o)); [reflexivity|]. rewrite fb_atom. now left.
    - intros st sz isz cnt it IH sch o H. rewrite !vb_arr.
      rewrite (seq_values_ext (fun i => value_body r dec an d it (o + i * isz))
                              (fun i => value_body r' dec an d' it (o + i * isz)) cnt 0); [reflexivity|].
      intros j Hj. apply IH. intros a b Hab. apply H. rewrite fb_arr. apply in_flat_map.
      exists j. split; [apply in_seq; lia|exact Hab].
    - intros st sz ps IH o H. rewrite !vb_obj. rewrite IH; [reflexivity|]. now rewrite fb_obj in H.
    - intros st sz alts IH o H. rewrite !vb_one. destruct alts as [|first rest]; [reflexivity|].
      apply IH. now rewrite fb_one in H.
    - intros st t o H. rewrite !vb_ref. rewrite fb_ref in H. destruct (wlookup t an); [|reflexivity]. now apply Hd.
    - intros o _. reflexivity.
    - intros k l IHl rest IHr o H. rewrite !pb_cons. rewrite fp_cons in H.
      rewrite IHl by (intros a b Hab; apply H; apply in_or_app; now left).
      rewrite IHr by (intros a b Hab; apply H; apply in_or_app; now right). reflexivity.
    - exact I.
    - intros l IHl rest _. exact IHl.
  Qed.

  Lemma frame_wvalue : forall (r r' : list B) an f l o,
    agree_on r r' (wfoot f an l o) -> wvalue r dec f an l o = wvalue r' dec f an l o.
  Proof.
    intros r r' an f. induction f as [|f IH]; intros l o H.
    - rewrite !wvalue_0. rewrite wfoot_0 in H. revert H. apply (proj1 (frame_body r r' an _ _ _ (fun _ _ _ => eq_refl))).
    - rewrite !wvalue_S. rewrite wfoot_S in H. revert H. apply (proj1 (frame_body r r' an _ _ _ IH)).
  Qed.

  (* non-interference: two records that agree on the bytes of a location give the same value there,
     error status included, whatever the rest of the records holds *)
  Theorem lazy_value : forall (r r' : list B) (v : vnav),
    foot_inside v = true ->
    vnav_raw r v = vnav_raw r' v ->
    vnav_value r dec v = vnav_value r' dec v.
  Proof.
    intros r r' v Hin Hraw. unfold vnav_value. apply frame_wvalue. intros a b Hab.
    unfold foot_inside in Hin. rewrite forallb_forall in Hin. specialize (Hin _ Hab). cbn [fst snd] in Hin.
    apply andb_prop in Hin. destruct Hin as [H1 H2]. apply Nat.leb_le in H1. apply Nat.leb_le in H2.
    rewrite <- (slice_slice r _ _ a b H1 H2), <- (slice_slice r' _ _ a b H1 H2).
    unfold vnav_raw in Hraw. now rewrite Hraw.
  Qed.

  (* an elementary item: its value is its own decoder applied to its own raw bytes *)
  Theorem atom_value : forall (r : list B) (v : vnav) a st sz,
    vn_loc v = WAtom a st sz ->
    vnav_value r dec v = match dec a (vnav_raw r v) with Ok x => Some (Ok (PAtom x)) | Err e => Some (Err e) end.
  Proof.
    intros r [l an] a st sz Hl. cbn [vn_loc] in Hl. subst l. unfold vnav_value, vnav_raw, wend. cbn [vn_loc vn_an wstart wsize].
    destruct (length an); [rewrite wvalue_0|rewrite wvalue_S]; rewrite vb_atom; now rewrite !Nat.add_0_r.
  Qed.

  (* ---------------------------------------------------------------- raw bytes *)
  Theorem raw_slice : forall (r : list B) (v v' : vnav),
    wstart (vn_loc v) <= wstart (vn_loc v') -> wend (vn_loc v') <= wend (vn_loc v) ->
    vnav_raw r v' = slice (vnav_raw r v) (wstart (vn_loc v') - wstart (vn_loc v)) (wend (vn_loc v') - wstart (vn_loc v)).
  Proof. intros r v v' H1 H2. unfold vnav_raw. symmetry. now apply slice_slice. Qed.

  (* ---------------------------------------------------------------- schemas without OCCURS DEPENDING ON *)

  Lemma simple_odo_free :
    (forall s, simple s = true -> odo_free s = true)
    /\ (forall ps, simple_props ps = true -> odo_free_props ps = true)
    /\ (forall alts, simple_alts alts = true -> odo_free_alts alts = true).
  Proof.
    apply js_props_alts_ind; cbn [simple simple_props simple_alts odo_free odo_free_props odo_free_alts]; intros; auto; try discriminate.
    - apply andb_prop in H1. destruct H1. rewrite H, H0; auto.
    - apply andb_prop in H1. destruct H1. rewrite H, H0; auto.
  Qed.

  Definition shift_an (d : nat) (an : wanchors) : wanchors := map (fun p => (fst p, wshift d (snd p))) an.

  Lemma wsize_shift : forall d l, wsize (wshift d l) = wsize l.
  Proof. intros d l. destruct l; reflexivity. Qed.
  Lemma wstart_shift : forall d l, wstart (wshift d l) = wstart l + d.
  Proof. intros d l. destruct l; reflexivity. Qed.
  Lemma wmax_shift : forall d ls, wmax_size (wshift_alts d ls) = wmax_size ls.
  Proof. intros d ls. induction ls as [|l r IH]; [reflexivity|]. cbn [wshift_alts wmax_size]. now rewrite wsize_shift, IH. Qed.
  Lemma wreg_shift : forall d a l new an0,
    shift_an d (wreg a l new) ++ an0 = wreg a (wshift d l) (shift_an d new ++ an0).
  Proof. intros d a l new an0. destruct a; reflexivity. Qed.
  Lemma wreg_app : forall a l new an, wreg a l (new ++ an) = wreg a l new ++ an.
  Proof. intros a l new an. destruct a; reflexivity. Qed.

  Section Rec.
    Variable r : list B.

    Lemma walkv_atom : forall a sz st an, walkv dcount r (JAtom a sz) st an = Ok (WAtom a st sz, wreg a (WAtom a st sz) an).
    Proof. reflexivity. Qed.
    Lemma walkv_arr : forall a n its st an,
      walkv dcount r (JArr a n its) st an =
      match walkv dcount r its st an with
      | Err e => Err e
      | Ok (sub, an1) => Ok (WArr st (wsize sub * n) (wsize sub) n sub its, wreg a (WArr st (wsize sub * n) (wsize sub) n sub its) an1)
      end.
    Proof. reflexivity. Qed.
    Lemma walkv_odo : forall a c its st an,
      walkv dcount r (JOdo a c its) st an =
      match wlookup (KName c) an with
      | None => Err KeyError
      | Some (WAtom _ cst csz) =>
          match walkv dcount r its st an with
          | Err e => Err e
          | Ok (sub, an1) =>
              Ok (WArr st (wsize sub * dcount (slice r cst (cst + csz))) (wsize sub) (dcount (slice r cst (cst + csz))) sub its,
                  wreg a (WArr st (wsize sub * dcount (slice r cst (cst + csz))) (wsize sub) (dcount (slice r cst (cst + csz))) sub its) an1)
          end
      | Some _ => Err TypeError
      end.
    Proof. reflexivity. Qed.
    Lemma walkv_obj : forall a ps st an,
      walkv dcount r (JObj a ps) st an =
      match walkv_props dcount r ps st an with
      | Err e => Err e
      | Ok (pls, off, an1) => Ok (WObj st (off - st) pls, wreg a (WObj st (off - st) pls) an1)
      end.
    Proof. reflexivity. Qed.
    Lemma walkv_one : forall a s0 rest st an,
      walkv dcount r (JOne a (ACons s0 rest)) st an =
      match walkv_alts dcount r (ACons s0 rest) st an with
      | Err e => Err e
      | Ok (als, an1) => Ok (WOne st (wmax_size als) als, wreg a (WOne st (wmax_size als) als) an1)
      end.
    Proof. reflexivity. Qed.
    Lemma walkv_one_nil : forall a st an, walkv dcount r (JOne a ANil) st an = Err ValueError.
    Proof. reflexivity. Qed.
    Lemma walkv_ref : forall t st an, walkv dcount r (JRef t) st an = Ok (WRef st t, an).
    Proof. reflexivity. Qed.
    Lemma walkv_props_nil : forall off an, walkv_props dcount r PNil off an = Ok (WPNil, off, an).
    Proof. reflexivity. Qed.
    Lemma walkv_props_cons : forall k p rest off an,
      walkv_props dcount r (PCons k p rest) off an =
      match walkv dcount r p off an with
      | Err e => Err e
      | Ok (pl, an1) =>
          match walkv_props dcount r rest (off + wsize pl) (wreg (js_anchor p) pl an1) with
          | Err e => Err e
          | Ok (rl, off', an2) => Ok (WPCons k pl rl, off', an2)
          end
      end.
    Proof. reflexivity. Qed.
    Lemma walkv_alts_nil : forall st an, walkv_alts dcount r ANil st an = Ok (WANil, an).
    Proof. reflexivity. Qed.
    Lemma walkv_alts_cons : forall s rest st an,
      walkv_alts dcount r (ACons s rest) st an =
      match walkv dcount r s st an with
      | Err e => Err e
      | Ok (l, an1) =>
          match walkv_alts dcount r rest st an1 with
          | Err e => Err e
          | Ok (ls, an2) => Ok (WACons l ls, an2)
          end
      end.
    Proof. reflexivity. Qed.

    (* walking an ODO-free schema somewhere else, with other anchors, gives the same tree moved *)
    Lemma walkv_shift :
      (forall s, odo_free s = true -> forall st an l an', walkv dcount r s st an = Ok (l, an') ->
         exists new, an' = new ++ an /\
           forall d an0, walkv dcount r s (st + d) an0 = Ok (wshift d l, shift_an d new ++ an0))
      /\ (forall ps, odo_free_props ps = true -> forall off an pls off' an', walkv_props dcount r ps off an = Ok (pls, off', an') ->
         exists new, an' = new ++ an /\
           forall d an0, walkv_props dcount r ps (off + d) an0 = Ok (wshift_props d pls, off' + d, shift_an d new ++ an0))
      /\ (forall alts, odo_free_alts alts = true -> forall st an als an', walkv_alts dcount r alts st an = Ok (als, an') ->
         exists new, an' = new ++ an /\
           forall d an0, walkv_alts dcount r alts (st + d) an0 = Ok (wshift_alts d als, shift_an d new ++ an0)).
    Proof.
      apply js_props_alts_ind.
      - intros a sz _ st an l an' E. rewrite walkv_atom in E. inversion E; subst.
        exists (wreg a (WAtom a st sz) []). split; [now rewrite <- wreg_app|].
        intros d an0. rewrite walkv_atom. now rewrite wreg_shift.
      - intros a n its IH Hof st an l an' E. rewrite walkv_arr in E. cbn [odo_free odo_free_props odo_free_alts] in Hof.
        destruct (walkv dcount r its st an) as [[sub an1]|e] eqn:Es; [|discriminate].
        inversion E; subst. destruct (IH Hof _ _ _ _ Es) as [new [Hn Hs]]. subst an1.
        exists (wreg a (WArr st (wsize sub * n) (wsize sub) n sub its) new). split; [now rewrite wreg_app|].
        intros d an0. rewrite walkv_arr, Hs. rewrite wreg_shift. cbn [wshift]. now rewrite wsize_shift.
      - intros a c its _ Hof. discriminate.
      - intros a ps IH Hof st an l an' E. rewrite walkv_obj in E. cbn [odo_free odo_free_props odo_free_alts] in Hof.
        destruct (walkv_props dcount r ps st an) as [[[pls off] an1]|e] eqn:Es; [|discriminate].
        inversion E; subst. destruct (IH Hof _ _ _ _ _ Es) as [new [Hn Hs]]. subst an1.
        exists (wreg a (WObj st (off - st) pls) new). split; [now rewrite wreg_app|].
        intros d an0. rewrite walkv_obj, Hs. rewrite wreg_shift. cbn [wshift].
        replace (off + d - (st + d)) with (off - st) by lia. reflexivity.
      - intros a alts IH Hof st an l an' E. cbn [odo_free odo_free_props odo_free_alts] in Hof.
        destruct alts as [|s0 rest]; [discriminate|]. rewrite walkv_one in E.
        destruct (walkv_alts dcount r (ACons s0 rest) st an) as [[als an1]|e] eqn:Es; [|discriminate].
        inversion E; subst. destruct (IH Hof _ _ _ _ Es) as [new [Hn Hs]]. subst an1.
        exists (wreg a (WOne st (wmax_size als) als) new). split; [now rewrite wreg_app|].
        intros d an0. rewrite walkv_one, Hs. rewrite wreg_shift. cbn [wshift]. now rewrite wmax_shift.
      - intros t _ st an l an' E. rewrite walkv_ref in E. inversion E; subst. exists []. split; [reflexivity|].
        intros d an0. reflexivity.
      - intros _ off an pls off' an' E. rewrite walkv_props_nil in E. inversion E; subst. exists []. split; [reflexivity|].
        intros d an0. reflexivity.
      - intros k s IHs rest IHr Hof off an pls off' an' E. rewrite walkv_props_cons in E. cbn [odo_free odo_free_props odo_free_alts] in Hof.
        apply andb_prop in Hof. destruct Hof as [Hs Hr].
        destruct (walkv dcount r s off an) as [[pl an1]|e] eqn:Es; [|discriminate].
        destruct (walkv_props dcount r rest (off + wsize pl) (wreg (js_anchor s) pl an1)) as [[[rl off1] an2]|e] eqn:Er; [|discriminate].
        inversion E; subst. destruct (IHs Hs _ _ _ _ Es) as [new1 [Hn1 Hs1]]. subst an1.
        destruct (IHr Hr _ _ _ _ _ Er) as [new2 [Hn2 Hs2]]. subst an'.
        exists (new2 ++ wreg (js_anchor s) pl new1). split; [now rewrite <- app_assoc, wreg_app|].
        intros d an0. rewrite walkv_props_cons, Hs1. rewrite wsize_shift.
        replace (off + d + wsize pl) with (off + wsize pl + d) by lia.
        rewrite <- wreg_shift. rewrite Hs2. cbn [wshift_props]. unfold shift_an. now rewrite map_app, <- app_assoc.
      - intros _ st an als an' E. rewrite walkv_alts_nil in E. inversion E; subst. exists []. split; [reflexivity|].
        intros d an0. reflexivity.
      - intros s IHs rest IHr Hof st an als an' E. rewrite walkv_alts_cons in E. cbn [odo_free odo_free_props odo_free_alts] in Hof.
        apply andb_prop in Hof. destruct Hof as [Hs Hr].
        destruct (walkv dcount r s st an) as [[l an1]|e] eqn:Es; [|discriminate].
        destruct (walkv_alts dcount r rest st an1) as [[ls an2]|e] eqn:Er; [|discriminate].
        inversion E; subst. destruct (IHs Hs _ _ _ _ Es) as [new1 [Hn1 Hs1]]. subst an1.
        destruct (IHr Hr _ _ _ _ Er) as [new2 [Hn2 Hs2]]. subst an'.
        exists (new2 ++ new1). split; [now rewrite <- app_assoc|].
        intros d an0. rewrite walkv_alts_cons, Hs1, Hs2. cbn [wshift_alts]. unfold shift_an. now rewrite map_app, <- app_assoc.
    Qed.
  End Rec.

  (* ---------------------------------------------------------------- shape of walk-produced trees *)
  Fixpoint chain (ps : wprops) (off : nat) : nat :=
    match ps with WPNil => off | WPCons _ l rest => chain rest (off + wsize l) end.

  Lemma chain_ge : forall ps off, off <= chain ps off.
  Proof. induction ps as [|k l rest IH]; intros off; cbn [chain]; [lia|]. specialize (IH (off + wsize l)). lia. Qed.

  Definition all_an (P : wloc -> Prop) (an : wanchors) : Prop := forall k l, In (k, l) an -> P l.

  Lemma all_an_wreg : forall (P : wloc -> Prop) a l an, P l -> all_an P an -> all_an P (wreg a l an).
  Proof.
    intros P a l an Hl Han. destruct a as [k|]; [|exact Han]. intros k' l' [H|H]; [inversion H; now subst|eauto].
  Qed.

  Lemma wlookup_in : forall t an l, wlookup t an = Some l -> exists k, In (k, l) an.
  Proof.
    intros t an. induction an as [|[k' l'] an IH]; intros l H; [discriminate|]. cbn [wlookup] in H.
    destruct (key_eqb t k').
    - inversion H; subst. exists k'. now left.
    - destruct (IH _ H) as [k Hk]. exists k. now right.
  Qed.

  Fixpoint ref_free (l : wloc) : bool :=
    match l with
    | WAtom _ _ _ => true
    | WArr _ _ _ _ it _ => ref_free it
    | WObj _ _ ps => ref_free_props ps
    | WOne _ _ alts => ref_free_alts alts
    | WRef _ _ => false
    end
  with ref_free_props (ps : wprops) : bool :=
    match ps with WPNil => true | WPCons _ l r => ref_free l && ref_free_props r end
  with ref_free_alts (ls : walts) : bool :=
    match ls with WANil => true | WACons l r => ref_free l && ref_free_alts r end.

  (* a location without $ref: its value does not depend on the anchors or the fuel, and moving the
     location is the same as moving the offset *)
  Lemma shift_reffree : forall (r : list B) an d an' d' D,
    (forall l, ref_free l = true -> forall o, value_body r dec an' d' (wshift D l) o = value_body r dec an d l (o + D))
    /\ (forall ps, ref_free_props ps = true -> forall o, props_body r dec an' d' (wshift_props D ps) o = props_body r dec an d ps (o + D))
    /\ (forall ls, ref_free_alts ls = true ->
          first_alt (fun l => forall o, value_body r dec an' d' (wshift D l) o = value_body r dec an d l (o + D)) ls).
  Proof.
    intros r an d an' d' D. apply wloc_wprops_walts_ind.
    - intros a st sz _ o. cbn [wshift]. rewrite !vb_atom.
      replace (st + D + o) with (st + (o + D)) by lia. replace (st + D + sz + o) with (st + sz + (o + D)) by lia. reflexivity.
    - intros st sz isz cnt it IH sch Hrf o. cbn [wshift ref_free ref_free_props ref_free_alts] in *. rewrite !vb_arr.
      rewrite (seq_values_ext (fun i => value_body r dec an' d' (wshift D it) (o + i * isz))
                              (fun i => value_body r dec an d it (o + D + i * isz)) cnt 0); [reflexivity|].
      intros j _. rewrite IH by exact Hrf. f_equal. lia.
    - intros st sz ps IH Hrf o. cbn [wshift ref_free ref_free_props ref_free_alts] in *. rewrite !vb_obj. now rewrite IH.
    - intros st sz alts IH Hrf o. cbn [wshift ref_free ref_free_props ref_free_alts] in *. rewrite !vb_one.
      destruct alts as [|first rest]; [reflexivity|]. cbn [wshift_alts]. exact (IH Hrf o).
    - intros st t Hrf. discriminate.
    - intros _ o. reflexivity.
    - intros k l IHl rest IHr Hrf o. cbn [wshift_props ref_free ref_free_props ref_free_alts] in *.
      apply andb_prop in Hrf. destruct Hrf as [H1 H2]. rewrite !pb_cons. now rewrite IHl, IHr.
    - intros _. exact I.
    - intros l IHl rest _ Hrf. cbn [ref_free ref_free_props ref_free_alts] in Hrf. apply andb_prop in Hrf. exact (IHl (proj1 Hrf)).
  Qed.

  Lemma wshift_0 :
    (forall l, wshift 0 l = l) /\ (forall ps, wshift_props 0 ps = ps) /\ (forall ls, wshift_alts 0 ls = ls).
  Proof.
    apply wloc_wprops_walts_ind; intros; cbn [wshift wshift_props wshift_alts]; rewrite ?Nat.add_0_r; congruence.
  Qed.

  Section Shape.
    Variable r : list B.

    Fixpoint wf (l : wloc) : Prop :=
      match l with
      | WAtom _ _ _ => True
      | WRef _ _ => True
      | WArr st sz isz cnt it sch =>
          wstart it = st /\ wsize it = isz /\ sz = isz * cnt /\ wf it
          /\ exists an0 an1, walkv dcount r sch st an0 = Ok (it, an1)
      | WObj st sz ps => wf_props ps st /\ st + sz = chain ps st
      | WOne st sz alts => wf_alts alts st sz
      end
    with wf_props (ps : wprops) (off : nat) : Prop :=
      match ps with
      | WPNil => True
      | WPCons _ l rest => wstart l = off /\ wf l /\ wf_props rest (off + wsize l)
      end
    with wf_alts (ls : walts) (st sz : nat) : Prop :=
      match ls with
      | WANil => True
      | WACons l rest => wstart l = st /\ wsize l <= sz /\ wf l /\ wf_alts rest st sz
      end.

    Lemma wf_alts_weaken : forall ls st sz sz', sz <= sz' -> wf_alts ls st sz -> wf_alts ls st sz'.
    Proof.
      induction ls as [|l rest IH]; intros st sz sz' Hle H; [exact I|]. cbn [wf_alts] in *.
      destruct H as [H1 [H2 [H3 H4]]]. repeat split; try assumption; [lia|eauto].
    Qed.

    Lemma walkv_wf :
      (forall s st an l an', walkv dcount r s st an = Ok (l, an') ->
         wstart l = st /\ wf l /\ (all_an wf an -> all_an wf an'))
      /\ (forall ps off an pls off' an', walkv_props dcount r ps off an = Ok (pls, off', an') ->
         wf_props pls off /\ off' = chain pls off /\ (all_an wf an -> all_an wf an'))
      /\ (forall alts st an als an', walkv_alts dcount r alts st an = Ok (als, an') ->
         wf_alts als st (wmax_size als) /\ (all_an wf an -> all_an wf an')).
    Proof.
      apply js_props_alts_ind.
      - intros a sz st an l an' E. rewrite walkv_atom in E. inversion E; subst. repeat split.
        intros H. now apply all_an_wreg.
      - intros a n its IH st an l an' E. rewrite walkv_arr in E.
        destruct (walkv dcount r its st an) as [[sub an1]|e] eqn:Es; [|discriminate].
        inversion E; subst. destruct (IH _ _ _ _ Es) as [H1 [H2 H3]].
        assert (Hw : wf (WArr st (wsize sub * n) (wsize sub) n sub its)).
        { cbn [wf]. repeat split; try assumption. eauto. }
        repeat split; try assumption; [eauto|]. intros H. apply all_an_wreg; auto.
      - intros a c its IH st an l an' E. rewrite walkv_odo in E.
        destruct (wlookup (KName c) an) as [[ca cst csz| | | |]|]; try discriminate.
        destruct (walkv dcount r its st an) as [[sub an1]|e] eqn:Es; [|discriminate].
        inversion E; subst. destruct (IH _ _ _ _ Es) as [H1 [H2 H3]].
        set (n := dcount (slice r cst (cst + csz))) in *.
        assert (Hw : wf (WArr st (wsize sub * n) (wsize sub) n sub its)).
        { cbn [wf]. repeat split; try assumption. eauto. }
        repeat split; try assumption; [eauto|]. intros H. apply all_an_wreg; auto.
      - intros a ps IH st an l an' E. rewrite walkv_obj in E.
        destruct (walkv_props dcount r ps st an) as [[[pls off] an1]|e] eqn:Es; [|discriminate].
        inversion E; subst. destruct (IH _ _ _ _ _ Es) as [H1 [H2 H3]].
        assert (Hw : wf (WObj st (off - st) pls)).
        { cbn [wf]. split; [exact H1|]. pose proof (chain_ge pls st). lia. }
        repeat split; try assumption; [exact (proj2 Hw)|]. intros H. apply all_an_wreg; auto.
      - intros a alts IH st an l an' E. destruct alts as [|s0 rest]; [discriminate|]. rewrite walkv_one in E.
        destruct (walkv_alts dcount r (ACons s0 rest) st an) as [[als an1]|e] eqn:Es; [|discriminate].
        inversion E; subst. destruct (IH _ _ _ _ Es) as [H1 H3].
        repeat split; try assumption. intros H. apply all_an_wreg; auto.
      - intros t st an l an' E. rewrite walkv_ref in E. inversion E; subst. repeat split. auto.
      - intros off an pls off' an' E. rewrite walkv_props_nil in E. inversion E; subst. repeat split. auto.
      - intros k s IHs rest IHr off an pls off' an' E. rewrite walkv_props_cons in E.
        destruct (walkv dcount r s off an) as [[pl an1]|e] eqn:Es; [|discriminate].
        destruct (walkv_props dcount r rest (off + wsize pl) (wreg (js_anchor s) pl an1)) as [[[rl off1] an2]|e] eqn:Er; [|discriminate].
        inversion E; subst. destruct (IHs _ _ _ _ Es) as [H1 [H2 H3]]. destruct (IHr _ _ _ _ _ Er) as [G1 [G2 G3]].
        cbn [wf_props chain]. repeat split; try assumption.
        intros H. apply G3. apply all_an_wreg; auto.
      - intros st an als an' E. rewrite walkv_alts_nil in E. inversion E; subst. split; [exact I|auto].
      - intros s IHs rest IHr st an als an' E. rewrite walkv_alts_cons in E.
        destruct (walkv dcount r s st an) as [[l an1]|e] eqn:Es; [|discriminate].
        destruct (walkv_alts dcount r rest st an1) as [[ls an2]|e] eqn:Er; [|discriminate].
        inversion E; subst. destruct (IHs _ _ _ _ Es) as [H1 [H2 H3]]. destruct (IHr _ _ _ _ Er) as [G1 G3].
        cbn [wf_alts wmax_size]. repeat split; try assumption; [lia| |auto].
        apply (wf_alts_weaken _ _ (wmax_size ls)); [lia|exact G1].
    Qed.

    Lemma wf_props_find : forall ps off k c,
      wf_props ps off -> wfind k ps = Some c -> wf c /\ off <= wstart c /\ wend c <= chain ps off.
    Proof.
      induction ps as [|k0 l rest IH]; intros off k c Hw Hf; [discriminate|]. cbn [wf_props wfind chain] in *.
      destruct Hw as [H1 [H2 H3]]. destruct (key_eqb k k0).
      - inversion Hf; subst c. split; [exact H2|]. unfold wend. pose proof (chain_ge rest (off + wsize l)). lia.
      - destruct (IH _ _ _ H3 Hf) as [G1 [G2 G3]]. split; [exact G1|]. lia.
    Qed.

    (* what holds of every navigator obtained from vnav_of by name / index steps *)
    Definition inv (v : vnav) : Prop := wf (vn_loc v) /\ all_an wf (vn_an v).

    Lemma inv_of : forall s v, vnav_of dcount r s = Ok v -> inv v.
    Proof.
      intros s v E. unfold vnav_of in E. destruct (walkv dcount r s 0 []) as [[l an]|e] eqn:Ew; [|discriminate].
      inversion E; subst. destruct (proj1 walkv_wf _ _ _ _ _ Ew) as [_ [H2 H3]]. split; [exact H2|].
      apply H3. intros k l' [].
    Qed.

    Lemma inv_name : forall v k v', inv v -> vnav_name v k = Ok v' -> inv v'.
    Proof.
      intros [l an] k v' [Hw Ha] E. unfold vnav_name in E. cbn [vn_loc vn_an] in *.
      destruct l as [a st sz|st sz isz cnt it sch|st sz ps|st sz alts|st t]; try discriminate.
      destruct (wfind k ps) as [c|] eqn:Ef; [|discriminate]. cbn [wf] in Hw.
      destruct (wf_props_find _ _ _ _ (proj1 Hw) Ef) as [Hc _].
      destruct c as [a' st' sz'|st' sz' isz' cnt' it' sch'|st' sz' ps'|st' sz' alts'|st' t'];
        try (inversion E; subst v'; split; assumption).
      destruct (wlookup t' an) as [target|] eqn:El; [|discriminate]. inversion E; subst v'.
      split; [|exact Ha]. cbn [vn_loc]. destruct (wlookup_in _ _ _ El) as [k' Hin]. exact (Ha _ _ Hin).
    Qed.

    Lemma inv_index : forall v i v', vnav_index dcount r v i = Ok v' -> inv v'.
    Proof.
      intros [l an] i v' E. unfold vnav_index in E. cbn [vn_loc vn_an] in *.
      destruct l as [a st sz|st sz isz cnt it sch|st sz ps|st sz alts|st t]; try discriminate.
      destruct (cnt <=? i); [discriminate|].
      destruct (walkv dcount r sch (st + isz * i) []) as [[l' an']|e] eqn:Ew; [|discriminate].
      inversion E; subst. destruct (proj1 walkv_wf _ _ _ _ _ Ew) as [_ [H2 H3]]. split; [exact H2|].
      apply H3. intros k l'' [].
    Qed.

    Lemma inv_path : forall p v v', inv v -> vnav_path dcount r v p = Ok v' -> inv v'.
    Proof.
      induction p as [|s p IH]; intros v v' Hi E; cbn [vnav_path] in E; [inversion E; now subst|].
      destruct (vnav_step dcount r v s) as [v1|e] eqn:Es; [|discriminate].
      apply (IH v1); [|exact E]. destruct s as [k|i]; cbn [vnav_step] in Es; [eapply inv_name|eapply inv_index]; eauto.
    Qed.

    (* ---- containment: a child reached by a name that is not a $ref placeholder *)

    Lemma name_inside : forall v k v', inv v -> vnav_name v k = Ok v' -> ref_prop v k = false ->
      wstart (vn_loc v) <= wstart (vn_loc v') /\ wend (vn_loc v') <= wend (vn_loc v).
    Proof.
      intros [l an] k v' [Hw Ha] E Hr. unfold vnav_name, ref_prop in *. cbn [vn_loc vn_an] in *.
      destruct l as [a st sz|st sz isz cnt it sch|st sz ps|st sz alts|st t]; try discriminate.
      destruct (wfind k ps) as [c|] eqn:Ef; [|discriminate]. cbn [wf] in Hw. destruct Hw as [Hp Hc].
      destruct (wf_props_find _ _ _ _ Hp Ef) as [_ [G1 G2]].
      destruct c as [a' st' sz'|st' sz' isz' cnt' it' sch'|st' sz' ps'|st' sz' alts'|st' t']; try discriminate;
        inversion E; subst v'; cbn [vn_loc wstart] in *; unfold wend in *; cbn [wstart wsize] in *; lia.
    Qed.

    (* ---- one occurrence of an ODO-free item: the first occurrence, moved *)
    Lemma index_shift : forall v st sz isz cnt it sch i,
      inv v -> vn_loc v = WArr st sz isz cnt it sch -> odo_free sch = true -> i < cnt ->
      exists an', vnav_index dcount r v i = Ok (mkvnav (wshift (isz * i) it) an').
    Proof.
      intros [l an] st sz isz cnt it sch i [Hw _] Hl Hof Hi. cbn [vn_loc] in *. subst l. cbn [wf] in Hw.
      destruct Hw as [_ [_ [_ [_ [an0 [an1 Ew]]]]]].
      destruct (proj1 (walkv_shift r) sch Hof _ _ _ _ Ew) as [new [_ Hs]].
      unfold vnav_index. cbn [vn_loc]. destruct (cnt <=? i) eqn:E; [apply Nat.leb_le in E; lia|].
      rewrite Hs. eexists. reflexivity.
    Qed.

    Lemma index_inside : forall v st sz isz cnt it sch i v',
      inv v -> vn_loc v = WArr st sz isz cnt it sch -> odo_free sch = true ->
      vnav_index dcount r v i = Ok v' ->
      wstart (vn_loc v') = st + isz * i /\ wsize (vn_loc v') = isz
      /\ wstart (vn_loc v) <= wstart (vn_loc v') /\ wend (vn_loc v') <= wend (vn_loc v).
    Proof.
      intros v st sz isz cnt it sch i v' Hinv Hl Hof E.
      assert (Hi : i < cnt).
      { unfold vnav_index in E. rewrite Hl in E. destruct (cnt <=? i) eqn:Ec; [discriminate|]. now apply Nat.leb_gt in Ec. }
      destruct (index_shift v _ _ _ _ _ _ i Hinv Hl Hof Hi) as [an' E']. rewrite E' in E. inversion E; subst v'.
      destruct Hinv as [Hw _]. rewrite Hl in Hw. cbn [wf] in Hw. destruct Hw as [H1 [H2 [H3 _]]].
      cbn [vn_loc]. rewrite wstart_shift, wsize_shift. rewrite Hl. unfold wend. rewrite wstart_shift, wsize_shift.
      cbn [wstart wsize]. subst sz. repeat split; try lia. nia.
    Qed.

    (* ---- simple (no $ref, no ODO) schemas give $ref-free trees *)
    Lemma walkv_simple_reffree :
      (forall s, simple s = true -> forall st an l an', walkv dcount r s st an = Ok (l, an') -> ref_free l = true)
      /\ (forall ps, simple_props ps = true -> forall off an pls off' an', walkv_props dcount r ps off an = Ok (pls, off', an') -> ref_free_props pls = true)
      /\ (forall alts, simple_alts alts = true -> forall st an als an', walkv_alts dcount r alts st an = Ok (als, an') -> ref_free_alts als = true).
    Proof.
      apply js_props_alts_ind.
      - intros a sz _ st an l an' E. rewrite walkv_atom in E. inversion E; subst. reflexivity.
      - intros a n its IH Hs st an l an' E. cbn [simple simple_props simple_alts] in Hs. rewrite walkv_arr in E.
        destruct (walkv dcount r its st an) as [[sub an1]|e] eqn:Es; [|discriminate]. inversion E; subst.
        cbn [ref_free]. eauto.
      - intros a c its _ Hs. discriminate.
      - intros a ps IH Hs st an l an' E. cbn [simple simple_props simple_alts] in Hs. rewrite walkv_obj in E.
        destruct (walkv_props dcount r ps st an) as [[[pls off] an1]|e] eqn:Es; [|discriminate]. inversion E; subst.
        cbn [ref_free]. eauto.
      - intros a alts IH Hs st an l an' E. cbn [simple simple_props simple_alts] in Hs.
        destruct alts as [|s0 rest]; [discriminate|]. rewrite walkv_one in E.
        destruct (walkv_alts dcount r (ACons s0 rest) st an) as [[als an1]|e] eqn:Es; [|discriminate]. inversion E; subst.
        cbn [ref_free]. eauto.
      - intros t Hs. discriminate.
      - intros _ off an pls off' an' E. rewrite walkv_props_nil in E. inversion E; subst. reflexivity.
      - intros k s IHs rest IHr Hs off an pls off' an' E. cbn [simple simple_props simple_alts] in Hs.
        apply andb_prop in Hs. destruct Hs as [Hs1 Hs2]. rewrite walkv_props_cons in E.
        destruct (walkv dcount r s off an) as [[pl an1]|e] eqn:Es; [|discriminate].
        destruct (walkv_props dcount r rest (off + wsize pl) (wreg (js_anchor s) pl an1)) as [[[rl off1] an2]|e] eqn:Er; [|discriminate].
        inversion E; subst. cbn [ref_free_props]. rewrite (IHs Hs1 _ _ _ _ Es), (IHr Hs2 _ _ _ _ _ Er). reflexivity.
      - intros _ st an als an' E. rewrite walkv_alts_nil in E. inversion E; subst. reflexivity.
      - intros s IHs rest IHr Hs st an als an' E. cbn [simple simple_props simple_alts] in Hs.
        apply andb_prop in Hs. destruct Hs as [Hs1 Hs2]. rewrite walkv_alts_cons in E.
        destruct (walkv dcount r s st an) as [[l an1]|e] eqn:Es; [|discriminate].
        destruct (walkv_alts dcount r rest st an1) as [[ls an2]|e] eqn:Er; [|discriminate].
        inversion E; subst. cbn [ref_free_alts]. rewrite (IHs Hs1 _ _ _ _ Es), (IHr Hs2 _ _ _ _ Er). reflexivity.
    Qed.

    (* ---- whole and part: indices, for items without $ref and without ODO *)
    Theorem commute_index_simple : forall v st sz isz cnt it sch (xs : list pvA) i,
      inv v -> vn_loc v = WArr st sz isz cnt it sch -> simple sch = true ->
      vnav_value r dec v = Some (Ok (PList xs)) -> i < cnt ->
      exists v' x, vnav_index dcount r v i = Ok v' /\ nth_error xs i = Some x /\ vnav_value r dec v' = Some (Ok x).
    Proof.
      intros v st sz isz cnt it sch xs i Hinv Hl Hs Hv Hi.
      pose proof (proj1 simple_odo_free _ Hs) as Hof.
      destruct (index_shift v _ _ _ _ _ _ i Hinv Hl Hof Hi) as [an' E'].
      assert (Hrf : ref_free it = true).
      { destruct Hinv as [Hw _]. rewrite Hl in Hw. cbn [wf] in Hw. destruct Hw as [_ [_ [_ [_ [an0 [an1 Ew]]]]]].
        exact (proj1 walkv_simple_reffree _ Hs _ _ _ _ Ew). }
      destruct v as [l an]. cbn [vn_loc] in Hl. subst l. unfold vnav_value in *. cbn [vn_loc vn_an] in *.
      assert (Hb : forall F an0, exists dr, wvalue r dec F an0 = value_body r dec an0 dr).
      { intros F an0. destruct F as [|f]; [exists (fun _ _ => None); apply wvalue_0|exists (wvalue r dec f an0); apply wvalue_S]. }
      destruct (Hb (length an) an) as [dr Hw]. rewrite Hw, vb_arr in Hv.
      destruct (seq_values (fun j => value_body r dec an dr it (0 + j * isz)) cnt 0) as [[ys|e]|] eqn:Es; try discriminate.
      inversion Hv; subst ys. destruct (seq_values_nth _ _ _ _ Es) as [_ Hn]. destruct (Hn i Hi) as [x [Hx1 Hx2]].
      eexists. exists x. split; [exact E'|]. split; [exact Hx1|]. cbn [vn_loc vn_an].
      destruct (Hb (length an') an') as [dr' Hw']. rewrite Hw'.
      rewrite (proj1 (shift_reffree r an dr an' dr' (isz * i)) it Hrf 0).
      rewrite <- Hx2. f_equal. lia.
    Qed.
  End Shape.

  (* ---------------------------------------------------------------- NDNav.index takes any Python int *)
  Lemma index_start_nat : forall (v : vnav) st sz isz cnt it sch i,
    vn_loc v = WArr st sz isz cnt it sch -> i < cnt ->
    index_start_z v (Z.of_nat i) = Ok (Z.of_nat (st + isz * i)).
  Proof.
    intros v st sz isz cnt it sch i Hl Hi. unfold index_start_z. rewrite Hl.
    destruct (Z.of_nat cnt <=? Z.of_nat i)%Z eqn:E; [apply Z.leb_le in E; lia|]. f_equal. lia.
  Qed.

  Lemma index_start_negative : forall (v : vnav) st sz isz cnt it sch z,
    vn_loc v = WArr st sz isz cnt it sch -> (z < 0)%Z ->
    index_start_z v z = Ok (Z.of_nat st + Z.of_nat isz * z)%Z.
  Proof.
    intros v st sz isz cnt it sch z Hl Hz. unfold index_start_z. rewrite Hl.
    destruct (Z.of_nat cnt <=? z)%Z eqn:E; [apply Z.leb_le in E; lia|]. reflexivity.
  Qed.

  (* ---------------------------------------------------------------- a $ref occurring inside a location *)

  (* ---------------------------------------------------------------- without ODO the tree does not depend on the record *)
  Lemma walkv_record_free : forall (r r' : list B),
    (forall s, odo_free s = true -> forall st an, walkv dcount r s st an = walkv dcount r' s st an)
    /\ (forall ps, odo_free_props ps = true -> forall off an, walkv_props dcount r ps off an = walkv_props dcount r' ps off an)
    /\ (forall alts, odo_free_alts alts = true -> forall st an, walkv_alts dcount r alts st an = walkv_alts dcount r' alts st an).
  Proof.
    intros r r'. apply js_props_alts_ind.
    - reflexivity.
    - intros a n its IH Hof st an. cbn [odo_free odo_free_props odo_free_alts] in Hof. rewrite !walkv_arr. now rewrite IH.
    - intros a c its _ Hof. discriminate.
    - intros a ps IH Hof st an. cbn [odo_free odo_free_props odo_free_alts] in Hof. rewrite !walkv_obj. now rewrite IH.
    - intros a alts IH Hof st an. cbn [odo_free odo_free_props odo_free_alts] in Hof.
      destruct alts as [|s0 rest]; [reflexivity|]. rewrite !walkv_one. now rewrite IH.
    - reflexivity.
    - reflexivity.
    - intros k s IHs rest IHr Hof off an. cbn [odo_free odo_free_props odo_free_alts] in Hof.
      apply andb_prop in Hof. destruct Hof as [H1 H2]. rewrite !walkv_props_cons. rewrite IHs by exact H1.
      destruct (walkv dcount r' s off an) as [[pl an1]|e]; [|reflexivity]. now rewrite IHr.
    - reflexivity.
    - intros s IHs rest IHr Hof st an. cbn [odo_free odo_free_props odo_free_alts] in Hof.
      apply andb_prop in Hof. destruct Hof as [H1 H2]. rewrite !walkv_alts_cons. rewrite IHs by exact H1.
      destruct (walkv dcount r' s st an) as [[l an1]|e]; [|reflexivity]. now rewrite IHr.
  Qed.

  (* ---------------------------------------------------------------- footprint of $ref-free, well-shaped trees *)
  Lemma foot_reffree_inside : forall (r : list B) an df,
    (forall l, wf r l -> ref_free l = true -> forall o a b, In (a, b) (foot_body an df l o) ->
       wstart l + o <= a /\ b <= wend l + o)
    /\ (forall ps, forall off, wf_props r ps off -> ref_free_props ps = true -> forall o a b, In (a, b) (foot_props an df ps o) ->
       off + o <= a /\ b <= chain ps off + o)
    /\ (forall ls, forall st sz, wf_alts r ls st sz -> ref_free_alts ls = true ->
       first_alt (fun l => forall o a b, In (a, b) (foot_body an df l o) -> st + o <= a /\ b <= st + sz + o) ls).
  Proof.
    intros r an df. apply wloc_wprops_walts_ind.
    - intros a st sz _ _ o x y H. rewrite fb_atom in H. destruct H as [H|[]]. inversion H; subst. unfold wend. cbn [wstart wsize]. lia.
    - intros st sz isz cnt it IH sch Hw Hrf o x y H. cbn [wf ref_free ref_free_props ref_free_alts] in *.
      destruct Hw as [H1 [H2 [H3 [H4 _]]]]. rewrite fb_arr in H. apply in_flat_map in H. destruct H as [j [Hj Hin]].
      apply in_seq in Hj. destruct (IH H4 Hrf _ _ _ Hin) as [G1 G2]. unfold wend in *. cbn [wstart wsize]. rewrite H1, H2 in *. subst sz.
      split; [lia|]. nia.
    - intros st sz ps IH Hw Hrf o x y H. cbn [wf ref_free ref_free_props ref_free_alts] in *. destruct Hw as [H1 H2].
      rewrite fb_obj in H. destruct (IH st H1 Hrf _ _ _ H) as [G1 G2]. unfold wend. cbn [wstart wsize]. lia.
    - intros st sz alts IH Hw Hrf o x y H. cbn [wf ref_free ref_free_props ref_free_alts] in *. rewrite fb_one in H.
      destruct alts as [|first rest]; [destruct H|]. specialize (IH st sz Hw Hrf). cbn [first_alt] in IH.
      destruct (IH _ _ _ H) as [G1 G2]. unfold wend. cbn [wstart wsize]. lia.
    - intros st t _ Hrf. discriminate.
    - intros off _ _ o x y H. destruct H.
    - intros k l IHl rest IHr off Hw Hrf o x y H. cbn [wf_props ref_free ref_free_props ref_free_alts chain] in *.
      destruct Hw as [H1 [H2 H3]]. apply andb_prop in Hrf. destruct Hrf as [R1 R2]. rewrite fp_cons in H.
      apply in_app_or in H. destruct H as [H|H].
      + destruct (IHl H2 R1 _ _ _ H) as [G1 G2]. unfold wend in G2. pose proof (chain_ge rest (off + wsize l)). lia.
      + destruct (IHr _ H3 R2 _ _ _ H) as [G1 G2]. lia.
    - intros st sz _ _. exact I.
    - intros l IHl rest _ st sz Hw Hrf. cbn [wf_alts ref_free ref_free_props ref_free_alts first_alt] in *.
      destruct Hw as [H1 [H2 [H3 _]]]. apply andb_prop in Hrf. destruct Hrf as [R1 _].
      intros o x y H. destruct (IHl H3 R1 _ _ _ H) as [G1 G2]. unfold wend in G2. lia.
  Qed.

  Lemma foot_inside_reffree : forall (r : list B) (v : vnav),
    inv r v -> ref_free (vn_loc v) = true -> foot_inside v = true.
  Proof.
    intros r [l an] [Hw _] Hrf. cbn [vn_loc] in *. unfold foot_inside, vnav_foot. cbn [vn_loc vn_an].
    apply forallb_forall. intros [a b] Hin. cbn [fst snd].
    assert (Hb : exists df, wfoot (length an) an = foot_body an df).
    { destruct (length an) as [|f]; [exists (fun _ _ => []); apply wfoot_0|exists (wfoot f an); apply wfoot_S]. }
    destruct Hb as [df Hf]. rewrite Hf in Hin.
    destruct (proj1 (foot_reffree_inside r an df) l Hw Hrf _ _ _ Hin) as [G1 G2].
    apply andb_true_intro. split; apply Nat.leb_le; lia.
  Qed.

  (* trees of simple schemas: no $ref, and every table remembers a simple items schema *)
  Fixpoint simple_loc (l : wloc) : bool :=
    match l with
    | WAtom _ _ _ => true
    | WArr _ _ _ _ it sch => simple sch && simple_loc it
    | WObj _ _ ps => simple_loc_props ps
    | WOne _ _ alts => simple_loc_alts alts
    | WRef _ _ => false
    end
  with simple_loc_props (ps : wprops) : bool :=
    match ps with WPNil => true | WPCons _ l r => simple_loc l && simple_loc_props r end
  with simple_loc_alts (ls : walts) : bool :=
    match ls with WANil => true | WACons l r => simple_loc l && simple_loc_alts r end.

  Lemma simple_loc_reffree :
    (forall l, simple_loc l = true -> ref_free l = true)
    /\ (forall ps, simple_loc_props ps = true -> ref_free_props ps = true)
    /\ (forall ls, simple_loc_alts ls = true -> ref_free_alts ls = true).
  Proof.
    apply wloc_wprops_walts_ind; cbn [simple_loc simple_loc_props simple_loc_alts ref_free ref_free_props ref_free_alts]; intros; auto.
    - apply andb_prop in H0. destruct H0. auto.
    - apply andb_prop in H1. destruct H1. rewrite H, H0; auto.
    - apply andb_prop in H1. destruct H1. rewrite H, H0; auto.
  Qed.

  Lemma walkv_simple_loc : forall (r : list B),
    (forall s, simple s = true -> forall st an l an', walkv dcount r s st an = Ok (l, an') -> simple_loc l = true)
    /\ (forall ps, simple_props ps = true -> forall off an pls off' an', walkv_props dcount r ps off an = Ok (pls, off', an') -> simple_loc_props pls = true)
    /\ (forall alts, simple_alts alts = true -> forall st an als an', walkv_alts dcount r alts st an = Ok (als, an') -> simple_loc_alts als = true).
  Proof.
    intros r. apply js_props_alts_ind.
    - intros a sz _ st an l an' E. rewrite walkv_atom in E. inversion E; subst. reflexivity.
    - intros a n its IH Hs st an l an' E. cbn [simple simple_props simple_alts] in Hs. rewrite walkv_arr in E.
      destruct (walkv dcount r its st an) as [[sub an1]|e] eqn:Es; [|discriminate]. inversion E; subst.
      cbn [simple_loc]. rewrite Hs. cbn. eauto.
    - intros a c its _ Hs. discriminate.
    - intros a ps IH Hs st an l an' E. cbn [simple simple_props simple_alts] in Hs. rewrite walkv_obj in E.
      destruct (walkv_props dcount r ps st an) as [[[pls off] an1]|e] eqn:Es; [|discriminate]. inversion E; subst.
      cbn [simple_loc]. eauto.
    - intros a alts IH Hs st an l an' E. cbn [simple simple_props simple_alts] in Hs.
      destruct alts as [|s0 rest]; [discriminate|]. rewrite walkv_one in E.
      destruct (walkv_alts dcount r (ACons s0 rest) st an) as [[als an1]|e] eqn:Es; [|discriminate]. inversion E; subst.
      cbn [simple_loc]. eauto.
    - intros t Hs. discriminate.
    - intros _ off an pls off' an' E. rewrite walkv_props_nil in E. inversion E; subst. reflexivity.
    - intros k s IHs rest IHr Hs off an pls off' an' E. cbn [simple simple_props simple_alts] in Hs.
      apply andb_prop in Hs. destruct Hs as [Hs1 Hs2]. rewrite walkv_props_cons in E.
      destruct (walkv dcount r s off an) as [[pl an1]|e] eqn:Es; [|discriminate].
      destruct (walkv_props dcount r rest (off + wsize pl) (wreg (js_anchor s) pl an1)) as [[[rl off1] an2]|e] eqn:Er; [|discriminate].
      inversion E; subst. cbn [simple_loc_props]. rewrite (IHs Hs1 _ _ _ _ Es), (IHr Hs2 _ _ _ _ _ Er). reflexivity.
    - intros _ st an als an' E. rewrite walkv_alts_nil in E. inversion E; subst. reflexivity.
    - intros s IHs rest IHr Hs st an als an' E. cbn [simple simple_props simple_alts] in Hs.
      apply andb_prop in Hs. destruct Hs as [Hs1 Hs2]. rewrite walkv_alts_cons in E.
      destruct (walkv dcount r s st an) as [[l an1]|e] eqn:Es; [|discriminate].
      destruct (walkv_alts dcount r rest st an1) as [[ls an2]|e] eqn:Er; [|discriminate].
      inversion E; subst. cbn [simple_loc_alts]. rewrite (IHs Hs1 _ _ _ _ Es), (IHr Hs2 _ _ _ _ Er). reflexivity.
  Qed.

  Lemma simple_loc_find : forall ps k c, simple_loc_props ps = true -> wfind k ps = Some c -> simple_loc c = true.
  Proof.
    induction ps as [|k0 l rest IH]; intros k c Hs Hf; [discriminate|]. cbn [simple_loc_props wfind] in *.
    apply andb_prop in Hs. destruct Hs as [H1 H2]. destruct (key_eqb k k0); [inversion Hf; now subst|eauto].
  Qed.

  Lemma simple_path : forall (r : list B) p v v',
    simple_loc (vn_loc v) = true -> vnav_path dcount r v p = Ok v' -> simple_loc (vn_loc v') = true.
  Proof.
    intros r. induction p as [|s p IH]; intros v v' Hs E; cbn [vnav_path] in E; [inversion E; now subst|].
    destruct (vnav_step dcount r v s) as [v1|e] eqn:Es; [|discriminate]. apply (IH v1); [|exact E].
    destruct v as [l an]. cbn [vn_loc] in Hs. destruct s as [k|i]; cbn [vnav_step] in Es.
    - unfold vnav_name in Es. cbn [vn_loc vn_an] in Es.
      destruct l as [a st sz|st sz isz cnt it sch|st sz ps|st sz alts|st t]; try discriminate.
      destruct (wfind k ps) as [c|] eqn:Ef; [|discriminate]. cbn [simple_loc] in Hs.
      pose proof (simple_loc_find _ _ _ Hs Ef) as Hc.
      destruct c as [a' st' sz'|st' sz' isz' cnt' it' sch'|st' sz' ps'|st' sz' alts'|st' t']; try discriminate;
        inversion Es; subst v1; exact Hc.
    - unfold vnav_index in Es. cbn [vn_loc vn_an] in Es.
      destruct l as [a st sz|st sz isz cnt it sch|st sz ps|st sz alts|st t]; try discriminate.
      destruct (cnt <=? i); [discriminate|]. cbn [simple_loc] in Hs. apply andb_prop in Hs. destruct Hs as [Hsch _].
      destruct (walkv dcount r sch (st + isz * i) []) as [[l' an']|e] eqn:Ew; [|discriminate]. inversion Es; subst v1.
      exact (proj1 (walkv_simple_loc r) _ Hsch _ _ _ _ Ew).
  Qed.

  Theorem foot_inside_simple : forall (r : list B) s p v0 v,
    simple s = true -> vnav_of dcount r s = Ok v0 -> vnav_path dcount r v0 p = Ok v -> foot_inside v = true.
  Proof.
    intros r s p v0 v Hs H0 Hp. apply (foot_inside_reffree r).
    - exact (inv_path r p v0 v (inv_of r s v0 H0) Hp).
    - apply (proj1 simple_loc_reffree). apply (simple_path r p v0 v); [|exact Hp].
      unfold vnav_of in H0. destruct (walkv dcount r s 0 []) as [[l an]|e] eqn:Ew; [|discriminate]. inversion H0; subst.
      exact (proj1 (walkv_simple_loc r) _ Hs _ _ _ _ Ew).
  Qed.

  Lemma index_refused : forall (r : list B) (v : vnav) st sz isz cnt it sch i,
    vn_loc v = WArr st sz isz cnt it sch -> cnt <= i -> vnav_index dcount r v i = Err IndexError.
  Proof.
    intros r v st sz isz cnt it sch i Hl Hi. unfold vnav_index. rewrite Hl.
    destruct (cnt <=? i) eqn:E; [reflexivity|]. apply Nat.leb_gt in E. lia.
  Qed.

End Value.

(* ------------------------------------------------------------------ the tie to C01's layout model *)
Section Erase.
  Variable B : Type.
  Variable dcount : list B -> nat.
  Variable r : list B.

  Lemma lsize_erase : forall l, lsize (erase l) = wsize l.
  Proof. destruct l; reflexivity. Qed.
  Lemma lstart_erase : forall l, lstart (erase l) = wstart l.
  Proof. destruct l; reflexivity. Qed.
  Lemma max_size_erase : forall ls, max_size (erase_alts ls) = wmax_size ls.
  Proof. induction ls as [|l rest IH]; [reflexivity|]. cbn [erase_alts max_size wmax_size]. now rewrite lsize_erase, IH. Qed.
  Lemma lookup_erase : forall k an, lookup k (erase_an an) = option_map erase (wlookup k an).
  Proof.
    intros k an. induction an as [|[k' l] an IH]; [reflexivity|]. cbn [erase_an map lookup wlookup fst snd].
    destruct (key_eqb k k'); [reflexivity|exact IH].
  Qed.
  Lemma reg_erase : forall a l an, reg a (erase l) (erase_an an) = erase_an (wreg a l an).
  Proof. intros a l an. destruct a; reflexivity. Qed.
  Lemma find_prop_erase : forall k ps, find_prop k (erase_props ps) = option_map erase (wfind k ps).
  Proof.
    intros k ps. induction ps as [|k' l rest IH]; [reflexivity|]. cbn [erase_props find_prop wfind].
    destruct (key_eqb k k'); [reflexivity|exact IH].
  Qed.

  Definition erase_res (x : res (wloc * wanchors)) : res (loc * anchors) :=
    match x with Ok (l, an) => Ok (erase l, erase_an an) | Err e => Err e end.

  (* LocationMaker.walk of Model/LayoutValue.v is LocationMaker.walk of Model/Layout.v (C01) with the atoms annotated *)
  Lemma walkv_erase :
    (forall s st an, walk dcount r s st (erase_an an) = erase_res (walkv dcount r s st an))
    /\ (forall ps off an, walk_props dcount r ps off (erase_an an) =
          match walkv_props dcount r ps off an with
          | Ok (pls, off', an') => Ok (erase_props pls, off', erase_an an') | Err e => Err e end)
    /\ (forall alts st an, walk_alts dcount r alts st (erase_an an) =
          match walkv_alts dcount r alts st an with
          | Ok (als, an') => Ok (erase_alts als, erase_an an') | Err e => Err e end).
  Proof.
    apply js_props_alts_ind.
    - intros a sz st an. rewrite walkv_atom. cbn [walk erase_res erase]. now rewrite <- reg_erase.
    - intros a n its IH st an. rewrite walkv_arr. cbn [walk]. rewrite IH.
      destruct (walkv dcount r its st an) as [[sub an1]|e]; [|reflexivity]. cbn [erase_res erase].
      rewrite lsize_erase. now rewrite <- reg_erase.
    - intros a c its IH st an. rewrite walkv_odo. cbn [walk]. rewrite lookup_erase.
      destruct (wlookup (KName c) an) as [[ca cst csz| | | |]|]; try reflexivity.
      cbn [option_map erase]. rewrite IH.
      destruct (walkv dcount r its st an) as [[sub an1]|e]; [|reflexivity]. cbn [erase_res erase].
      rewrite lsize_erase. now rewrite <- reg_erase.
    - intros a ps IH st an. rewrite walkv_obj. cbn [walk]. rewrite IH.
      destruct (walkv_props dcount r ps st an) as [[[pls off] an1]|e]; [|reflexivity]. cbn [erase_res erase].
      now rewrite <- reg_erase.
    - intros a alts IH st an. destruct alts as [|s0 rest]; [reflexivity|]. rewrite walkv_one.
      change (walk dcount r (JOne a (ACons s0 rest)) st (erase_an an)) with
        (match walk_alts dcount r (ACons s0 rest) st (erase_an an) with
         | Err e => Err e
         | Ok (als, an1) => Ok (LOne st (max_size als) als, reg a (LOne st (max_size als) als) an1) end).
      rewrite IH.
      destruct (walkv_alts dcount r (ACons s0 rest) st an) as [[als an1]|e]; [|reflexivity]. cbn [erase_res erase].
      rewrite max_size_erase. now rewrite <- reg_erase.
    - intros t st an. reflexivity.
    - intros off an. reflexivity.
    - intros k s IHs rest IHr off an. rewrite walkv_props_cons.
      change (walk_props dcount r (PCons k s rest) off (erase_an an)) with
        (match walk dcount r s off (erase_an an) with
         | Err e => Err e
         | Ok (pl, an1) =>
             match walk_props dcount r rest (off + lsize pl) (reg (js_anchor s) pl an1) with
             | Err e => Err e
             | Ok (rl, off', an2) => Ok (LPCons k pl rl, off', an2)
             end
         end).
      rewrite IHs. destruct (walkv dcount r s off an) as [[pl an1]|e]; [|reflexivity]. cbn [erase_res].
      rewrite lsize_erase, reg_erase, IHr.
      destruct (walkv_props dcount r rest (off + wsize pl) (wreg (js_anchor s) pl an1)) as [[[rl off1] an2]|e]; reflexivity.
    - intros st an. reflexivity.
    - intros s IHs rest IHr st an. rewrite walkv_alts_cons.
      change (walk_alts dcount r (ACons s rest) st (erase_an an)) with
        (match walk dcount r s st (erase_an an) with
         | Err e => Err e
         | Ok (l, an1) =>
             match walk_alts dcount r rest st an1 with
             | Err e => Err e
             | Ok (ls, an2) => Ok (LACons l ls, an2)
             end
         end).
      rewrite IHs. destruct (walkv dcount r s st an) as [[l an1]|e]; [|reflexivity]. cbn [erase_res].
      rewrite IHr. destruct (walkv_alts dcount r rest st an1) as [[ls an2]|e]; reflexivity.
  Qed.


  Lemma nav_of_erase : forall s, nav_of dcount r s = erase_rnav (vnav_of dcount r s).
  Proof.
    intros s. unfold nav_of, vnav_of. change (@nil (key * loc)) with (erase_an []).
    rewrite (proj1 walkv_erase). destruct (walkv dcount r s 0 []) as [[l an]|e]; reflexivity.
  Qed.

  Lemma nav_name_erase : forall v k, nav_name (erase_nav v) k = erase_rnav (vnav_name v k).
  Proof.
    intros [l an] k. unfold nav_name, vnav_name, erase_nav. cbn [n_loc n_an vn_loc vn_an].
    destruct l as [a st sz|st sz isz cnt it sch|st sz ps|st sz alts|st t]; try reflexivity.
    cbn [erase]. rewrite find_prop_erase. destruct (wfind k ps) as [c|]; [|reflexivity]. cbn [option_map].
    destruct c as [a' st' sz'|st' sz' isz' cnt' it' sch'|st' sz' ps'|st' sz' alts'|st' t']; try reflexivity.
    cbn [erase]. rewrite lookup_erase. destruct (wlookup t' an); reflexivity.
  Qed.

  Lemma nav_index_erase : forall v i, nav_index dcount r (erase_nav v) i = erase_rnav (vnav_index dcount r v i).
  Proof.
    intros [l an] i. unfold nav_index, vnav_index, erase_nav. cbn [n_loc n_an vn_loc vn_an].
    destruct l as [a st sz|st sz isz cnt it sch|st sz ps|st sz alts|st t]; try reflexivity.
    cbn [erase]. destruct (cnt <=? i); [reflexivity|]. change (@nil (key * loc)) with (erase_an []).
    rewrite (proj1 walkv_erase). destruct (walkv dcount r sch (st + isz * i) []) as [[l' an']|e]; reflexivity.
  Qed.

  Lemma nav_raw_erase : forall v, nav_raw r (erase_nav v) = vnav_raw r v.
  Proof. intros [l an]. unfold nav_raw, vnav_raw, erase_nav, lend, wend. cbn [n_loc vn_loc]. now rewrite lstart_erase, lsize_erase. Qed.
End Erase.

(* ------------------------------------------------------------------ the location tree depends on the record only through the ODO counters *)
(* the counters an OCCURS DEPENDING ON inside s consults *)

Section Counters.
  Variable B : Type.
  Variable dcount : list B -> nat.

  Lemma key_eqb_eq : forall a b, key_eqb a b = true -> a = b.
  Proof. intros [i|i] [j|j] E; cbn in E; try discriminate; apply N.eqb_eq in E; now subst. Qed.

  Lemma wlookup_in_key : forall k an l, wlookup k an = Some l -> In (k, l) an.
  Proof.
    intros k an. induction an as [|[k' l'] an IH]; intros l H; [discriminate|]. cbn [wlookup] in H.
    destruct (key_eqb k k') eqn:E.
    - inversion H; subst. apply key_eqb_eq in E. subst. now left.
    - right. now apply IH.
  Qed.

  (* anchors only grow *)
  Lemma walkv_extends : forall (r : list B),
    (forall s st an l an', walkv dcount r s st an = Ok (l, an') -> exists new, an' = new ++ an)
    /\ (forall ps off an pls off' an', walkv_props dcount r ps off an = Ok (pls, off', an') -> exists new, an' = new ++ an)
    /\ (forall alts st an als an', walkv_alts dcount r alts st an = Ok (als, an') -> exists new, an' = new ++ an).
  Proof.
    intros r. apply js_props_alts_ind.
    - intros a sz st an l an' E. rewrite walkv_atom in E. inversion E; subst.
      exists (wreg a (WAtom a st sz) []). now rewrite <- wreg_app.
    - intros a n its IH st an l an' E. rewrite walkv_arr in E.
      destruct (walkv dcount r its st an) as [[sub an1]|e] eqn:Es; [|discriminate]. inversion E; subst.
      destruct (IH _ _ _ _ Es) as [new Hn]. subst an1. eexists. now rewrite wreg_app.
    - intros a c its IH st an l an' E. rewrite walkv_odo in E.
      destruct (wlookup (KName c) an) as [[ca cst csz| | | |]|]; try discriminate.
      destruct (walkv dcount r its st an) as [[sub an1]|e] eqn:Es; [|discriminate]. inversion E; subst.
      destruct (IH _ _ _ _ Es) as [new Hn]. subst an1. eexists. now rewrite wreg_app.
    - intros a ps IH st an l an' E. rewrite walkv_obj in E.
      destruct (walkv_props dcount r ps st an) as [[[pls off] an1]|e] eqn:Es; [|discriminate]. inversion E; subst.
      destruct (IH _ _ _ _ _ Es) as [new Hn]. subst an1. eexists. now rewrite wreg_app.
    - intros a alts IH st an l an' E. destruct alts as [|s0 rest]; [discriminate|]. rewrite walkv_one in E.
      destruct (walkv_alts dcount r (ACons s0 rest) st an) as [[als an1]|e] eqn:Es; [|discriminate]. inversion E; subst.
      destruct (IH _ _ _ _ Es) as [new Hn]. subst an1. eexists. now rewrite wreg_app.
    - intros t st an l an' E. rewrite walkv_ref in E. inversion E; subst. now exists [].
    - intros off an pls off' an' E. rewrite walkv_props_nil in E. inversion E; subst. now exists [].
    - intros k s IHs rest IHr off an pls off' an' E. rewrite walkv_props_cons in E.
      destruct (walkv dcount r s off an) as [[pl an1]|e] eqn:Es; [|discriminate].
      destruct (walkv_props dcount r rest (off + wsize pl) (wreg (js_anchor s) pl an1)) as [[[rl off1] an2]|e] eqn:Er; [|discriminate].
      inversion E; subst. destruct (IHs _ _ _ _ Es) as [n1 H1]. destruct (IHr _ _ _ _ _ Er) as [n2 H2]. subst.
      exists (n2 ++ wreg (js_anchor s) pl n1). now rewrite <- app_assoc, wreg_app.
    - intros st an als an' E. rewrite walkv_alts_nil in E. inversion E; subst. now exists [].
    - intros s IHs rest IHr st an als an' E. rewrite walkv_alts_cons in E.
      destruct (walkv dcount r s st an) as [[l an1]|e] eqn:Es; [|discriminate].
      destruct (walkv_alts dcount r rest st an1) as [[ls an2]|e] eqn:Er; [|discriminate].
      inversion E; subst. destruct (IHs _ _ _ _ Es) as [n1 H1]. destruct (IHr _ _ _ _ Er) as [n2 H2]. subst.
      exists (n2 ++ n1). now rewrite <- app_assoc.
  Qed.

  (* two records that agree (as far as the count goes) on every counter field the walk registered
     give the same location tree and the same anchors *)
  Definition counters_agree (r r' : list B) (ks : list id) (an : wanchors) : Prop :=
    forall c a cst csz, In c ks -> In (KName c, WAtom a cst csz) an ->
      dcount (slice r cst (cst + csz)) = dcount (slice r' cst (cst + csz)).

  Lemma counters_agree_sub : forall r r' ks ks' an an',
    (forall c, In c ks' -> In c ks) -> (forall x, In x an' -> In x an) ->
    counters_agree r r' ks an -> counters_agree r r' ks' an'.
  Proof. intros r r' ks ks' an an' Hk Ha H c a cst csz Hc Hin. apply (H c a); auto. Qed.

  Lemma walkv_counters : forall (r r' : list B),
    (forall s st an l an', walkv dcount r s st an = Ok (l, an') -> counters_agree r r' (odo_keys s) an' ->
       walkv dcount r' s st an = Ok (l, an'))
    /\ (forall ps off an pls off' an', walkv_props dcount r ps off an = Ok (pls, off', an') -> counters_agree r r' (odo_keys_props ps) an' ->
       walkv_props dcount r' ps off an = Ok (pls, off', an'))
    /\ (forall alts st an als an', walkv_alts dcount r alts st an = Ok (als, an') -> counters_agree r r' (odo_keys_alts alts) an' ->
       walkv_alts dcount r' alts st an = Ok (als, an')).
  Proof.
    intros r r'. apply js_props_alts_ind.
    - intros a sz st an l an' E _. rewrite walkv_atom in *. exact E.
    - intros a n its IH st an l an' E H. rewrite walkv_arr in *.
      destruct (walkv dcount r its st an) as [[sub an1]|e] eqn:Es; [|discriminate]. inversion E; subst.
      rewrite (IH _ _ _ _ Es); [reflexivity|].
      eapply counters_agree_sub; [| |exact H]; [auto|]. intros x Hx. destruct a; [now right|exact Hx].
    - intros a c its IH st an l an' E H. rewrite walkv_odo in *.
      destruct (wlookup (KName c) an) as [[ca cst csz| | | |]|] eqn:El; try discriminate.
      destruct (walkv dcount r its st an) as [[sub an1]|e] eqn:Es; [|discriminate]. inversion E; subst.
      destruct (proj1 (walkv_extends r) _ _ _ _ _ Es) as [new Hn]. subst an1.
      assert (Hc : dcount (slice r cst (cst + csz)) = dcount (slice r' cst (cst + csz))).
      { apply (H c ca); [now left|]. apply wlookup_in_key in El.
        destruct a; [right|]; apply in_or_app; now right. }
      rewrite (IH _ _ _ _ Es).
      + now rewrite Hc.
      + eapply counters_agree_sub; [| |exact H]; [intros c' Hc'; now right|].
        intros x Hx. destruct a; [now right|exact Hx].
    - intros a ps IH st an l an' E H. rewrite walkv_obj in *.
      destruct (walkv_props dcount r ps st an) as [[[pls off] an1]|e] eqn:Es; [|discriminate]. inversion E; subst.
      rewrite (IH _ _ _ _ _ Es); [reflexivity|].
      eapply counters_agree_sub; [| |exact H]; [auto|]. intros x Hx. destruct a; [now right|exact Hx].
    - intros a alts IH st an l an' E H. destruct alts as [|s0 rest]; [discriminate|]. rewrite walkv_one in *.
      destruct (walkv_alts dcount r (ACons s0 rest) st an) as [[als an1]|e] eqn:Es; [|discriminate]. inversion E; subst.
      rewrite (IH _ _ _ _ Es); [reflexivity|].
      eapply counters_agree_sub; [| |exact H]; [auto|]. intros x Hx. destruct a; [now right|exact Hx].
    - intros t st an l an' E _. exact E.
    - intros off an pls off' an' E _. exact E.
    - intros k s IHs rest IHr off an pls off' an' E H. rewrite walkv_props_cons in *.
      destruct (walkv dcount r s off an) as [[pl an1]|e] eqn:Es; [|discriminate].
      destruct (walkv_props dcount r rest (off + wsize pl) (wreg (js_anchor s) pl an1)) as [[[rl off1] an2]|e] eqn:Er; [|discriminate].
      inversion E; subst.
      destruct (proj1 (proj2 (walkv_extends r)) _ _ _ _ _ _ Er) as [n2 H2].
      rewrite (IHs _ _ _ _ Es).
      + rewrite (IHr _ _ _ _ _ Er); [reflexivity|].
        eapply counters_agree_sub; [| |exact H]; [|auto]. intros c Hc. cbn [odo_keys_props]. apply in_or_app. now right.
      + eapply counters_agree_sub; [| |exact H].
        * intros c Hc. cbn [odo_keys_props]. apply in_or_app. now left.
        * intros x Hx. rewrite H2. apply in_or_app. right. destruct (js_anchor s); [now right|exact Hx].
    - intros st an als an' E _. exact E.
    - intros s IHs rest IHr st an als an' E H. rewrite walkv_alts_cons in *.
      destruct (walkv dcount r s st an) as [[l an1]|e] eqn:Es; [|discriminate].
      destruct (walkv_alts dcount r rest st an1) as [[ls an2]|e] eqn:Er; [|discriminate].
      inversion E; subst.
      destruct (proj2 (proj2 (walkv_extends r)) _ _ _ _ _ Er) as [n2 H2].
      rewrite (IHs _ _ _ _ Es).
      + rewrite (IHr _ _ _ _ Er); [reflexivity|].
        eapply counters_agree_sub; [| |exact H]; [|auto]. intros c Hc. cbn [odo_keys_alts]. apply in_or_app. now right.
      + eapply counters_agree_sub; [| |exact H].
        * intros c Hc. cbn [odo_keys_alts]. apply in_or_app. now left.
        * intros x Hx. rewrite H2. apply in_or_app. now right.
  Qed.

  Theorem nav_counters : forall (r r' : list B) s v,
    vnav_of dcount r s = Ok v -> counters_agree r r' (odo_keys s) (vn_an v) -> vnav_of dcount r' s = Ok v.
  Proof.
    intros r r' s v E H. unfold vnav_of in *. destruct (walkv dcount r s 0 []) as [[l an]|e] eqn:Ew; [|discriminate].
    inversion E; subst. cbn [vn_an] in H. now rewrite (proj1 (walkv_counters r r') _ _ _ _ _ Ew H).
  Qed.
End Counters.
